"""Untrusted reader of generated linker scripts back into the script AST of coq/Model/Script.v.

The same reader is applied to the implementation's text and to the model's text, so projections built on
it are symmetric.  `ParseError` means the text contains a line shape outside the AST.
"""
import re


class ParseError(Exception):
    pass


def _assign(line):
    """-> dict or None"""
    m = re.fullmatch(r"(PROVIDE_HIDDEN|PROVIDE|HIDDEN)\((.*?) = (.*)\);", line)
    if m:
        w = m.group(1)
        return {"k": "assign", "provide": w.startswith("PROVIDE"), "hidden": w.endswith("HIDDEN"),
                "sym": m.group(2), "value": m.group(3)}
    m = re.fullmatch(r"(.*?) = (.*);", line)
    if m:
        sym, val = m.group(1), m.group(2)
        ma = re.fullmatch(r"ALIGN\((.*), 0x([0-9A-F]+)\)", val)
        if ma and ma.group(1) == sym:
            return {"k": "align", "sym": sym, "n": int(ma.group(2), 16)}
        mm = re.fullmatch(r"MAX\((.*?), (.*)\)", val)
        if mm and mm.group(1) == sym:
            return {"k": "max", "sym": sym, "other": mm.group(2)}
        return {"k": "assign", "provide": False, "hidden": False, "sym": sym, "value": val}
    return None


def _input(line):
    keep = False
    s = line
    if s.startswith("KEEP(") and s.endswith("));"):
        keep = True
        s = s[5:-2] + ";"
    if not s.endswith(");"):
        return None
    s = s[:-2]
    i = s.rfind("(")
    if i <= 0:
        return None
    left, sect = s[:i], s[i + 1:]
    wild = sect.endswith("*")
    if wild:
        sect = sect[:-1]
    member = None
    if ":" in left:
        left, member = left.split(":", 1)
    return {"k": "input", "keep": keep, "path": left, "member": member, "sect": sect, "wild": wild}


def _header(line):
    # name[ addr][ (NOLOAD)] :[ AT(sym)][ SUBALIGN(n)]
    m = re.fullmatch(r"(.*?) :( AT\((.*?)\))?( SUBALIGN\((\d+)\))?", line)
    if not m:
        return None
    left = m.group(1)
    noload = left.endswith(" (NOLOAD)")
    if noload:
        left = left[:-len(" (NOLOAD)")]
    name, sep, addr = left.partition(" ")
    if not name:
        return None
    return {"k": "outsec", "name": name, "addr": addr if sep else None, "noload": noload,
            "at": m.group(3), "subalign": int(m.group(5)) if m.group(5) else None, "body": []}


def parse_script(text):
    if text == "":
        return []
    if not text.endswith("\n"):
        raise ParseError("no final newline")
    lines = text[:-1].split("\n")
    pos = 0

    def strip(l, depth):
        ind = "    " * depth
        if l == "":
            return ""
        if not l.startswith(ind) or l[len(ind):].startswith(" "):
            raise ParseError("indentation of %r at depth %d" % (l, depth))
        return l[len(ind):]

    def block(depth, ctx):
        nonlocal pos
        out = []
        while pos < len(lines):
            raw = lines[pos]
            if raw == "":
                out.append({"k": "blank"})
                pos += 1
                continue
            if depth > 0 and raw == "    " * (depth - 1) + "}":
                return out
            l = strip(raw, depth)
            pos += 1
            if ctx == "top":
                if l.startswith("/* ") and l.endswith(" */"):
                    out.append({"k": "comment", "text": l[3:-3]})
                    continue
                if l == "SECTIONS":
                    _open(depth)
                    body = block(depth + 1, "sections")
                    _close(depth)
                    out.append({"k": "sections", "body": body})
                    continue
                m = re.fullmatch(r"ENTRY\((.*)\);", l)
                if m:
                    out.append({"k": "entry", "sym": m.group(1)})
                    continue
                m = re.fullmatch(r"EXTERN\((.*)\);", l)
                if m:
                    out.append({"k": "extern", "sym": m.group(1)})
                    continue
                m = re.fullmatch(r'ASSERT\(\((.*)\), "Error: (.*)"\);', l)
                if m:
                    out.append({"k": "assert", "cond": m.group(1), "msg": m.group(2)})
                    continue
                a = _assign(l)
                if a:
                    out.append(a)
                    continue
                raise ParseError("top-level line %r" % l)
            if ctx == "sections":
                m = re.fullmatch(r"__romPos \+= SIZEOF\((.*)\);", l)
                if m:
                    out.append({"k": "romadd", "sec": m.group(1)})
                    continue
                if l == "/DISCARD/ :":
                    _open(depth)
                    pats, wild = [], False
                    while pos < len(lines) and lines[pos] != "    " * depth + "}":
                        p = strip(lines[pos], depth + 1)
                        pos += 1
                        mm = re.fullmatch(r"\*\((.*)\);", p)
                        if not mm:
                            raise ParseError("discard line %r" % p)
                        pats.append(mm.group(1))
                    _close(depth)
                    if pats and pats[-1] == "*":
                        # the wildcard line is rendered last; a deny pattern "*" is indistinguishable
                        wild = True
                        pats = pats[:-1]
                    out.append({"k": "discard", "pats": pats, "wild": wild})
                    continue
                m = re.fullmatch(r"(.+) 0 : \{ \*\((.+)\); \}", l)
                if m and m.group(1) == m.group(2):
                    out.append({"k": "single_entry", "sect": m.group(1)})
                    continue
                if pos < len(lines) and lines[pos] == "    " * depth + "{":
                    h = _header(l)
                    if h is None:
                        raise ParseError("output section header %r" % l)
                    _open(depth)
                    h["body"] = block(depth + 1, "outsec")
                    _close(depth)
                    out.append(h)
                    continue
                a = _assign(l)
                if a:
                    out.append(a)
                    continue
                raise ParseError("line in SECTIONS %r" % l)
            if ctx == "outsec":
                m = re.fullmatch(r"FILL\(0x([0-9A-F]{8})\);", l)
                if m:
                    out.append({"k": "fill", "n": int(m.group(1), 16)})
                    continue
                m = re.fullmatch(r"\. \+= 0x([0-9A-F]+);", l)
                if m:
                    out.append({"k": "dotadd", "n": int(m.group(1), 16)})
                    continue
                a = _assign(l)
                if a and not (l.endswith(");") and "(" in a["sym"]):
                    out.append(a)
                    continue
                i = _input(l)
                if i:
                    out.append(i)
                    continue
                raise ParseError("line in output section %r" % l)
        if depth > 0:
            raise ParseError("unterminated block")
        return out

    def _open(depth):
        nonlocal pos
        if pos >= len(lines) or lines[pos] != "    " * depth + "{":
            raise ParseError("expected '{'")
        pos += 1

    def _close(depth):
        nonlocal pos
        if pos >= len(lines) or lines[pos] != "    " * depth + "}":
            raise ParseError("expected '}'")
        pos += 1

    return block(0, "top")


# ---------- generic walkers ----------

def walk(stmts, ctx=()):
    """yield (stmt, ctx) depth-first; ctx = tuple of enclosing block descriptors"""
    for s in stmts:
        yield s, ctx
        if s["k"] == "sections":
            yield from walk(s["body"], ctx + (("sections",),))
        elif s["k"] == "outsec":
            yield from walk(s["body"], ctx + (("outsec", s["name"]),))


def sections_body(ast):
    for s in ast:
        if s["k"] == "sections":
            return s["body"]
    return None


def strip_blank(stmts):
    out = []
    for s in stmts:
        if s["k"] == "blank":
            continue
        if "body" in s:
            s = dict(s)
            s["body"] = strip_blank(s["body"])
        out.append(s)
    return out
