"""Encoders for serial documents.

A serial record is a Python dict: key missing = absent, value None = null, otherwise the value.
Keys outside the schema are "unknown keys".  The same dict is rendered as
  * YAML (JSON flow style, which serde_yaml reads) for the Rust implementation, and
  * the positional s-expression the OCaml driver of the extracted Coq model reads.
"""
import json

CONDS = ["include_if_any", "include_if_all", "exclude_if_any", "exclude_if_all"]

# (field, type) in the order of the Coq records (coq/Model/Types.v).  "!" marks plain required fields.
FILE = [("path", "str"), ("kind", "kind"), ("subfile", "str"), ("pad_amount", "N"), ("section", "str"),
        ("linker_offset_name", "str"), ("section_order", "smap"), ("files", ("list", "file")),
        ("dir", "str"), ("@conds", None), ("keep_sections", "keep")]
GP = [("section", "str"), ("offset", "Z"), ("provide", "bool"), ("hidden", "bool"), ("@conds", None)]
SEGMENT = [("name", "!str"), ("files", ("!list", "file")), ("fixed_vram", "N"), ("fixed_symbol", "str"),
           ("follows_segment", "str"), ("vram_class", "str"), ("dir", "str"), ("gp_info", ("rec", "gp")),
           ("@conds", None), ("alloc_sections", ("list", "str")), ("noload_sections", ("list", "str")),
           ("subalign", "N"), ("segment_start_align", "N"), ("segment_end_align", "N"),
           ("section_start_align", "N"), ("section_end_align", "N"),
           ("sections_start_alignment", "nmap"), ("sections_end_alignment", "nmap"),
           ("wildcard_sections", "bool"), ("fill_value", "N"), ("sections_subgroups", "lmap"),
           ("keep_sections", "keep")]
SETTINGS = [("base_path", "str"), ("linker_symbols_style", "style"), ("hardcoded_gp_value", "N"),
            ("d_path", "str"), ("target_path", "str"), ("symbols_header_path", "str"),
            ("symbols_header_type", "str"), ("symbols_header_as_array", "bool"),
            ("sections_allowlist", ("list", "str")), ("sections_allowlist_extra", ("list", "str")),
            ("sections_denylist", ("list", "str")), ("discard_wildcard_section", "bool"),
            ("single_segment_mode", "bool"), ("partial_scripts_folder", "str"),
            ("partial_build_segments_folder", "str"),
            ("alloc_sections", ("list", "str")), ("noload_sections", ("list", "str")),
            ("subalign", "N"), ("segment_start_align", "N"), ("segment_end_align", "N"),
            ("section_start_align", "N"), ("section_end_align", "N"),
            ("sections_start_alignment", "nmap"), ("sections_end_alignment", "nmap"),
            ("wildcard_sections", "bool"), ("fill_value", "N"), ("sections_subgroups", "lmap")]
CLASS = [("name", "!str"), ("fixed_vram", "N"), ("fixed_symbol", "str"),
         ("follows_classes", ("list", "str")), ("keep_sections", "keep")]
ASSIGN = [("name", "!str"), ("value", "!str"), ("provide", "bool"), ("hidden", "bool"), ("@conds", None)]
REQUIRED = [("name", "!str"), ("@conds", None)]
ASSERT = [("check", "!str"), ("error_message", "!str"), ("@conds", None)]
DOCUMENT = [("settings", ("rec", "settings")), ("vram_classes", ("list", "class")),
            ("segments", ("!list", "segment")), ("entry", "str"),
            ("symbol_assignments", ("list", "assign")), ("required_symbols", ("list", "required")),
            ("asserts", ("list", "assert"))]

SCHEMAS = {"file": FILE, "gp": GP, "segment": SEGMENT, "settings": SETTINGS, "class": CLASS,
           "assign": ASSIGN, "required": REQUIRED, "assert": ASSERT, "document": DOCUMENT}


def known_keys(schema):
    out = []
    for k, _ in SCHEMAS[schema]:
        if k == "@conds":
            out.extend(CONDS)
        else:
            out.append(k)
    return out


def sx_str(s):
    out = ['"']
    for b in s.encode("utf-8"):
        if b < 32 or b > 126 or b in (34, 92):
            out.append("\\x%02x" % b)
        else:
            out.append(chr(b))
    out.append('"')
    return "".join(out)


def sx_list(items):
    return "(L" + "".join(" " + i for i in items) + ")"


def sx_val(t, v):
    if t == "str":
        return sx_str(v)
    if t in ("N", "Z"):
        return str(int(v))
    if t == "bool":
        return "T" if v else "F"
    if t in ("kind", "style"):
        return v
    if t == "smap":
        return sx_list("(P %s %s)" % (sx_str(k), sx_str(x)) for k, x in v.items())
    if t == "pairs":
        return sx_list("(P %s %s)" % (sx_str(k), sx_str(x)) for k, x in v)
    if t == "nmap":
        return sx_list("(P %s %d)" % (sx_str(k), x) for k, x in v.items())
    if t == "lmap":
        return sx_list("(P %s %s)" % (sx_str(k), sx_list(sx_str(y) for y in x)) for k, x in v.items())
    if isinstance(t, tuple) and t[0] in ("list", "!list"):
        if t[1] == "str":
            return sx_list(sx_str(x) for x in v)
        return sx_list(sx_record(t[1], x) for x in v)
    if isinstance(t, tuple) and t[0] == "rec":
        return sx_record(t[1], v)
    raise ValueError(t)


def sx_an(t, rec, key):
    if key not in rec:
        return "A"
    if rec[key] is None:
        return "N"
    return "(V %s)" % sx_val(t, rec[key])


def sx_keep(rec):
    if "keep_sections" not in rec:
        return "KA"
    v = rec["keep_sections"]
    if isinstance(v, bool):
        return "(KB %s)" % ("T" if v else "F")
    if isinstance(v, list) and all(isinstance(x, str) for x in v):
        return "(KL %s)" % sx_list(sx_str(x) for x in v)
    return "KI"


def sx_record(schema, rec):
    fields = []
    unknown = [k for k in rec if k not in known_keys(schema)]
    fields.append(sx_list(sx_str(k) for k in unknown))
    for k, t in SCHEMAS[schema]:
        if k == "@conds":
            fields.append("(R %s)" % " ".join(sx_an("pairs", rec, c) for c in CONDS))
        elif t == "keep":
            fields.append(sx_keep(rec))
        elif t == "!str":
            fields.append(sx_an("str", rec, k))
        elif isinstance(t, tuple) and t[0].startswith("!"):
            if rec.get(k) is None:
                fields.append("None")
            else:
                fields.append("(Some %s)" % sx_val(t, rec[k]))
        else:
            fields.append(sx_an(t, rec, k))
    return "(R " + " ".join(fields) + ")"


def sx_runtime(opts, emit_version):
    return "(R %s %s)" % (sx_val("pairs", opts), "T" if emit_version else "F")


def sx_case(cid, doc, opts, emit_version, partial):
    return "(case %s %s %s %s)" % (cid, sx_record("document", doc), sx_runtime(opts, emit_version),
                                   "T" if partial else "F")


def sx_cli(cid, doc, output, partial, raw_opts, omit):
    out = "None" if output is None else "(Some %s)" % sx_str(output)
    return "(cli %s %s (R %s %s %s %s))" % (cid, sx_record("document", doc), out, "T" if partial else "F",
                                            sx_list(sx_str(o) for o in raw_opts), "T" if omit else "F")


def to_yaml(doc):
    """JSON is a subset of YAML 1.2 flow style; serde_yaml reads it."""
    return json.dumps(doc, ensure_ascii=False)


def hexopts(opts):
    return ",".join("%s:%s" % (k.encode().hex(), v.encode().hex()) for k, v in opts)


# ---------- script AST (as read back by vlib/scriptparse.py) -> s-expression ----------

import re as _re


def sx_expr(v):
    if v == ".":
        return "dot"
    if _re.fullmatch(r"0x[0-9A-F]{8}", v):
        return "(hex8 %d)" % int(v, 16)
    m = _re.fullmatch(r"ADDR\((.*)\)", v)
    if m:
        return "(addr %s)" % sx_str(m.group(1))
    m = _re.fullmatch(r"ABSOLUTE\((\S+) - (\S+)\)", v)
    if m:
        return "(abssub %s %s)" % (sx_str(m.group(1)), sx_str(m.group(2)))
    m = _re.fullmatch(r"\. \+ 0x([0-9A-F]+)", v)
    if m and (m.group(1) == "0" or not m.group(1).startswith("0")) and int(m.group(1), 16) < 2 ** 32:
        return "(dotplus %d)" % int(m.group(1), 16)
    m = _re.fullmatch(r"(\S+) - (\S+)", v)
    if m:
        return "(sub %s %s)" % (sx_str(m.group(1)), sx_str(m.group(2)))
    return "(raw %s)" % sx_str(v)


def sx_opt(f, v):
    return "None" if v is None else "(Some %s)" % f(v)


def sx_bool(b):
    return "T" if b else "F"


def sx_stmt(s, recorded=frozenset()):
    k = s["k"]
    if k == "blank":
        return "blank"
    if k == "comment":
        return "(comment %s)" % sx_str(s["text"])
    if k == "assign":
        rec = (not s["provide"]) and (not s["hidden"]) and s["sym"] in recorded
        return "(assign %s %s %s %s %s)" % (sx_bool(s["provide"]), sx_bool(s["hidden"]), sx_bool(rec),
                                            sx_str(s["sym"]), sx_expr(s["value"]))
    if k == "align":
        return "(align %s %d)" % (sx_str(s["sym"]), s["n"])
    if k == "max":
        return "(max %s %s)" % (sx_str(s["sym"]), sx_str(s["other"]))
    if k == "romadd":
        return "(romadd %s)" % sx_str(s["sec"])
    if k == "dotadd":
        return "(dotadd %d)" % s["n"]
    if k == "fill":
        return "(fill %d)" % s["n"]
    if k == "input":
        return "(input %s %s %s %s %s)" % (sx_bool(s["keep"]), sx_str(s["path"]), sx_opt(sx_str, s["member"]),
                                           sx_str(s["sect"]), sx_bool(s["wild"]))
    if k == "outsec":
        return "(outsec %s %s %s %s %s %s)" % (
            sx_str(s["name"]), sx_opt(sx_expr, s["addr"]), sx_opt(sx_str, s["at"]), sx_bool(s["noload"]),
            sx_opt(lambda n: str(n), s["subalign"]), sx_list(sx_stmt(x, recorded) for x in s["body"]))
    if k == "single_entry":
        return "(single %s)" % sx_str(s["sect"])
    if k == "discard":
        return "(discard %s %s)" % (sx_list(sx_str(p) for p in s["pats"]), sx_bool(s["wild"]))
    if k == "sections":
        return "(sections %s)" % sx_list(sx_stmt(x, recorded) for x in s["body"])
    if k == "entry":
        return "(entry %s)" % sx_str(s["sym"])
    if k == "extern":
        return "(extern %s)" % sx_str(s["sym"])
    if k == "assert":
        return "(assert %s %s)" % (sx_str(s["cond"]), sx_str(s["msg"]))
    raise ValueError(k)


def sx_universe(u):
    """u: ldlink.Universe -> list of usec in link order"""
    items = []
    for (path, member) in u.order:
        for s in u.objects[(path, member)]:
            items.append("(R %s %s %s %d %d %s %s)" % (sx_str(path), sx_opt(sx_str, member), sx_str(s["name"]),
                                                      s["size"], s["align"], sx_bool(s["nobits"]),
                                                      sx_str(s["marker"])))
    return sx_list(items)


def sx_link(cid, ast, universe, ext, recorded=frozenset()):
    return "(link %s %s %s %s)" % (cid, sx_list(sx_stmt(s, recorded) for s in ast), sx_universe(universe),
                                   sx_list("(P %s %d)" % (sx_str(k), v) for k, v in ext.items()))


# ---------- Gallina terms (cases.v: the vm_compute cross-check of the extracted program) ----------

def gq(s):
    if any(ord(c) < 32 or ord(c) > 126 for c in s):
        raise ValueError("non-printable")
    return '"' + s.replace('"', '""') + '"'


def g_list(items):
    return "[" + "; ".join(items) + "]"


def g_val(t, v):
    if t == "str":
        return gq(v)
    if t == "N":
        return "%d%%N" % int(v)
    if t == "Z":
        return "(%d)%%Z" % int(v)
    if t == "bool":
        return "true" if v else "false"
    if t == "kind":
        return {"object": "KObject", "archive": "KArchive", "pad": "KPad", "linker_offset": "KLinkerOffset",
                "group": "KGroup"}[v]
    if t == "style":
        return {"splat": "Splat", "makerom": "Makerom"}[v]
    if t == "smap":
        return g_list("(%s, %s)" % (gq(k), gq(x)) for k, x in v.items())
    if t == "pairs":
        return g_list("(%s, %s)" % (gq(k), gq(x)) for k, x in v)
    if t == "nmap":
        return g_list("(%s, %d%%N)" % (gq(k), x) for k, x in v.items())
    if t == "lmap":
        return g_list("(%s, %s)" % (gq(k), g_list(gq(y) for y in x)) for k, x in v.items())
    if isinstance(t, tuple) and t[0] in ("list", "!list"):
        if t[1] == "str":
            return g_list(gq(x) for x in v)
        return g_list(g_record(t[1], x) for x in v)
    if isinstance(t, tuple) and t[0] == "rec":
        return g_record(t[1], v)
    raise ValueError(t)


def g_an(t, rec, key):
    if key not in rec:
        return "Absent"
    if rec[key] is None:
        return "Null"
    return "(Value %s)" % g_val(t, rec[key])


CONSTRUCTORS = {"file": "FileSerial", "gp": "GpSerial", "segment": "SegmentSerial", "settings": "SettingsSerial",
                "class": "ClassSerial", "assign": "AssignSerial", "required": "RequiredSerial",
                "assert": "AssertSerial", "document": "DocumentSerial"}


def g_record(schema, rec):
    fields = [g_list(gq(k) for k in rec if k not in known_keys(schema))]
    for k, t in SCHEMAS[schema]:
        if k == "@conds":
            fields.append("(mkCondsSerial %s)" % " ".join(g_an("pairs", rec, c) for c in CONDS))
        elif t == "keep":
            if "keep_sections" not in rec:
                fields.append("SKAbsent")
            else:
                v = rec["keep_sections"]
                if isinstance(v, bool):
                    fields.append("(SKBool %s)" % ("true" if v else "false"))
                elif isinstance(v, list) and all(isinstance(x, str) for x in v):
                    fields.append("(SKList %s)" % g_list(gq(x) for x in v))
                else:
                    fields.append("SKInvalid")
        elif t == "!str":
            fields.append(g_an("str", rec, k))
        elif isinstance(t, tuple) and t[0].startswith("!"):
            fields.append("None" if rec.get(k) is None else "(Some %s)" % g_val(t, rec[k]))
        else:
            fields.append(g_an(t, rec, k))
    return "(%s %s)" % (CONSTRUCTORS[schema], " ".join(fields))


def g_case(n, doc, opts, emit_version, partial, expected):
    return ("Example xcheck_%d : String.eqb (run_case %s (Runtime %s %s) %s) %s = true.\n"
            "Proof. vm_compute. reflexivity. Qed.\n" %
            (n, g_record("document", doc), g_val("pairs", opts), "true" if emit_version else "false",
             "true" if partial else "false", gq(expected)))
