"""Per-property observable projections (obs_Cxx of DESIGN.md 2.5), generator profiles and non-triviality
rules.  A projection is a function of one side's JSON result (implementation or model) and the case; the
same function is applied to both sides."""
import re
from . import scriptparse as sp
from . import run


def _scripts(j):
    """-> list of (label, script text, writer json) for a successful generation, else []"""
    g = j.get("gen", {}).get("ok") if isinstance(j.get("gen"), dict) else None
    if not g:
        return []
    out = [("main", g["main"]["script"], g["main"])]
    for name, w in g.get("subs", []):
        out.append(("sub:" + name, w["script"], w))
    return out


def _asts(j):
    out = []
    for label, text, w in _scripts(j):
        try:
            out.append((label, sp.parse_script(text), w))
        except sp.ParseError as e:
            out.append((label, [{"k": "unparsed", "why": str(e), "text": text}], w))
    return out


def outcome(j):
    if run.is_crash(j):
        return ("crash", "")
    return run._outcome(j)


def _flat(ast):
    return [(s, ctx) for s, ctx in sp.walk(ast)]


def _pick(ast, pred):
    """filtered, flattened statement list: (context names, statement without its body)"""
    out = []
    for s, ctx in sp.walk(ast):
        if s["k"] == "unparsed" or pred(s, ctx):
            t = {k: v for k, v in s.items() if k != "body"}
            out.append([[c[-1] for c in ctx if c[0] == "outsec"], t])
    return out


def _is_dot_sym(s):
    return s["k"] == "assign" and s["value"] == "." and not s["provide"] and not s["hidden"]


def obs_placement(j, case, with_keep=False, with_pads=False, with_tail=False):
    res = []
    for label, ast, w in _asts(j):
        def pred(s, ctx):
            if s["k"] == "input":
                return True
            if s["k"] == "outsec":
                return True
            # the allow-list entries and the discard block belong to C18
            if with_tail and (s["k"] == "single_entry" or s["k"] == "discard"):
                return True
            if _is_dot_sym(s) and ctx and ctx[-1][0] == "outsec":
                return True
            if with_pads and s["k"] == "dotadd":
                return True
            return False
        items = _pick(ast, pred)
        if not with_keep:
            for _, t in items:
                t.pop("keep", None)
        for _, t in items:
            if t["k"] == "outsec":
                for f in ("addr", "at", "subalign", "noload"):
                    t.pop(f, None)
        res.append([label, items])
    return [outcome(j), res]


def obs_C01(j, case):
    return obs_placement(j, case)


def obs_C02(j, case):
    return obs_placement(j, case, with_pads=True)


def obs_C03(j, case):
    res = []
    for label, ast, w in _asts(j):
        def pred(s, ctx):
            if s["k"] == "outsec":
                return True
            if ctx and ctx[-1][0] == "outsec":
                return False
            if s["k"] == "align" and s["sym"] == ".":
                return True
            if s["k"] == "assign" and (s["sym"] == "." or s["value"] in (".",) or s["value"].startswith("ADDR(")):
                return True
            # where (relative to the segments) and how the start of a vram class is computed: members start there
            if s["k"] == "max" or (s["k"] == "assign" and re.search(r"VRAM_CLASS|VramClass", s["sym"])):
                return True
            return False
        items = _pick(ast, pred)
        for _, t in items:
            if t["k"] == "outsec":
                for f in ("at", "subalign", "noload"):
                    t.pop(f, None)
        res.append([label, items])
    return [outcome(j), res]


def obs_C04(j, case):
    res = []
    for label, ast, w in _asts(j):
        def pred(s, ctx):
            if s["k"] == "outsec" or s["k"] == "romadd":
                return True
            if s["k"] in ("align", "assign") and s["sym"] == "__romPos":
                return True
            if s["k"] == "assign" and "__romPos" in s["value"]:
                return True
            if s["k"] == "assign" and re.search(r"ROM|Rom", s["sym"]):
                return True
            return False
        items = _pick(ast, pred)
        for _, t in items:
            if t["k"] == "outsec":
                for f in ("addr", "subalign"):
                    t.pop(f, None)
        # which input sections each output section captures (pattern and wildcard flag, not the files): what
        # decides whether data meant for the NOLOAD part can end up in the loadable one
        pats = {}
        for ctx, t in _pick(ast, lambda s, c: s["k"] == "input"):
            pats.setdefault(ctx[-1] if ctx else "", set()).add((t["sect"], bool(t.get("wild"))))
        res.append([label, items, sorted((k, sorted(v)) for k, v in pats.items())])
    return [outcome(j), res]


def obs_C05(j, case):
    res = []
    for label, ast, w in _asts(j):
        syms = set(w.get("symbols", []))
        items = _pick(ast, lambda s, ctx: (s["k"] == "assign" and s["sym"] in syms) or s["k"] == "outsec"
                      or s["k"] == "input")
        for _, t in items:
            if t["k"] == "outsec":
                for f in ("addr", "at", "subalign", "noload"):
                    t.pop(f, None)
            if t["k"] == "input":
                t.pop("keep", None)
        res.append([label, items, w.get("symbols")])
    return [outcome(j), res]


def obs_all(j, case):
    """every output, blank lines stripped"""
    res = []
    for label, text, w in _scripts(j):
        res.append([label, [l for l in text.split("\n") if l != ""], w.get("paths"), w.get("symbols"),
                    w.get("header"), w.get("deps")])
    g = j.get("gen", {}).get("ok") if isinstance(j.get("gen"), dict) else None
    files = None
    if g and "files" in g and case.files:
        files = g["files"]
        if isinstance(files, dict) and isinstance(files.get("ok"), list):
            import os
            d = {}
            for p, c in files["ok"]:
                d[os.path.normpath(p)] = c          # a later write to the same path replaces the earlier one
            files = sorted(d.items())
    return [outcome(j), res, files]


def obs_C06(j, case):
    """what was emitted, entry by entry - not how it is spelled: per script the statements that stem from a
    conditional entry (segment = output sections, file = input statements / pads / offsets, gp_info and symbol
    assignments = assigned names with their wrapping, required symbols, asserts, entry), the dependency paths and
    the declared header names"""
    res = []
    for label, ast, w in _asts(j):
        items = []
        for s_, ctx in sp.walk(ast):
            k = s_["k"]
            if k == "unparsed":
                items.append(["unparsed", s_.get("text")])
            elif k == "outsec":
                items.append(["outsec", s_["name"]])
            elif k == "input":
                items.append(["input", s_["path"], s_.get("member"), s_["sect"]])
            elif k == "assign":
                items.append(["assign", s_["sym"], s_.get("provide"), s_.get("hidden"),
                              s_["value"] if not (ctx and ctx[-1][0] == "outsec") else None])
            elif k in ("extern", "assert", "entry", "dotadd"):
                items.append([k] + [s_[x] for x in sorted(s_) if x != "k"])
        res.append([label, items, w.get("paths"), w.get("symbols")])
    return [outcome(j), res]


def obs_C07(j, case):
    res = []
    for label, ast, w in _asts(j):
        paths = [[t["path"], t.get("member")] for _, t in _pick(ast, lambda s, c: s["k"] == "input")]
        res.append([label, paths, w.get("paths"), w.get("deps")])
    g = j.get("gen", {}).get("ok") if isinstance(j.get("gen"), dict) else None
    files = None
    if g and "files" in g and case.files:
        f = g["files"]
        if isinstance(f, dict) and "ok" in f:
            ok = f["ok"]
            import os
            # every written path, and the content of the dependency files (their targets are emitted paths too)
            files = sorted((os.path.normpath(p), c if p.endswith(".d") else None) for p, c in ok)
        else:
            files = f
    return [outcome(j), res, files]


def obs_doc(j, case):
    p = j.get("parse", {})
    return [outcome(j)[0] != "parse" and "accepted" or outcome(j), p.get("ok")]


OVERRIDABLE = ("alloc_sections", "noload_sections", "subalign", "segment_start_align", "segment_end_align",
               "section_start_align", "section_end_align", "sections_start_alignment", "sections_end_alignment",
               "wildcard_sections", "fill_value", "sections_subgroups")


def obs_C08(j, case):
    res = []
    for label, ast, w in _asts(j):
        items = _pick(ast, lambda s, c: s["k"] in ("outsec", "align", "fill", "input"))
        for _, t in items:
            if t["k"] == "input":
                t.pop("keep", None)
                t.pop("path", None)
                t.pop("member", None)
        res.append([label, items])
    p = j.get("parse", {})
    doc = p.get("ok")
    if isinstance(doc, dict):
        # the resolved settings (defaults) and, per segment, the twelve overridable options - not the files, the
        # conditions, keep_sections, classes or top-level entries, which other properties own
        doc = {"settings": doc.get("settings"),
               "segments": [{k: sg.get(k) for k in ("name",) + OVERRIDABLE} for sg in doc.get("segments", [])]}
    return [outcome(j), doc, res]


def obs_C09(j, case):
    res = []
    for label, ast, w in _asts(j):
        def pred(s, ctx):
            return s["k"] in ("align", "outsec") or _is_dot_sym(s)
        items = _pick(ast, pred)
        for _, t in items:
            if t["k"] == "outsec":
                for f in ("addr", "at", "noload"):
                    t.pop(f, None)
        res.append([label, items])
    return [outcome(j), res]


def obs_C10(j, case):
    res = []
    for label, ast, w in _asts(j):
        def pred(s, ctx):
            if s["k"] == "outsec":
                return True
            if s["k"] in ("assign", "max") and re.search(r"VRAM_CLASS|VramClass", s["sym"] + " " + s.get("value", "")
                                                        + " " + s.get("other", "")):
                return True
            return False
        items = _pick(ast, pred)
        for _, t in items:
            if t["k"] == "outsec":
                for f in ("at", "subalign", "noload"):
                    t.pop(f, None)
        res.append([label, items])
    return [outcome(j), res]


def obs_C11(j, case):
    if not case.partial:
        return obs_placement(j, case, with_keep=False, with_pads=True)      # nothing of C11 to compare: placement only
    res = []
    for label, ast, w in _asts(j):
        if label == "main":
            items = _pick(ast, lambda s, c: s["k"] != "blank")
        else:
            items = _pick(ast, lambda s, c: s["k"] in ("input", "dotadd", "outsec") or _is_dot_sym(s))
        res.append([label, items])
    return [outcome(j), res]


def obs_C12(j, case):
    res = []
    for label, ast, w in _asts(j):
        paths = [t["path"] for _, t in _pick(ast, lambda s, c: s["k"] == "input")]
        res.append([label, paths, w.get("paths"), w.get("deps")])
    g = j.get("gen", {}).get("ok") if isinstance(j.get("gen"), dict) else None
    files = None
    if g and "files" in g and case.files:
        f = g["files"]
        if isinstance(f, dict) and "ok" in f:
            import os
            files = sorted((os.path.normpath(p), c) for p, c in f["ok"] if p.endswith(".d"))
        else:
            files = f
    return [outcome(j), res, files]


def obs_C13(j, case):
    res = []
    for label, ast, w in _asts(j):
        # the header, the recorded names, and the names the script assigns (what "declared == defined" compares)
        assigned = sorted(set(s["sym"] for s, _ in sp.walk(ast) if s["k"] == "assign"))
        res.append([label, w.get("symbols"), w.get("header"), assigned])
    return [outcome(j), res]


def obs_C14(j, case):
    res = []
    for label, ast, w in _asts(j):
        res.append([label, [[t["path"], t.get("member"), t["sect"], t["keep"]]
                            for _, t in _pick(ast, lambda s, c: s["k"] == "input")]])
    return [outcome(j), res]


def obs_C16(j, case):
    o = outcome(j)
    p = j.get("parse", {})
    # accepted or rejected, and why: the parsed document itself belongs to the properties that read it
    if o[0] == "parse":
        return [o]
    return [("accepted", "")]


def obs_C17(j, case):
    res = []
    for label, ast, w in _asts(j):
        top = [s for s in ast if s["k"] not in ("sections", "blank", "comment")]
        gp = _pick(ast, lambda s, c: s["k"] == "assign" and s["sym"] == "_gp")
        # position of _gp: the symbol assigned right after it inside the same block
        ctxs = []
        flat = _flat(ast)
        for i, (s, ctx) in enumerate(flat):
            if s["k"] == "assign" and s["sym"] == "_gp":
                nxt = None
                for s2, ctx2 in flat[i + 1:]:
                    if s2["k"] == "assign":
                        nxt = s2["sym"]
                        break
                prev = [s2["k"] for s2, _ in flat[max(0, i - 2):i]]
                ctxs.append([nxt, prev])
        res.append([label, top, gp, ctxs])
    return [outcome(j), res]


def obs_C18(j, case):
    res = []
    for label, ast, w in _asts(j):
        body = sp.sections_body(ast) or []
        body = [s for s in body if s["k"] != "blank"]
        tail = []
        for s in reversed(body):
            if s["k"] in ("single_entry", "discard"):
                tail.append(s)
            else:
                break
        tail.reverse()
        stray = [s for s in body[:len(body) - len(tail)] if s["k"] in ("single_entry", "discard")]
        res.append([label, tail, stray])
    return [outcome(j), res]


def obs_C19(j, case):
    o = outcome(j)
    # crash or not is what the property is about (which error, and whether one is due, belongs to C16/C07/...)
    return ["crash" if o[0] == "crash" else "no-crash"]


OBS = {"C01": obs_C01, "C02": obs_C02, "C03": obs_C03, "C04": obs_C04, "C05": obs_C05, "C06": obs_C06,
       "C07": obs_C07, "C08": obs_C08, "C09": obs_C09, "C10": obs_C10, "C11": obs_C11, "C12": obs_C12,
       "C13": obs_C13, "C14": obs_C14, "C15": obs_all, "C16": obs_C16, "C17": obs_C17, "C18": obs_C18,
       "C19": obs_C19, "C20": obs_all}

# generator profiles: bias towards the feature the property talks about
PROFILES = {
    "C01": {"section_order": 0.5, "subgroups": 0.5, "group": 0.35, "custom_lists": 0.5, "missing_key": 0.0, "paths": 0.1},
    "C02": {"section_order": 0.5, "subgroups": 0.4, "group": 0.4, "custom_lists": 0.4, "missing_key": 0.0, "paths": 0.1},
    "C03": {"classes": 0.6, "align": 0.5, "override": 0.5, "settings": 0.45, "missing_key": 0.0, "paths": 0.05, "max_files": 2},
    "C04": {"align": 0.6, "override": 0.5, "settings": 0.45, "partial": 0.4, "missing_key": 0.0, "paths": 0.05, "max_files": 2, "cond": 0.3},
    "C05": {"makerom": 0.5, "custom_lists": 0.5, "classes": 0.5, "subgroups": 0.4, "missing_key": 0.0, "paths": 0.05},
    "C06": {"cond": 0.6, "missing_key": 0.0, "paths": 0.1, "toplevel": 0.7, "gp": 0.4},
    "C07": {"paths": 0.9, "missing_key": 0.25, "group": 0.4, "dpath": 0.7, "header": 0.5, "partial": 0.5, "cond": 0.1},
    "C08": {"cross_pool": 0.4, "override": 0.8, "settings": 0.8, "align": 0.5, "custom_lists": 0.5, "subgroups": 0.4, "missing_key": 0.0, "paths": 0.05},
    "C09": {"override": 0.8, "settings": 0.6, "align": 0.7, "missing_key": 0.0, "paths": 0.05, "max_files": 2},
    "C10": {"classes": 0.9, "missing_key": 0.0, "paths": 0.05, "max_files": 2, "cond": 0.35},
    "C11": {"partial": 1.0, "single": 0.0, "cond": 0.4, "missing_key": 0.0, "paths": 0.2, "section_order": 0.3, "subgroups": 0.4, "group": 0.35},
    "C12": {"dpath": 1.0, "partial": 0.5, "paths": 0.3, "missing_key": 0.0, "group": 0.35, "cond": 0.3},
    "C13": {"header": 0.9, "makerom": 0.5, "classes": 0.5, "missing_key": 0.0, "paths": 0.05, "toplevel": 0.6, "gp": 0.4},
    "C14": {"keep": 0.35, "class_keep": 0.7, "addr_class": 0.6, "group": 0.5, "classes": 0.8, "max_depth": 4, "missing_key": 0.0, "paths": 0.05, "section_order": 0.3, "subgroups": 0.3},
    "C15": {"section_order": 0.6, "subgroups": 0.4, "dup_opts": 0.5, "missing_key": 0.0},
    "C16": {},
    "C17": {"toplevel": 0.9, "gp": 0.6, "cond": 0.4, "missing_key": 0.0, "paths": 0.05, "single": 0.25},
    "C18": {"tail": 0.9, "single": 0.3, "partial": 0.5, "custom_lists": 0.5, "missing_key": 0.0, "paths": 0.05},
    "C19": {"tail": 0.6, "single": 0.2},
    "C20": {"dpath": 0.6, "header": 0.5, "partial": 0.5, "dup_opts": 0.5, "eq_vals": 0.5, "paths": 0.6, "cond": 0.4, "missing_key": 0.12},
}
