"""Run the implementation (Rust harness) and the model (extracted OCaml driver) on the same cases."""
import json, os, subprocess, shutil, tempfile, time, signal, resource
from concurrent.futures import ThreadPoolExecutor
from . import enc

VERIF = os.path.dirname(os.path.dirname(os.path.abspath(__file__)))
BUILD = os.path.join(VERIF, "build")
HARNESS = os.path.join(BUILD, "target", "release", "slinky-verif-harness")
DRIVER = os.path.join(BUILD, "driver")
NPROC = int(os.environ.get("VERIF_JOBS", "16"))


class Case:
    __slots__ = ("cid", "doc", "opts", "emit_version", "partial", "files", "meta", "raw_yaml")

    def __init__(self, cid, doc, opts=(), emit_version=False, partial=False, files=False, meta=None,
                 raw_yaml=None):
        self.cid = cid
        self.doc = doc
        self.opts = [tuple(o) for o in opts]
        self.emit_version = emit_version
        self.partial = partial
        self.files = files
        self.meta = meta or {}
        self.raw_yaml = raw_yaml      # bytes: hostile input, no model side

    def to_json(self):
        return {"id": self.cid, "doc": self.doc, "opts": [list(o) for o in self.opts],
                "emit_version": self.emit_version, "partial": self.partial, "files": self.files,
                "meta": self.meta,
                "raw_yaml_hex": self.raw_yaml.hex() if self.raw_yaml is not None else None}

    @staticmethod
    def from_json(j):
        return Case(j["id"], j["doc"], j.get("opts", []), j.get("emit_version", False),
                    j.get("partial", False), j.get("files", False), j.get("meta"),
                    bytes.fromhex(j["raw_yaml_hex"]) if j.get("raw_yaml_hex") else None)


def _big_stack():
    # the extracted model recurses over long Coq strings (not tail recursive)
    try:
        soft, hard = resource.getrlimit(resource.RLIMIT_STACK)
        resource.setrlimit(resource.RLIMIT_STACK, (hard, hard))
    except Exception:
        pass


def _chunks(l, n):
    k = max(1, (len(l) + n - 1) // n)
    return [l[i:i + k] for i in range(0, len(l), k)]


def _run_harness_shard(cases, workdir, shard, timeout_per_case=5.0, env=None):
    """Supervised run: an abort (stack overflow, SIGABRT) or a hang is attributed to the case that was
    announced last, and the run resumes after it."""
    results = {}
    os.makedirs(workdir, exist_ok=True)
    paths = {}
    for c in cases:
        p = os.path.join(workdir, "%s.yaml" % c.cid)
        with open(p, "wb") as f:
            f.write(c.raw_yaml if c.raw_yaml is not None else enc.to_yaml(c.doc).encode("utf-8"))
        paths[c.cid] = p
    todo = list(cases)
    attempt = 0
    while todo:
        attempt += 1
        tsv = os.path.join(workdir, "cases_%d_%d.tsv" % (shard, attempt))
        with open(tsv, "w") as f:
            for c in todo:
                f.write("\t".join([c.cid, paths[c.cid], "1" if c.partial else "0",
                                   "1" if c.emit_version else "0", "1" if c.files else "0",
                                   enc.hexopts(c.opts)]) + "\n")
        scratch = os.path.join(workdir, "scratch_%d" % shard)
        proc = subprocess.Popen([HARNESS, tsv, scratch], stdout=subprocess.PIPE, stderr=subprocess.DEVNULL,
                                env=(dict(os.environ, **env) if env else None))
        try:
            out, _ = proc.communicate(timeout=30 + timeout_per_case * len(todo))
            timed_out = False
        except subprocess.TimeoutExpired:
            proc.kill()
            out, _ = proc.communicate()
            timed_out = True
        current = None
        done = set()
        for line in out.decode("utf-8", "replace").split("\n"):
            if not line:
                continue
            k, _, v = line.partition("\t")
            if k == "BEGIN":
                current = v
            else:
                try:
                    results[k] = json.loads(v)
                except Exception as e:           # truncated line of a dying process
                    continue
                done.add(k)
        rc = proc.returncode
        if rc == 0 and not timed_out:
            for c in todo:
                if c.cid not in done:
                    results[c.cid] = {"crash": "missing result"}
            break
        # abnormal end: blame the announced case
        if current is not None and current not in done:
            results[current] = {"crash": "timeout" if timed_out else "exit status %s" % rc}
            done.add(current)
        elif current is None and not done:
            for c in todo:
                results[c.cid] = {"crash": "harness died before the first case (status %s)" % rc}
            break
        todo = [c for c in todo if c.cid not in done]
        shutil.rmtree(scratch, ignore_errors=True)
    return results


def _run_driver_shard(cases, workdir, shard):
    results = {}
    lines = []
    for c in cases:
        if c.raw_yaml is not None:
            continue
        lines.append(enc.sx_case(c.cid, c.doc, c.opts, c.emit_version, c.partial))
    if not lines:
        return results
    inp = ("\n".join(lines) + "\n").encode("utf-8")
    proc = subprocess.run([DRIVER], input=inp, stdout=subprocess.PIPE, stderr=subprocess.PIPE,
                          timeout=3000, preexec_fn=_big_stack, env=dict(os.environ, OCAMLRUNPARAM="s=16M"))
    if proc.returncode != 0:
        raise RuntimeError("model driver failed: %s" % proc.stderr.decode()[-2000:])
    for line in proc.stdout.decode("utf-8", "replace").split("\n"):
        if not line:
            continue
        k, _, v = line.partition("\t")
        results[k] = json.loads(v)
        if len(LAST_MODEL_RAW) < 400:
            LAST_MODEL_RAW[k] = v
    return results


LAST_MODEL_RAW = {}


def run_cases(cases, keep_workdir=False):
    """-> (impl: id -> json, model: id -> json)"""
    workdir = tempfile.mkdtemp(prefix="run_", dir=os.path.join(BUILD, "scratch"))
    try:
        shards = _chunks(cases, NPROC)
        impl, model = {}, {}
        with ThreadPoolExecutor(max_workers=NPROC * 2) as ex:
            fi = [ex.submit(_run_harness_shard, s, os.path.join(workdir, "h%d" % i), i)
                  for i, s in enumerate(shards)]
            fm = [ex.submit(_run_driver_shard, s, workdir, i) for i, s in enumerate(shards)]
            for f in fi:
                impl.update(f.result())
            for f in fm:
                model.update(f.result())
        return impl, model
    finally:
        if not keep_workdir:
            shutil.rmtree(workdir, ignore_errors=True)


def run_cli_model(cli_cases):
    """cli_cases: list of (cid, doc, output, partial, raw_opts, omit) -> id -> json"""
    lines = [enc.sx_cli(*c) for c in cli_cases]
    if not lines:
        return {}
    proc = subprocess.run([DRIVER], input=("\n".join(lines) + "\n").encode("utf-8"),
                          stdout=subprocess.PIPE, stderr=subprocess.PIPE, timeout=3000,
                          preexec_fn=_big_stack, env=dict(os.environ, OCAMLRUNPARAM="s=16M"))
    if proc.returncode != 0:
        raise RuntimeError("model driver failed: %s" % proc.stderr.decode()[-2000:])
    res = {}
    for line in proc.stdout.decode("utf-8", "replace").split("\n"):
        if line:
            k, _, v = line.partition("\t")
            res[k] = json.loads(v)
    return res


# ---------- normalisation and comparison ----------

def _norm_keep(v):
    if isinstance(v, list):
        return sorted(set(v))
    return v


def os_oracle(f):
    """The operating-system half of the file exports, which the Coq model does not carry (a `write` is a pair
    (path, text)): the model's list of writes is replayed on a virtual empty directory and refused where the
    OS refuses - an empty path (or one that names a directory: ".", "a/"), a path below something written as
    a file, or a file where a directory was made.  A refusal is the outcome class "OS"; so is the
    implementation's FailedFileOpen / FailedDirCreate."""
    if not isinstance(f, dict):
        return f
    if isinstance(f.get("err"), str) and (f["err"].startswith("OTHER(Unable to open file")
                                          or f["err"].startswith("OTHER(Unable to create dir")):
        return {"err": "OS"}
    if not isinstance(f.get("ok"), list):
        return f
    files, dirs = set(), set()
    for w in f["ok"]:
        if not (isinstance(w, list) and len(w) == 2 and isinstance(w[0], str)):
            return f
        raw = w[0]
        p = os.path.normpath(raw) if raw != "" else ""
        if p in ("", ".") or raw.endswith("/") or p in dirs:
            return {"err": "OS"}
        parts = p.split("/")
        for i in range(1, len(parts)):
            d = "/".join(parts[:i])
            if d in files:
                return {"err": "OS"}
            dirs.add(d)
        files.add(p)
    return f


def normalise(j):
    """Canonicalise what is unordered in the implementation (HashSet of keep_sections); the outcome of the
    file exports goes through the OS oracle."""
    if isinstance(j, dict):
        return {k: (_norm_keep(v) if k == "keep_sections" else os_oracle(normalise(v)) if k == "files"
                    else normalise(v)) for k, v in j.items()}
    if isinstance(j, list):
        return [normalise(x) for x in j]
    return j


def is_crash(j):
    """the outcome class 'crash' of either side"""
    if not isinstance(j, dict):
        return False
    if "crash" in j:
        return True
    for phase in ("parse", "gen"):
        e = j.get(phase, {}).get("err") if isinstance(j.get(phase), dict) else None
        if isinstance(e, str) and e.startswith("CRASH("):
            return True
    return False


def diff_paths(a, b, path=""):
    """list of JSON paths where a and b differ (shallow description)"""
    out = []
    if type(a) != type(b):
        return [path or "/"]
    if isinstance(a, dict):
        for k in sorted(set(a) | set(b)):
            if k not in a or k not in b:
                out.append(path + "/" + k)
            else:
                out.extend(diff_paths(a[k], b[k], path + "/" + k))
    elif isinstance(a, list):
        if len(a) != len(b):
            out.append(path + "[len %d vs %d]" % (len(a), len(b)))
        else:
            for i, (x, y) in enumerate(zip(a, b)):
                out.extend(diff_paths(x, y, "%s[%d]" % (path, i)))
    elif a != b:
        out.append(path)
    return out


# ---------- per-area comparison of one case ----------

def _files_dict_model(f):
    if not isinstance(f, dict) or "ok" not in f:
        return f
    d = {}
    for p, c in f["ok"]:
        d[os.path.normpath(p)] = c
    return {"ok": d}


def _files_dict_impl(f):
    if not isinstance(f, dict) or "ok" not in f:
        return f
    return {"ok": {os.path.normpath(p): c for p, c in f["ok"]}}


def areas(case, impl, model):
    """-> dict area -> (impl value, model value) for every area on which the two sides differ.
    Areas: outcome (ok / error tag / crash at parse and gen), doc, script, subs, joined, paths, symbols,
    header, deps, files."""
    out = {}
    impl = normalise(impl)
    model = normalise(model)
    ic, mc = is_crash(impl), is_crash(model)
    if ic or mc:
        if not (ic and mc):
            out["outcome"] = (impl if ic else _outcome(impl), model if mc else _outcome(model))
        return out
    io, mo = _outcome(impl), _outcome(model)
    if io != mo:
        out["outcome"] = (io, mo)
        return out
    ip, mp = impl.get("parse", {}), model.get("parse", {})
    if "ok" in ip and ip["ok"] != mp.get("ok"):
        out["doc"] = (ip["ok"], mp.get("ok"))
    ig, mg = impl.get("gen", {}).get("ok"), model.get("gen", {}).get("ok")
    if ig is None or mg is None:
        return out
    def cmp_writer(prefix, a, b):
        for k in ("script", "paths", "symbols", "header", "deps"):
            if a.get(k) != b.get(k):
                out[prefix + k] = (a.get(k), b.get(k))
    cmp_writer("", ig["main"], mg["main"])
    if "subs" in ig or "subs" in mg:
        isubs, msubs = ig.get("subs", []), mg.get("subs", [])
        if [s[0] for s in isubs] != [s[0] for s in msubs]:
            out["subs"] = ([s[0] for s in isubs], [s[0] for s in msubs])
        else:
            for (n, a), (_, b) in zip(isubs, msubs):
                cmp_writer("sub:", a, b)
        if ig.get("joined") != mg.get("joined"):
            out["joined"] = (ig.get("joined"), mg.get("joined"))
    if "files" in ig:
        a, b = _files_dict_impl(ig["files"]), _files_dict_model(mg.get("files"))
        if a != b:
            out["files"] = (a, b)
    return out


def _outcome(j):
    p = j.get("parse", {})
    if "err" in p:
        return ("parse", p["err"])
    g = j.get("gen", {})
    if "err" in g:
        return ("gen", g["err"])
    return ("ok", "")


def run_link_model(lines):
    """lines: list of '(link id ...)' s-expressions -> id -> layout json"""
    if not lines:
        return {}
    res = {}
    def one(chunk):
        proc = subprocess.run([DRIVER], input=("\n".join(chunk) + "\n").encode("utf-8"),
                              stdout=subprocess.PIPE, stderr=subprocess.PIPE, timeout=3000,
                              preexec_fn=_big_stack, env=dict(os.environ, OCAMLRUNPARAM="s=16M"))
        if proc.returncode != 0:
            raise RuntimeError("model driver failed: %s" % proc.stderr.decode()[-2000:])
        out = {}
        for line in proc.stdout.decode("utf-8", "replace").split("\n"):
            if line:
                k, _, v = line.partition("\t")
                out[k] = json.loads(v)
        return out
    with ThreadPoolExecutor(max_workers=NPROC) as ex:
        for r in ex.map(one, _chunks(lines, NPROC)):
            res.update(r)
    return res


DRIVER_SPEC = os.path.join(BUILD, "driver_spec")


def run_valid_spec(cases):
    """extracted Coq `valid` (Spec/C16.v) on each serial document -> id -> {"valid":..., "known":...}"""
    if not os.path.exists(DRIVER_SPEC):
        return None
    lines = ["(valid %s %s)" % (c.cid, enc.sx_record("document", c.doc)) for c in cases if c.raw_yaml is None]
    if not lines:
        return {}
    res = {}
    def one(chunk):
        proc = subprocess.run([DRIVER_SPEC], input=("\n".join(chunk) + "\n").encode("utf-8"),
                              stdout=subprocess.PIPE, stderr=subprocess.PIPE, timeout=3000,
                              preexec_fn=_big_stack, env=dict(os.environ, OCAMLRUNPARAM="s=16M"))
        if proc.returncode != 0:
            raise RuntimeError("spec driver failed: %s" % proc.stderr.decode()[-2000:])
        out = {}
        for line in proc.stdout.decode("utf-8", "replace").split("\n"):
            if line:
                k, _, v = line.partition("\t")
                out[k] = json.loads(v)
        return out
    with ThreadPoolExecutor(max_workers=NPROC) as ex:
        for r in ex.map(one, _chunks(lines, NPROC)):
            res.update(r)
    return res


def run_header_spec(items, what="header"):
    """Spec/C13Doc.v doc_header_symbols* / Spec/DocWf.v doc_symbols* (extracted) -> id -> list of names, or None when the
    model's parser rejects"""
    if not os.path.exists(DRIVER_SPEC):
        return None
    if what == "header":
        lines = ["(header %s %s %s %s)" % (cid, enc.sx_record("document", doc), enc.sx_runtime(opts, ev), "T" if partial else "F")
                 for cid, doc, opts, ev, partial in items]
    else:
        lines = ["(symbols %s %s %s)" % (cid, enc.sx_record("document", doc), enc.sx_runtime(opts, ev))
                 for cid, doc, opts, ev, partial in items]
    if not lines:
        return {}
    res = {}
    def one(chunk):
        proc = subprocess.run([DRIVER_SPEC], input=("\n".join(chunk) + "\n").encode("utf-8"),
                              stdout=subprocess.PIPE, stderr=subprocess.PIPE, timeout=3000,
                              preexec_fn=_big_stack, env=dict(os.environ, OCAMLRUNPARAM="s=16M"))
        if proc.returncode != 0:
            raise RuntimeError("spec driver failed: %s" % proc.stderr.decode()[-2000:])
        out = {}
        for line in proc.stdout.decode("utf-8", "replace").split("\n"):
            if line:
                k, _, v = line.partition("\t")
                out[k] = json.loads(v)
        return out
    with ThreadPoolExecutor(max_workers=NPROC) as ex:
        for r in ex.map(one, _chunks(lines, NPROC)):
            res.update(r)
    return res


def run_grammar_spec(items):
    """extracted grammar reader (Spec/C19Grammar.v: wf_lines, doc_names_valid) on script texts the REAL tool produced.
    items: (id, doc, opts, emit_version, partial, [script text, ...]) -> id -> {"names_valid":..., "accepted":[...]}"""
    if not os.path.exists(DRIVER_SPEC):
        return None
    lines = ["(grammar %s %s %s %s (%s))" % (cid, enc.sx_record("document", doc), enc.sx_runtime(opts, ev),
                                             "T" if partial else "F", " ".join(enc.sx_str(t) for t in texts))
             for cid, doc, opts, ev, partial, texts in items]
    if not lines:
        return {}
    res = {}
    def one(chunk):
        proc = subprocess.run([DRIVER_SPEC], input=("\n".join(chunk) + "\n").encode("utf-8"),
                              stdout=subprocess.PIPE, stderr=subprocess.PIPE, timeout=3000,
                              preexec_fn=_big_stack, env=dict(os.environ, OCAMLRUNPARAM="s=16M"))
        if proc.returncode != 0:
            raise RuntimeError("spec driver failed: %s" % proc.stderr.decode()[-2000:])
        out = {}
        for line in proc.stdout.decode("utf-8", "replace").split("\n"):
            if line:
                k, _, v = line.partition("\t")
                out[k] = json.loads(v)
        return out
    with ThreadPoolExecutor(max_workers=NPROC) as ex:
        for r in ex.map(one, _chunks(lines, NPROC)):
            res.update(r)
    return res


def run_impl_only(cases, env=None):
    """implementation only (metamorphic companions); env: extra environment of the harness process"""
    workdir = tempfile.mkdtemp(prefix="runi_", dir=os.path.join(BUILD, "scratch"))
    try:
        shards = _chunks(cases, NPROC)
        impl = {}
        with ThreadPoolExecutor(max_workers=NPROC) as ex:
            fi = [ex.submit(_run_harness_shard, s, os.path.join(workdir, "h%d" % i), i, 5.0, env)
                  for i, s in enumerate(shards)]
            for f in fi:
                impl.update(f.result())
        return impl
    finally:
        shutil.rmtree(workdir, ignore_errors=True)
