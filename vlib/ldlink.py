"""Link generated scripts with the real GNU ld (and ask ld.lld for acceptance): object universes, assembling,
archives, linking, and reading the image back (nm, objdump -h)."""
import os, re, subprocess, shutil, random, hashlib
from . import scriptparse as sp

DEFSYMS = {"sym_a": 0x80100000, "entrypoint": 0x80000400, "_start": 0x80000400, "Vine1Base": 0x80300000,
           "gFoo": 0x80100100, "D_80000000": 0x80000000, "bar": 0x1000}


def _run(cmd, cwd, timeout=60):
    p = subprocess.run(cmd, cwd=cwd, stdout=subprocess.PIPE, stderr=subprocess.STDOUT, text=True,
                       timeout=timeout, errors="replace")
    return p.returncode, p.stdout


def inputs_of(ast):
    out = []
    for s, ctx in sp.walk(ast):
        if s["k"] == "input":
            outsec = [c[1] for c in ctx if c[0] == "outsec"]
            out.append((s["path"], s["member"], s["sect"], s["wild"], outsec[-1] if outsec else None))
    return out


def safe_path(p):
    return p and not p.startswith("/") and ".." not in p.split("/") and all(c not in p for c in " \t*?[]\"'$\\;(){}")


class Universe:
    """objects: key (path, member) -> list of input sections {name, size, align, nobits, marker}"""

    def __init__(self):
        self.objects = {}
        self.order = []

    def obj(self, path, member):
        k = (path, member)
        if k not in self.objects:
            self.objects[k] = []
            self.order.append(k)
        return self.objects[k]

    def to_json(self):
        return [{"path": k[0], "member": k[1], "sections": self.objects[k]} for k in self.order]


def _mark(n):
    return "MK%d" % n


def build_universe(rnd, asts, extra_names=(), allow_suffix=True):
    """one object per (path, member) named by the scripts; for every section an input statement names,
    1-2 input sections (the exact name, and with a wildcard a suffixed variant) of random size/alignment;
    plus extra sections that no segment lists."""
    u = Universe()
    n = [0]
    seen = set()
    for ast in asts:
        for path, member, sect, wild, outsec in inputs_of(ast):
            if member == "*" or member is None and path.endswith(".a"):
                mem = "m1.o" if member == "*" else None
            else:
                mem = member
            o = u.obj(path, mem)
            names = [sect]
            if wild and allow_suffix and rnd.random() < 0.4 and sect not in ("COMMON",):
                names.append(sect + ".x1")
            for nm in names:
                if (path, mem, nm) in seen:
                    continue
                seen.add((path, mem, nm))
                if rnd.random() < 0.15:
                    continue             # this object simply has no such section
                n[0] += 1
                nobits = (outsec or "").endswith(".noload") or nm in (".bss", ".sbss", "COMMON", ".scommon") \
                    if rnd.random() < 0.8 else rnd.random() < 0.5
                o.append({"name": nm, "size": rnd.choice(([] if nm == "COMMON" else [0]) + [1, 3, 4, 8, 12, 16, 24, 40, 64]),
                          "align": rnd.choice([1, 1, 2, 4, 4, 8, 16, 32]), "nobits": bool(nobits),
                          "marker": _mark(n[0])})
    for k in list(u.order):
        for nm in extra_names:
            if rnd.random() < 0.5:
                n[0] += 1
                u.objects[k].append({"name": nm, "size": rnd.choice([4, 8, 16]), "align": rnd.choice([1, 4, 8]),
                                     "nobits": False, "marker": _mark(n[0])})
    # every object the assembler writes has .text, .data and .bss first (empty when unused): they take part
    # in the layout (alignment under SUBALIGN) even when empty
    for k in u.order:
        secs = u.objects[k]
        first = []
        for nm in (".text", ".data", ".bss"):
            got = [s for s in secs if s["name"] == nm]
            if got:
                first.append(got[0])
            else:
                first.append({"name": nm, "size": 0, "align": 1, "nobits": nm == ".bss", "marker": ""})
        u.objects[k] = first + [s for s in secs if s["name"] not in (".text", ".data", ".bss")]
    return u


def _asm(sections):
    lines = []
    for s in sections:
        if not s["marker"]:
            continue
        if s["name"] == "COMMON":
            lines.append(".comm %s,%d,%d" % (s["marker"], s["size"], s["align"]))
            continue
        flags = "aw"
        lines.append('.section "%s","%s",%s' % (s["name"], flags, "@nobits" if s["nobits"] else "@progbits"))
        lines.append(".balign %d" % s["align"])
        lines.append(".globl %s" % s["marker"])
        lines.append("%s:" % s["marker"])
        if s["size"]:
            lines.append(".space %d" % s["size"])
    return "\n".join(lines) + "\n"


def materialise(u, root):
    """write and assemble every object; build archives; -> (ok, log, archives)"""
    archives = {}
    log = []
    for i, k in enumerate(u.order):
        path, member = k
        src = os.path.join(root, "_o%d.s" % i)
        with open(src, "w") as f:
            f.write(_asm(u.objects[k]))
        if member is None:
            dst = os.path.join(root, path)
            os.makedirs(os.path.dirname(dst) or root, exist_ok=True)
            rc, out = _run(["as", "--32", "-o", dst, src], root)
        else:
            mdir = os.path.join(root, "_members", "%d" % i)
            os.makedirs(mdir, exist_ok=True)
            mobj = os.path.join(mdir, os.path.basename(member))
            rc, out = _run(["as", "--32", "-o", mobj, src], root)
            archives.setdefault(path, []).append(mobj)
        if rc != 0:
            log.append(out)
            return False, "\n".join(log), archives
    for a, members in archives.items():
        dst = os.path.join(root, a)
        os.makedirs(os.path.dirname(dst) or root, exist_ok=True)
        rc, out = _run(["ar", "rcs", dst] + members, root)
        if rc != 0:
            return False, out, archives
    return True, "", archives


def read_image(root, elf="out.elf"):
    rc, out = _run(["nm", elf], root)
    syms = {}
    for line in out.split("\n"):
        m = re.fullmatch(r"([0-9a-f]+) (\S) (\S+)", line.strip())
        if m:
            syms[m.group(3)] = int(m.group(1), 16)
    # sections from the section headers, load addresses from the program headers (objdump -h guesses LMA = VMA
    # when every p_paddr is 0)
    rc, out = _run(["readelf", "-SW", elf], root)
    secs = []
    for line in out.split("\n"):
        m = re.match(r"\s*\[\s*\d+\]\s+(\S+)\s+(\S+)\s+([0-9a-f]{8})\s+([0-9a-f]{6,})\s+([0-9a-f]{6,})\s+\S+\s+(\S*)\s+\d+\s+\d+\s+(\d+)", line)
        if m and m.group(2) in ("PROGBITS", "NOBITS"):
            secs.append({"name": m.group(1), "type": m.group(2), "vma": int(m.group(3), 16),
                         "off": int(m.group(4), 16), "size": int(m.group(5), 16), "flags": m.group(6),
                         "align": int(m.group(7)), "contents": m.group(2) == "PROGBITS",
                         "alloc": "A" in m.group(6), "lma": None})
    rc, out = _run(["readelf", "-lW", elf], root)
    loads = []
    for line in out.split("\n"):
        m = re.match(r"\s*LOAD\s+0x([0-9a-f]+)\s+0x([0-9a-f]+)\s+0x([0-9a-f]+)\s+0x([0-9a-f]+)\s+0x([0-9a-f]+)", line)
        if m:
            loads.append(tuple(int(x, 16) for x in m.groups()))     # offset vaddr paddr filesz memsz
    for s in secs:
        if not s["alloc"]:
            continue
        for off, va, pa, fsz, msz in loads:
            if s["contents"] and s["size"] and off <= s["off"] and s["off"] + s["size"] <= off + fsz:
                s["lma"] = pa + (s["off"] - off)
                break
            if not s["contents"] and va <= s["vma"] and s["vma"] + s["size"] <= va + msz:
                s["lma"] = pa + (s["vma"] - va)
                break
    return syms, secs


def symbol_sections(root, elf):
    """symbol name -> name of the output section that holds it (None for absolute/undefined)"""
    rc, out = _run(["readelf", "-SW", elf], root)
    names = {}
    for line in out.split("\n"):
        m = re.match(r"\s*\[\s*(\d+)\]\s+(\S+)", line)
        if m:
            names[int(m.group(1))] = m.group(2)
    rc, out = _run(["readelf", "-sW", elf], root)
    res = {}
    for line in out.split("\n"):
        f = line.split()
        if len(f) >= 8 and f[0].rstrip(":").isdigit():
            ndx = f[6]
            res[f[7]] = names.get(int(ndx)) if ndx.isdigit() else None
    return res


def link(root, script_text, archives, defsyms=None, extra_args=(), out="out.elf", script_name="script.ld",
         file_order=None):
    with open(os.path.join(root, script_name), "w") as f:
        f.write(script_text)
    cmd = ["ld", "-m", "elf_i386", "-o", out, "--no-warn-rwx-segments"]
    ds = defsyms if defsyms is not None else DEFSYMS
    if ds:
        # external symbols the documents may refer to: absolute symbols of an extra object
        with open(os.path.join(root, "_defs.s"), "w") as f:
            for k, v in ds.items():
                f.write(".globl %s\n%s = 0x%x\n" % (k, k, v))
        _run(["as", "--32", "-o", "_defs.o", "_defs.s"], root)
        cmd.append("_defs.o")
    # every input file on the command line, in universe (= script) order: this fixes the link order that
    # `*(section)` patterns follow
    for f in (file_order if file_order is not None else sorted(archives)):
        if f in archives:
            cmd.extend(["--whole-archive", f, "--no-whole-archive"])
        else:
            cmd.append(f)
    cmd.extend(extra_args)
    # the script last: files named on the command line are then loaded first, in the order given
    cmd.extend(["-T", script_name])
    rc, outp = _run(cmd, root)
    return rc, outp


def lld_accepts(root, script_name="script.ld", objects=()):
    cmd = ["ld.lld", "-m", "elf_i386", "-T", script_name, "-o", "out_lld.elf"] + list(objects)
    rc, outp = _run(cmd, root)
    return rc, outp
