"""Structural shrinking of a serial document (and option list) while a predicate stays true."""
import copy


def _candidates(j):
    """yield (path, replacement) edits that make the JSON value smaller"""
    if isinstance(j, dict):
        for k in list(j.keys()):
            yield [k], "__delete__"
        for k, v in j.items():
            for p, r in _candidates(v):
                yield [k] + p, r
    elif isinstance(j, list):
        for i in range(len(j)):
            yield [i], "__delete__"
        for i, v in enumerate(j):
            for p, r in _candidates(v):
                yield [i] + p, r


def _apply(j, path, repl):
    j = copy.deepcopy(j)
    cur = j
    for p in path[:-1]:
        cur = cur[p]
    if repl == "__delete__":
        del cur[path[-1]]
    else:
        cur[path[-1]] = repl
    return j


def shrink(value, still_fails, max_steps=400):
    """greedy: repeatedly try deleting one element; keep the edit if the predicate still holds"""
    steps = 0
    progress = True
    while progress and steps < max_steps:
        progress = False
        for path, repl in list(_candidates(value)):
            steps += 1
            if steps >= max_steps:
                break
            try:
                cand = _apply(value, path, repl)
            except Exception:
                continue
            if still_fails(cand):
                value = cand
                progress = True
                break
    return value
