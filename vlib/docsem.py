"""Small independent re-statement (from docs/file_format/*.md) of what the link-level monitors need to know
about a parsed document: the inclusion predicate, the documented symbol spellings, alignment arithmetic."""

M32 = 2 ** 32


def opt_map(opts):
    d = {}
    for k, v in opts:
        d[k] = v
    return d


def included(rec, opts):
    o = opt_map(opts)
    def m(kv):
        return o.get(kv[0]) == kv[1]
    ea, el = rec.get("exclude_if_any") or [], rec.get("exclude_if_all") or []
    ia, il = rec.get("include_if_any") or [], rec.get("include_if_all") or []
    if any(m(kv) for kv in ea):
        return False
    if el and all(m(kv) for kv in el):
        return False
    if ia or il:
        return any(m(kv) for kv in ia) or (bool(il) and all(m(kv) for kv in il))
    return True


def capitalize(s):
    return s[:1].upper() + s[1:] if s else s


def sec_conv(style, sec):
    if style == "splat":
        return sec.replace(".", "_").upper()
    if sec == ".rodata":
        return "RoData"
    return capitalize(sec[1:] if sec.startswith(".") else sec)


class Names:
    def __init__(self, style):
        self.s = style

    def _f(self, splat, mk, *a):
        return (splat if self.s == "splat" else mk).format(*a)

    def rom_start(self, n): return self._f("{}_ROM_START", "_{}SegmentRomStart", n)
    def rom_end(self, n): return self._f("{}_ROM_END", "_{}SegmentRomEnd", n)
    def rom_size(self, n): return self._f("{}_ROM_SIZE", "_{}SegmentRomSize", n)
    def vram_start(self, n): return self._f("{}_VRAM", "_{}SegmentStart", n)
    def vram_end(self, n): return self._f("{}_VRAM_END", "_{}SegmentEnd", n)
    def vram_size(self, n): return self._f("{}_VRAM_SIZE", "_{}SegmentSize", n)
    def sec_start(self, n, s): return self._f("{}{}_START", "_{}Segment{}Start", n, sec_conv(self.s, s))
    def sec_end(self, n, s): return self._f("{}{}_END", "_{}Segment{}End", n, sec_conv(self.s, s))
    def sec_size(self, n, s): return self._f("{}{}_SIZE", "_{}Segment{}Size", n, sec_conv(self.s, s))
    def offset(self, n): return self._f("{}_OFFSET", "_{}Offset", n)
    def class_start(self, n): return self._f("{}_VRAM_CLASS_START", "_{}VramClassStart", n)
    def class_end(self, n): return self._f("{}_VRAM_CLASS_END", "_{}VramClassEnd", n)
    def class_size(self, n): return self._f("{}_VRAM_CLASS_SIZE", "_{}VramClassSize", n)


def align_up(x, a):
    if not a or a <= 1:
        return x
    return ((x + a - 1) // a) * a


def emitted_segments(doc, opts):
    st = doc["settings"]
    segs = doc["segments"]
    if st["single_segment_mode"]:
        return list(segs)          # KF-C06: conditions are not consulted in single-segment mode
    return [s for s in segs if included(s, opts)]
