"""Property monitors evaluated on the implementation's real outputs, known-finding classes, feature
histograms and non-triviality rules."""
import json, os, re
from . import scriptparse as sp
from . import props, run

DEFAULT_RULE = ("cases = committed corpus + seeded structured generator (vlib/gen.py, profile per property); a case "
                "is non-trivial when generation succeeds on the implementation and the property's feature occurs; "
                "distinct = distinct value of the property's observable projection")
RULES = {}
ASSUMPTIONS = {}
EXTRA_TRUST = {}
CASE_SCALE = {}
# properties whose theorems pin the projection of the model to a spec function of the input: a difference
# between implementation and model on the projection is then a concrete failing input
FUNCTIONAL = {}


def static_obligations(pid):
    """(obligations, discharged, broken notes) beyond the Coq theorems, e.g. source scans"""
    return 0, 0, []


def features(pid, case, ji):
    f = []
    if case.partial:
        f.append("mode:partial")
    st = case.doc.get("settings") if isinstance(case.doc, dict) else None
    if isinstance(st, dict) and st.get("single_segment_mode"):
        f.append("mode:single")
    if case.meta.get("malform"):
        f.append("malformed")
    segs = case.doc.get("segments") if isinstance(case.doc, dict) else None
    if isinstance(segs, list):
        f.append("segments:%d" % min(len(segs), 6))
    return f


def nontrivial(pid, case, ji):
    return props.outcome(ji)[0] == "ok"


def known_class(pid, case, ji, known):
    return None


def explained_by(pid, kf, failure):
    return False


def check(pid, case, ji):
    """-> list of property failures observed on the implementation's output for this case"""
    fn = CHECKS.get(pid)
    if fn is None:
        return []
    try:
        return fn(case, ji)
    except sp.ParseError as e:
        return []


LINK_PIDS = ("C01", "C02", "C03", "C04", "C05", "C09", "C10", "C13", "C17", "C18", "C19")
LINK_CASES = {"quick": 70, "thorough": 2500}


def link_cases(pid, seed, n):
    from . import gen, ldcorr
    import random
    saved = list(gen.DIRS)
    gen.DIRS[:] = ldcorr.linkable_dirs()
    out = []
    try:
        prof = dict(props.PROFILES.get(pid, {}))
        prof.update(ldcorr.LINK_PROFILE)
        for i in range(n):
            rnd = random.Random((seed * 7919 + i) * 37 + int(pid[1:]))
            g = gen.Gen(rnd, prof)
            doc, opts, ev, partial = g.case_parts()
            opts = [(k, v if v not in ("", "x/y") else "v") for k, v in opts]
            out.append(run.Case("L%d" % i, doc, opts, ev, False, False, {"link": True}))
    finally:
        gen.DIRS[:] = saved
    return out


def dynamic(pid, tier, seed, cases):
    """property-specific executed checks; link-level properties: real GNU ld + LdSem correspondence"""
    res = {"violations": [], "features": {}, "evaluations": 0}
    if pid in LINK_PIDS:
        from . import ldcorr, linkmon
        lc = link_cases(pid, seed, LINK_CASES.get(tier, 70))
        impl, model = run.run_cases(lc)
        jobs = []
        for c in lc:
            why, job = ldcorr.prepare(c, run.normalise(impl[c.cid]), seed + 17)
            if why:
                res["features"]["link-skip:" + why] = res["features"].get("link-skip:" + why, 0) + 1
            else:
                jobs.append(job)
        results = ldcorr.run_jobs(jobs)
        for r in results:
            v = r["verdict"]
            res["features"]["link:" + v] = res["features"].get("link:" + v, 0) + 1
            res["evaluations"] += 1
            c = r["job"]["case"]
            if r["real"].get("status") == "ok":
                f = linkmon.monitors(c, run.normalise(impl[c.cid]), r["job"], r["real"], r["model"])
                if pid in f:
                    res["violations"].append({"case": c, "impl": None, "what": "real GNU ld image: " + "; ".join(f[pid][:4]),
                                              "universe": r["job"]["universe"].to_json()})
                if pid == "C19":
                    lld = r["real"].get("lld") or {}
                    if lld.get("rc") not in (0, None) and "script.ld:" in lld.get("log", ""):
                        res["violations"].append({"case": c, "impl": None,
                                                  "what": "ld.lld rejects the script: " + lld["log"][:300]})
            elif pid == "C19" and r["real"].get("status") == "ld-fail" and "script.ld:" in r["real"].get("log", "") \
                    and "syntax error" in r["real"].get("log", ""):
                res["violations"].append({"case": c, "impl": None,
                                          "what": "GNU ld rejects the script: " + r["real"]["log"][:300]})
            if v in ("diff", "ld-fails-only", "model-fails-only", "roundtrip-fail"):
                res.setdefault("ld_model_mismatch", []).append(
                    {"case": c.cid, "verdict": v, "diffs": (r.get("diffs") or [])[:4],
                     "ld_log": r["real"].get("log", "")[:200]})
    return res


def replay_known(pid, k):
    return True


from . import specmon
CHECKS = dict(specmon.MONITORS)
