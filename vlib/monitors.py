"""Property monitors evaluated on the implementation's real outputs, known-finding classes, feature
histograms and non-triviality rules."""
import json, os, re
from . import scriptparse as sp
from . import props, run

DEFAULT_RULE = ("cases = committed corpus + seeded structured generator (vlib/gen.py, profile per property); a case "
                "is non-trivial when generation succeeds on the implementation and the property's feature occurs; "
                "distinct = distinct value of the property's observable projection")
RULES = {}
ASSUMPTIONS = {}
EXTRA_TRUST = {}
CASE_SCALE = {}
# properties whose theorems pin the projection of the model to a spec function of the input: a difference
# between implementation and model on the projection is then a concrete failing input
FUNCTIONAL = {}


def static_obligations(pid):
    """(obligations, discharged, broken notes) beyond the Coq theorems, e.g. source scans"""
    return 0, 0, []


def features(pid, case, ji):
    f = []
    if case.partial:
        f.append("mode:partial")
    st = case.doc.get("settings") if isinstance(case.doc, dict) else None
    if isinstance(st, dict) and st.get("single_segment_mode"):
        f.append("mode:single")
    if case.meta.get("malform"):
        f.append("malformed")
    segs = case.doc.get("segments") if isinstance(case.doc, dict) else None
    if isinstance(segs, list):
        f.append("segments:%d" % min(len(segs), 6))
    return f


def nontrivial(pid, case, ji):
    return props.outcome(ji)[0] == "ok"


def known_class(pid, case, ji, known):
    return None


def explained_by(pid, kf, failure):
    return False


def check(pid, case, ji):
    """-> list of property failures observed on the implementation's output for this case"""
    fn = CHECKS.get(pid)
    if fn is None:
        return []
    try:
        return fn(case, ji)
    except sp.ParseError as e:
        return []


def dynamic(pid, tier, seed, cases):
    return {}


def replay_known(pid, k):
    return True


CHECKS = {}
