"""Property monitors evaluated on the implementation's real outputs, known-finding classes, feature
histograms and non-triviality rules."""
import json, os, re
from . import scriptparse as sp
from . import props, run

DEFAULT_RULE = ("cases = committed corpus + seeded structured generator (vlib/gen.py, profile per property); a case "
                "is non-trivial when generation succeeds on the implementation and the property's feature occurs; "
                "distinct = distinct value of the property's observable projection")
RULES = {}
ASSUMPTIONS = {}
EXTRA_TRUST = {}
CASE_SCALE = {}
# properties whose theorems pin the projection of the model to a spec function of the input: a difference
# between implementation and model on the projection is then a concrete failing input
FUNCTIONAL = {}

# properties whose statement covers whether a document is accepted / generation succeeds / an error is reported
# (conditions never cause errors, path errors, null handling, undeclared class, missing partial folders, determinism of
# the outcome, validation, crashes, exit status); for the others an accept/reject difference between model and
# implementation is left to these
def _tags(oi, om):
    return {o[1].split("(")[0] for o in (oi, om) if o[0] in ("parse", "gen")}


def _phases(oi, om):
    return {oi[0], om[0]}


# pid -> does this accept/reject/fail difference (outcome of the implementation, of the model: (phase, tag) with phase
# ok | parse | gen | crash) concern the property?
OUTCOME_OWNERS = {
    # an excluded entry causes no error, an included one does: everything after validation
    "C06": lambda oi, om, c: "parse" not in _phases(oi, om),
    # path errors: everything after validation
    "C07": lambda oi, om, c: "parse" not in _phases(oi, om),
    # "an explicit null disables it": null on the overridable options must be accepted
    "C08": lambda oi, om, c: "NullValueOnNonNull" in _tags(oi, om),
    "C10": lambda oi, om, c: "MissingVramClassForSegment" in _tags(oi, om),
    "C11": lambda oi, om, c: c.partial and "MissingRequiredField" in _tags(oi, om),
    "C15": lambda oi, om, c: True,
    # validation: the parse phase
    "C16": lambda oi, om, c: "parse" in _phases(oi, om),
    "C19": lambda oi, om, c: "crash" in _phases(oi, om),
    "C20": lambda oi, om, c: True,
}


def static_obligations(pid):
    """(obligations, discharged, broken notes) beyond the Coq theorems, e.g. source scans"""
    if pid == "C15":
        import subprocess
        verif = os.path.dirname(os.path.dirname(os.path.abspath(__file__)))
        r = subprocess.run(["python3", os.path.join(verif, "tools", "hash_iter_scan.py")], stdout=subprocess.PIPE, text=True)
        if r.returncode == 0:
            return 1, 1, []
        return 1, 0, ["hash-iteration scan: the Rust source iterates a HashMap/HashSet at a site the model does not "
                      "treat as order-independent: " + r.stdout[:600]]
    return 0, 0, []


def features(pid, case, ji):
    f = []
    if case.partial:
        f.append("mode:partial")
    st = case.doc.get("settings") if isinstance(case.doc, dict) else None
    if isinstance(st, dict) and st.get("single_segment_mode"):
        f.append("mode:single")
    if case.meta.get("malform"):
        f.append("malformed")
    segs = case.doc.get("segments") if isinstance(case.doc, dict) else None
    if isinstance(segs, list):
        f.append("segments:%d" % min(len(segs), 6))
    return f


def _has(case, *keys):
    if case.raw_yaml is not None:
        return True
    t = json.dumps(case.doc)
    return any(('"%s"' % k) in t for k in keys)


NONTRIVIAL = {
    "C01": lambda c, j: props.outcome(j)[0] == "ok" and j["gen"]["ok"]["main"]["script"].count("(") >= 6,
    "C02": lambda c, j: props.outcome(j)[0] == "ok" and j["gen"]["ok"]["main"]["script"].count("(") >= 6,
    "C03": lambda c, j: props.outcome(j)[0] == "ok" and _has(c, "fixed_vram", "fixed_symbol", "follows_segment", "vram_class"),
    "C04": lambda c, j: props.outcome(j)[0] == "ok" and len(c.doc.get("segments", [])) >= 2,
    "C05": lambda c, j: props.outcome(j)[0] == "ok",
    "C06": lambda c, j: props.outcome(j)[0] == "ok" and _has(c, "include_if_any", "include_if_all", "exclude_if_any", "exclude_if_all"),
    "C07": lambda c, j: "{" in json.dumps(c.doc) if c.raw_yaml is None else False,
    "C08": lambda c, j: props.outcome(j)[0] != "parse" and _has(c, "subalign", "fill_value", "alloc_sections", "section_start_align", "sections_subgroups", "wildcard_sections"),
    "C09": lambda c, j: props.outcome(j)[0] == "ok" and _has(c, "subalign", "segment_start_align", "segment_end_align", "section_start_align", "section_end_align", "sections_start_alignment", "sections_end_alignment"),
    "C10": lambda c, j: props.outcome(j)[0] == "ok" and _has(c, "vram_class"),
    "C11": lambda c, j: props.outcome(j)[0] == "ok" and c.partial,
    "C12": lambda c, j: props.outcome(j)[0] == "ok" and _has(c, "d_path"),
    "C13": lambda c, j: props.outcome(j)[0] == "ok",
    "C14": lambda c, j: props.outcome(j)[0] == "ok" and _has(c, "keep_sections"),
    "C15": lambda c, j: props.outcome(j)[0] == "ok",
    "C16": lambda c, j: True,
    "C17": lambda c, j: props.outcome(j)[0] == "ok" and _has(c, "entry", "symbol_assignments", "required_symbols", "asserts", "gp_info", "hardcoded_gp_value"),
    "C18": lambda c, j: props.outcome(j)[0] == "ok" and _has(c, "sections_allowlist", "sections_allowlist_extra", "sections_denylist", "discard_wildcard_section"),
    "C19": lambda c, j: True,
    "C20": lambda c, j: props.outcome(j)[0] == "ok",
}
RULES.update({
    "C16": DEFAULT_RULE + "; C16: every case counts, distinct = distinct (accept/reject outcome with its error tag, serial document "
           "as written)",
    "C19": DEFAULT_RULE + "; C19: every case counts, distinct = distinct outcome (tag of success / error value / crash) "
           "and, for the hostile byte stream, its mutation kind",
})


_LD = ("LdSem (coq/Model/LdSem.v) is a model of GNU ld 2.40 validated by sampling against the real linker on every run; link-level "
       "theorems are theorems about LdSem, the real-ld monitors check the same clauses on real images")
_SPEC = "extracted specification functions (coq/Extract/ExtractSpec.v -> build/driver_spec) run on the real tool's outputs: "
EXTRA_TRUST.update({
    "C01": [_LD], "C02": [_LD], "C03": [_LD], "C04": [_LD], "C09": [_LD], "C10": [_LD], "C17": [_LD], "C18": [_LD],
    "C05": [_LD, _SPEC + "doc_symbols / doc_symbols_single against the definitions in the real script"],
    "C13": [_LD, _SPEC + "doc_header_symbols(_main/_single) against the names the real tool records for the header; gcc -fsyntax-only on "
                         "sampled headers"],
    "C16": [_SPEC + "valid, Known_C16_null_plain_string, Known_C16_null_forbidden_field against the real accept/reject outcome"],
    "C19": [_SPEC + "wf_lines with doc_names_valid(_partial) on the real script texts; GNU ld and ld.lld acceptance on linked samples; "
                    "supervised hostile byte stream"],
    "C11": ["two-step link with real GNU ld (ld -r per partial script, then the main script): executed on samples, LdSem has no -r mode"],
    "C15": ["fresh processes (fresh SipHash keys), permuted option order and a dirty-directory history run of the real library; "
            "tools/hash_iter_scan.py source scan"],
    "C20": ["the real slinky-cli binary in scratch directories; vlib/run.py os_oracle for writes the OS refuses"],
})


def coverage_key(pid, c, ji, oi):
    """what 'distinct' counts for the evidence: by default the property's observable projection"""
    from . import props
    if pid == "C16":
        return [oi, c.doc if c.raw_yaml is None else c.raw_yaml.hex()]
    if pid == "C19":
        o = props.outcome(ji)
        return [oi, o[0], o[1].split("(")[0]]
    return oi


def nontrivial(pid, case, ji):
    try:
        return bool(NONTRIVIAL.get(pid, lambda c, j: props.outcome(j)[0] == "ok")(case, ji))
    except Exception:
        return False


def known_class(pid, case, ji, known):
    return None


def explained_by(pid, kf, failure):
    return False


def check(pid, case, ji):
    """-> list of property failures observed on the implementation's output for this case"""
    fn = CHECKS.get(pid)
    if fn is None:
        return []
    try:
        return fn(case, ji)
    except sp.ParseError as e:
        return []


LINK_PIDS = ("C01", "C02", "C03", "C04", "C05", "C09", "C10", "C13", "C17", "C18", "C19")
LINK_CASES = {"quick": 70, "thorough": 2500}


def link_cases(pid, seed, n):
    from . import gen, ldcorr
    import random
    saved = list(gen.DIRS)
    gen.DIRS[:] = ldcorr.linkable_dirs()
    out = []
    try:
        prof = dict(props.PROFILES.get(pid, {}))
        prof.update(ldcorr.LINK_PROFILE)
        if pid == "C11":
            prof["partial"] = 1.0
            prof["single"] = 0.0
        for i in range(n):
            rnd = random.Random((seed * 7919 + i) * 37 + int(pid[1:]))
            g = gen.Gen(rnd, prof)
            doc, opts, ev, partial = g.case_parts()
            opts = [(k, v if v not in ("", "x/y") else "v") for k, v in opts]
            out.append(run.Case("L%d" % i, doc, opts, ev, False, False, {"link": True}))
    finally:
        gen.DIRS[:] = saved
    return out


def prune_excluded(doc, opts):
    """the document with every excluded entry deleted (None when deleting would leave a list that the
    parser rejects as empty, or in the known-finding class KF-C06-single-segment)"""
    import copy
    from . import docsem
    d = copy.deepcopy(doc)
    st = d.get("settings") or {}
    single = isinstance(st, dict) and st.get("single_segment_mode")
    changed = [False]

    def inc(rec):
        return docsem.included({k: rec.get(k) for k in ("include_if_any", "include_if_all", "exclude_if_any",
                                                         "exclude_if_all")}, opts)

    def prune_files(l):
        out = []
        for f in l:
            if not inc(f):
                changed[0] = True
                continue
            if isinstance(f.get("files"), list):
                f["files"] = prune_files(f["files"])
            out.append(f)
        return out
    segs = []
    for s in d["segments"]:
        if not single and not inc(s):
            changed[0] = True
            continue
        s["files"] = prune_files(s["files"])
        if not s["files"]:
            return None
        gp = s.get("gp_info")
        if isinstance(gp, dict) and not inc(gp):
            del s["gp_info"]
            changed[0] = True
        segs.append(s)
    if not segs:
        return None
    d["segments"] = segs
    for key in ("symbol_assignments", "required_symbols", "asserts"):
        if isinstance(d.get(key), list):
            n = len(d[key])
            d[key] = [a for a in d[key] if inc(a)]
            if len(d[key]) != n:
                changed[0] = True
    return d if changed[0] else None


def _all_outputs(ji, files):
    """every output, blank lines stripped"""
    g = ji.get("gen", {}).get("ok") if isinstance(ji.get("gen"), dict) else None
    if not g:
        return props.outcome(ji)
    def w(x):
        return [[l for l in x["script"].split("\n") if l], x["paths"], x["symbols"], x["header"], x["deps"]]
    out = [w(g["main"]), [[n, w(x)] for n, x in g.get("subs", [])]]
    if files and "files" in g:
        out.append(g["files"])
    return out


def hostile_cases(seed, n):
    """raw byte inputs: corrupted, truncated, wrongly typed, deeply nested, aliased, non-ASCII YAML"""
    import random
    from . import gen, enc
    out = []
    for i in range(n):
        rnd = random.Random(seed * 104729 + i)
        g = gen.Gen(rnd, {"max_segments": 3, "max_files": 3})
        doc, opts, ev, partial = g.case_parts()
        text = json.dumps(doc, ensure_ascii=False)
        kind = rnd.choice(["truncate", "flip", "type-swap", "deep", "alias", "nonascii", "huge", "tabs", "dupkey",
                           "cycle", "empty", "binary"])
        b = text.encode("utf-8")
        if kind == "truncate":
            b = b[: rnd.randrange(1, len(b))]
        elif kind == "flip":
            ba = bytearray(b)
            for _ in range(rnd.randint(1, 6)):
                ba[rnd.randrange(len(ba))] = rnd.choice(b"{}[],:\"'#&*!|>%@`-? \n\t\x00\xff0a")
            b = bytes(ba)
        elif kind == "type-swap":
            rep = rnd.choice([("\"name\":", "\"name\": [1,2],\"x\":"), ("\"files\": [", "\"files\": {\"a\":["), ("true", "\"yes\""),
                              ("\"path\": \"", "\"path\": 12, \"p\": \""), ("[", "[[")])
            b = text.replace(rep[0], rep[1], rnd.randint(1, 3)).encode("utf-8")
        elif kind == "deep":
            d = rnd.choice([50, 200, 2000])
            txt = '{"path": "a.o"}'
            for _ in range(d):
                txt = '{"kind": "group", "files": [' + txt + ']}'
            b = ('{"segments": [{"name": "s", "files": [' + txt + ']}]}').encode()
        elif kind == "alias":
            b = ("a: &a [x, x]\nb: &b [*a, *a, *a, *a, *a, *a, *a, *a]\nc: &c [*b, *b, *b, *b, *b, *b, *b, *b]\n"
                 "d: &d [*c, *c, *c, *c, *c, *c, *c, *c]\nsegments:\n  - name: s\n    files: [{path: a.o, keep_sections: *d}]\n").encode()
        elif kind == "nonascii":
            name = rnd.choice(["\u00e9t\u00e9", ".\u00e9t\u00e9", "\u4e2d\u6587", ".\U0001F600x", "\u00df", "\u01c5x"])
            doc2 = json.loads(text)
            st = doc2.setdefault("settings", {}) if isinstance(doc2.get("settings", {}), dict) else {}
            if isinstance(st, dict):
                st["linker_symbols_style"] = rnd.choice(["makerom", "splat"])
            for sgm in doc2.get("segments", []):
                if isinstance(sgm, dict):
                    if rnd.random() < 0.5:
                        sgm["alloc_sections"] = [name, ".text"]
                    if rnd.random() < 0.5:
                        sgm["name"] = name
            b = json.dumps(doc2, ensure_ascii=False).encode("utf-8")
        elif kind == "huge":
            b = text.replace("\"fixed_vram\": ", "\"fixed_vram\": 99999999999999999999", 1).replace(
                "\"pad_amount\": ", "\"pad_amount\": -", 1).encode()
        elif kind == "tabs":
            b = ("segments:\n\t- name: a\n\t  files: [{path: a.o}]\n" if rnd.random() < 0.5 else
                 "segments:\n  - name: a\n    files:\n    - {path: a.o\n").encode()
        elif kind == "dupkey":
            b = text.replace("{\"name\":", "{\"name\": \"dup\", \"name\":", 1).encode()
        elif kind == "cycle":
            doc2 = {"settings": {"sections_subgroups": {".text": [".data"], ".data": [".text"]}},
                    "segments": [{"name": "s", "files": [{"path": "a.o", "section_order": {".text": ".data", ".data": ".text"}},
                                                          {"kind": "group", "files": [{"path": "b.o"}]}]}]}
            if rnd.random() < 0.4:
                # a loop closed by section_order through a member that is not itself a sub-group key
                doc2["settings"]["sections_subgroups"] = {".data": [".text"]}
                doc2["segments"][0]["files"][0]["section_order"] = {".data": ".text"}
            if rnd.random() < 0.5:
                doc2["settings"]["single_segment_mode"] = True
                doc2["segments"].append({"name": "t", "files": [{"path": "c.o"}]})
            b = json.dumps(doc2).encode()
        elif kind == "empty":
            b = rnd.choice([b"", b"\n", b"---\n", b"null", b"[]", b"segments:", b"segments: []", b"? : :"])
        elif kind == "binary":
            b = bytes(rnd.randrange(256) for _ in range(rnd.randint(1, 200)))
        out.append(run.Case("H%d" % i, None, opts, ev, partial, False, {"kind": kind}, raw_yaml=b))
    return out


def dynamic(pid, tier, seed, cases):
    """property-specific executed checks; link-level properties: real GNU ld + LdSem correspondence"""
    res = {"violations": [], "features": {}, "evaluations": 0}
    if pid == "C06":
        # metamorphic monitor on the implementation alone: deleting every excluded entry, or adding an option
        # that nothing mentions, must not change any output (up to blank lines)
        pairs = []
        for c in cases:
            if c.raw_yaml is not None or c.meta.get("malform") or not isinstance(c.doc, dict):
                continue
            try:
                d2 = prune_excluded(c.doc, c.opts)
            except Exception:
                d2 = None
            if d2 is not None:
                pairs.append((c, run.Case(c.cid + "_pruned", d2, c.opts, c.emit_version, c.partial, c.files), "pruned"))
            if len(pairs) % 3 == 0:
                pairs.append((c, run.Case(c.cid + "_opt", c.doc, list(c.opts) + [("zz_unmentioned", "1")],
                                          c.emit_version, c.partial, c.files), "extra-option"))
        both = [p[0] for p in pairs] + [p[1] for p in pairs]
        uniq = {}
        for c in both:
            uniq[c.cid] = c
        impl = run.run_impl_only(list(uniq.values()))
        for a, b, kind in pairs:
            ja, jb = run.normalise(impl[a.cid]), run.normalise(impl[b.cid])
            res["evaluations"] += 1
            res["features"]["metamorphic:" + kind] = res["features"].get("metamorphic:" + kind, 0) + 1
            if props.outcome(ja)[0] != "ok":
                continue
            if _all_outputs(ja, a.files) != _all_outputs(jb, b.files):
                res["violations"].append({"case": a, "impl": None, "companion": b.to_json(),
                                          "what": "outputs differ (beyond blank lines) from those of the document with "
                                                  "its excluded entries deleted" if kind == "pruned" else
                                                  "an option that no condition and no path mentions changed an output"})
    if pid == "C08":
        # metamorphic monitor on the implementation alone: writing every effective option value explicitly on
        # every segment (null where the effective value is "none") changes no output; afterwards changing the
        # global values changes nothing either (shielding); and writing the effective global values explicitly
        # in `settings` changes nothing.
        import copy
        OVR = ["alloc_sections", "noload_sections", "subalign", "segment_start_align", "segment_end_align",
               "section_start_align", "section_end_align", "sections_start_alignment", "sections_end_alignment",
               "wildcard_sections", "fill_value", "sections_subgroups"]
        base = [c for c in cases if c.raw_yaml is None and isinstance(c.doc, dict) and not c.meta.get("malform")]
        base = base[: (500 if tier == "quick" else 8000)]
        impl0 = run.run_impl_only(base)
        comp = []
        for c in base:
            j0 = run.normalise(impl0[c.cid])
            if "ok" not in j0.get("parse", {}):
                continue
            pd = j0["parse"]["ok"]
            d1 = copy.deepcopy(c.doc)
            for ss, ps in zip(d1["segments"], pd["segments"]):
                for k in OVR:
                    ss[k] = ps[k]
            d2 = copy.deepcopy(d1)
            st2 = d2.setdefault("settings", {})
            if not isinstance(st2, dict):
                continue
            st2.update({"subalign": 0x400, "segment_start_align": 0x800, "fill_value": 0x12345678,
                        "wildcard_sections": not pd["settings"]["wildcard_sections"],
                        "alloc_sections": [".zzz"], "noload_sections": [".yyy"], "section_end_align": 0x200,
                        "sections_start_alignment": {".text": 0x80}, "sections_subgroups": {".zzz": [".q"]}})
            d3 = copy.deepcopy(c.doc)
            st3 = d3.setdefault("settings", {})
            if isinstance(st3, dict):
                for k in OVR:
                    st3[k] = pd["settings"][k]
            comp.append((c, j0, [("segment-restated", d1), ("global-changed-under-overrides", d2), ("global-restated", d3)]))
        extra = []
        for c, j0, variants in comp:
            for kind, d in variants:
                extra.append(run.Case("%s_%s" % (c.cid, kind), d, c.opts, c.emit_version, c.partial, False))
        impl1 = run.run_impl_only(extra)
        for c, j0, variants in comp:
            o0 = _all_outputs(j0, False)
            for kind, d in variants:
                j1 = run.normalise(impl1["%s_%s" % (c.cid, kind)])
                res["evaluations"] += 1
                res["features"]["metamorphic:" + kind] = res["features"].get("metamorphic:" + kind, 0) + 1
                same_doc = kind != "global-changed-under-overrides"
                bad = _all_outputs(j1, False) != o0
                if not bad and same_doc and j1.get("parse", {}).get("ok") != j0["parse"]["ok"] and kind == "segment-restated":
                    bad = True
                if bad:
                    res["violations"].append({"case": c, "impl": None, "companion": d,
                                              "what": "outputs change when %s" % {
                                                  "segment-restated": "every segment states its effective option values explicitly",
                                                  "global-changed-under-overrides": "global values change although every segment overrides every option",
                                                  "global-restated": "settings states the effective global values explicitly"}[kind]})
                    break
    if pid == "C11":
        # on the implementation's own outputs: partial generation vs ordinary generation of the same document
        from . import specmon
        sub = [c for c in cases if c.partial and c.raw_yaml is None]
        normal = [run.Case(c.cid + "_n", c.doc, c.opts, c.emit_version, False, False) for c in sub]
        impl = run.run_impl_only(sub + normal)
        for c, cn in zip(sub, normal):
            jp, jn = run.normalise(impl[c.cid]), run.normalise(impl[cn.cid])
            res["evaluations"] += 1
            f = specmon.mon_C11_pair(c, jp, jn)
            if f:
                res["violations"].append({"case": c, "impl": None, "what": "; ".join(f[:3])})
        # the two-step link itself, executed on linkable samples
        from . import ldcorr
        lc = [run.Case(c.cid, c.doc, c.opts, c.emit_version, True, False) for c in
              link_cases("C11", seed, 60 if tier == "quick" else 1500)]
        lc = [c for c in lc if isinstance(c.doc.get("settings"), dict) and
              c.doc["settings"].get("partial_build_segments_folder") and not c.doc["settings"].get("single_segment_mode")]
        ln = [run.Case(c.cid + "_n", c.doc, c.opts, c.emit_version, False, False) for c in lc]
        impl2 = run.run_impl_only(lc + ln)
        from concurrent.futures import ThreadPoolExecutor
        def job(pair):
            c, cn = pair
            try:
                return ldcorr.two_step(c, run.normalise(impl2[cn.cid]), run.normalise(impl2[c.cid]), seed + 5)
            except Exception as e:
                return "skip:error", []
        with ThreadPoolExecutor(max_workers=16) as ex:
            outs = list(ex.map(job, list(zip(lc, ln))))
        for (c, cn), (status, fl) in zip(zip(lc, ln), outs):
            res["features"]["two-step:" + status] = res["features"].get("two-step:" + status, 0) + 1
            res["evaluations"] += 1
            if status == "fail":
                res["violations"].append({"case": c, "impl": None, "what": "two-step link: " + "; ".join(fl)})
    if pid == "C15":
        # the same cases in fresh processes (fresh SipHash keys) and with the option order permuted
        import random
        sub = [c for c in cases if c.raw_yaml is None][: (400 if tier == "quick" else 6000)]
        runs = [run.run_impl_only(sub) for _ in range(3 if tier == "quick" else 6)]
        perm = []
        for c in sub:
            last = {}
            for k, v in c.opts:
                last[k] = v
            items = list(last.items())
            random.Random(seed + len(items)).shuffle(items)
            perm.append(run.Case(c.cid, c.doc, items, c.emit_version, c.partial, c.files))
        runs.append(run.run_impl_only(perm))
        # history: the files are written a second time over longer left-overs of a first generation
        runs.append(run.run_impl_only(sub, env={"SLINKY_VERIF_DIRTY": "1"}))
        for c in sub:
            outs = [json.dumps(run.normalise(r[c.cid]), sort_keys=True) for r in runs]
            res["evaluations"] += 1
            if len(set(outs)) > 1:
                res["violations"].append({"case": c, "impl": None,
                                          "what": "outputs differ between process runs / option orders (%d distinct results in %d runs)"
                                                  % (len(set(outs)), len(outs))})
        res["features"]["process-runs"] = len(runs)
    if pid == "C19":
        hostile = hostile_cases(seed, 600 if tier == "quick" else 20000)
        impl = run.run_impl_only(hostile)
        for c in hostile:
            ji = impl[c.cid]
            res["evaluations"] += 1
            k = "hostile:" + c.meta["kind"]
            res["features"][k] = res["features"].get(k, 0) + 1
            if run.is_crash(ji):
                res["violations"].append({"case": c, "impl": ji, "what": "the library crashed: %s" % json.dumps(ji)[:300]})
    if pid == "C05":
        # Spec/DocWf.v / DocSingleWf.v on the real tool: for every symbol, the number of "x = value" statements in the
        # ordinary script equals its number of occurrences in doc_symbols(_single) (DocWf_symbols_count,
        # DocSingleWf_symbols_count) - the document-side list of everything the script defines
        from . import scriptparse as sp_
        subs_ = [c for c in cases if c.raw_yaml is None and isinstance(c.doc, dict) and not c.partial][: (900 if tier == "quick" else 12000)]
        impls_ = run.run_impl_only(subs_)
        items, back = [], {}
        for c in subs_:
            ji = run.normalise(impls_[c.cid])
            if props.outcome(ji)[0] != "ok":
                continue
            try:
                ast = sp_.parse_script(ji["gen"]["ok"]["main"]["script"])
            except sp_.ParseError:
                continue
            cnt = {}
            for s_, _ in sp_.walk(ast):
                if s_["k"] == "assign":
                    cnt[s_["sym"]] = cnt.get(s_["sym"], 0) + 1
            items.append((c.cid, c.doc, c.opts, c.emit_version, False))
            back[c.cid] = (c, cnt)
        try:
            ds = run.run_header_spec(items, what="symbols")
        except Exception as e:
            ds = None
            res["proof_broken"] = "the extracted symbol specification (coq/Spec/DocWf.v) failed to run: %s" % str(e)[-300:]
        if ds is None and "proof_broken" not in res:
            res["proof_broken"] = "the extracted symbol specification (coq/Spec/DocWf.v) could not be built"
        for cid, want in (ds or {}).items():
            c, cnt = back[cid]
            if want is None:
                continue
            res["evaluations"] += 1
            res["features"]["symbols-spec"] = res["features"].get("symbols-spec", 0) + 1
            wc = {}
            for x in want:
                wc[x] = wc.get(x, 0) + 1
            if wc != cnt:
                bad = sorted(k for k in set(wc) | set(cnt) if wc.get(k, 0) != cnt.get(k, 0))[:5]
                res["violations"].append({"case": c, "impl": None,
                                          "what": "the symbols the real script defines differ from doc_symbols (Spec/DocWf.v): "
                                                  + "; ".join("%s defined %d times, specified %d" % (k, cnt.get(k, 0), wc.get(k, 0)) for k in bad)})
    if pid == "C19":
        # the extracted grammar reader of Spec/C19Grammar.v on the scripts the real tool wrote: for documents that meet
        # doc_names_valid (the hypothesis of C19_generated_lines) every script must be accepted
        sub = [c for c in cases if c.raw_yaml is None and isinstance(c.doc, dict)][: (700 if tier == "quick" else 8000)]
        implg = run.run_impl_only(sub)
        items, back = [], {}
        for c in sub:
            ji = run.normalise(implg[c.cid])
            if props.outcome(ji)[0] != "ok":
                continue
            g = ji["gen"]["ok"]
            texts = [g["main"]["script"]] + [w["script"] for _, w in g.get("subs", [])]
            items.append((c.cid, c.doc, c.opts, c.emit_version, c.partial, texts))
            back[c.cid] = c
        try:
            gr = run.run_grammar_spec(items)
        except Exception as e:
            gr = None
            res["proof_broken"] = "the extracted grammar reader (coq/Spec/C19Grammar.v) failed to run: %s" % str(e)[-300:]
        if gr is None and "proof_broken" not in res:
            res["proof_broken"] = "the extracted grammar reader (coq/Spec/C19Grammar.v) could not be built"
        for cid, v in (gr or {}).items():
            res["evaluations"] += 1
            k = "grammar:names-valid:%s accepted:%s" % (v["names_valid"], all(v["accepted"]))
            res["features"][k] = res["features"].get(k, 0) + 1
            if v["names_valid"] and not all(v["accepted"]):
                res["violations"].append({"case": back[cid], "impl": None,
                                          "what": "names are valid linker identifiers (doc_names_valid) but the grammar reader of "
                                                  "Spec/C19Grammar.v refuses script #%d written by the real tool"
                                                  % v["accepted"].index(False)})
    if pid == "C13":
        # Spec/C13Doc.v on the real tool: the names the header declares are keep_first of doc_header_symbols(_main/_single),
        # a list computed from the parsed document alone (C13_document_header, _main_header, _single_header)
        subh = [c for c in cases if c.raw_yaml is None and isinstance(c.doc, dict)][: (900 if tier == "quick" else 12000)]
        implh = run.run_impl_only(subh)
        items, back = [], {}
        for c in subh:
            ji = run.normalise(implh[c.cid])
            if props.outcome(ji)[0] != "ok":
                continue
            items.append((c.cid, c.doc, c.opts, c.emit_version, c.partial))
            back[c.cid] = (c, ji["gen"]["ok"]["main"].get("symbols"))
        try:
            hs = run.run_header_spec(items)
        except Exception as e:
            hs = None
            res["proof_broken"] = "the extracted header specification (coq/Spec/C13Doc.v) failed to run: %s" % str(e)[-300:]
        if hs is None and "proof_broken" not in res:
            res["proof_broken"] = "the extracted header specification (coq/Spec/C13Doc.v) could not be built"
        for cid, want in (hs or {}).items():
            c, got = back[cid]
            if want is None:
                continue
            res["evaluations"] += 1
            seen, first = set(), []
            for x in want:
                if x not in seen:
                    seen.add(x)
                    first.append(x)
            res["features"]["header-spec:" + ("partial" if c.partial else "ordinary")] = \
                res["features"].get("header-spec:" + ("partial" if c.partial else "ordinary"), 0) + 1
            if got != first:
                res["violations"].append({"case": c, "impl": None,
                                          "what": "the names the real tool records for the header %s differ from doc_header_symbols "
                                                  "(Spec/C13Doc.v) %s" % (str(got)[:200], str(first)[:200])})
    if pid == "C13":
        # executed, not proved: the header is a self-contained C file (gcc -fsyntax-only) when the type is a builtin
        import subprocess, tempfile
        sub = [c for c in cases if c.raw_yaml is None][:300]
        impl = run.run_impl_only(sub)
        d = tempfile.mkdtemp(prefix="hdr_", dir=os.path.join(run.BUILD, "scratch"))
        try:
            n = 0
            for c in sub:
                ji = run.normalise(impl[c.cid])
                if props.outcome(ji)[0] != "ok":
                    continue
                st = ji["parse"]["ok"]["settings"]
                if st["symbols_header_type"] not in ("char", "unsigned int", "int", "short", "long"):
                    continue
                syms = ji["gen"]["ok"]["main"]["symbols"]
                import re as _re
                if not all(_re.fullmatch(r"[A-Za-z_][A-Za-z0-9_]*", x) for x in syms):
                    continue            # names that are not C identifiers: outside the property's scope
                n += 1
                if n > (40 if tier == "quick" else 1000):
                    break
                f = os.path.join(d, "h%d.c" % n)
                with open(f, "w") as fh:
                    fh.write('#include "h%d.h"\n#include "h%d.h"\n' % (n, n))
                with open(os.path.join(d, "h%d.h" % n), "w") as fh:
                    fh.write(ji["gen"]["ok"]["main"]["header"])
                r = subprocess.run(["gcc", "-fsyntax-only", "-Wall", "-Werror", "-x", "c", f], cwd=d,
                                   stdout=subprocess.PIPE, stderr=subprocess.STDOUT, text=True, timeout=60)
                res["evaluations"] += 1
                res["features"]["gcc-syntax-only"] = res["features"].get("gcc-syntax-only", 0) + 1
                if r.returncode != 0:
                    res["violations"].append({"case": c, "impl": None,
                                              "what": "gcc rejects the header (included twice): " + r.stdout[:300]})
        finally:
            import shutil
            shutil.rmtree(d, ignore_errors=True)
    if pid == "C20":
        from . import climon
        r = climon.run(cases, tier, seed)
        res["violations"].extend(r["violations"])
        res["features"].update(r["features"])
        res["evaluations"] += r["evaluations"]
    if pid == "C16":
        spec = run.run_valid_spec([c for c in cases if c.raw_yaml is None])
        if spec is None:
            res["proof_broken"] = "the extracted specification checker (coq/Spec/C16.v) could not be built"
        else:
            impl = run.run_impl_only([c for c in cases if c.cid in spec])
            for c in cases:
                if c.cid not in spec:
                    continue
                ji = impl[c.cid]
                accepted = props.outcome(ji)[0] not in ("parse", "crash")
                v = spec[c.cid]
                res["evaluations"] += 1
                kcls = " known-class:null-plain-string" if v["known"] else \
                    " known-class:null-forbidden-field" if v.get("known2") else ""
                key = "valid:%s accepted:%s%s" % (v["valid"], accepted, kcls)
                res["features"][key] = res["features"].get(key, 0) + 1
                if v["known"]:
                    continue
                if v.get("known2"):
                    # KF-C16-null-forbidden-field: the document carries an explicit null on a field its kind forbids;
                    # by C16_accept_iff_valid_without_forbidden_nulls it must be treated like the document without them.
                    # That is what the model does, and the model is compared with the implementation on this case by
                    # the correspondence above; nothing more can be demanded here.
                    continue
                if accepted != v["valid"]:
                    res["violations"].append({"case": c, "impl": None,
                                              "what": "the document is %s by the documented rules (Spec/C16.v valid) but slinky %s it (%s)"
                                                      % ("valid" if v["valid"] else "invalid",
                                                         "accepts" if accepted else "rejects", props.outcome(ji))})
    if pid in LINK_PIDS:
        from . import ldcorr, linkmon
        lc = link_cases(pid, seed, LINK_CASES.get(tier, 70))
        impl, model = run.run_cases(lc)
        jobs = []
        for c in lc:
            why, job = ldcorr.prepare(c, run.normalise(impl[c.cid]), seed + 17)
            if why:
                res["features"]["link-skip:" + why] = res["features"].get("link-skip:" + why, 0) + 1
            else:
                jobs.append(job)
        results = ldcorr.run_jobs(jobs)
        for r in results:
            v = r["verdict"]
            res["features"]["link:" + v] = res["features"].get("link:" + v, 0) + 1
            res["evaluations"] += 1
            c = r["job"]["case"]
            if r["real"].get("status") == "ok" and v == "equal":
                # (only where LdSem and ld agree: in the skipped cases ld itself behaves irregularly, e.g. an
                #  output section that receives nothing keeps the old location counter for the next symbol)
                f = linkmon.monitors(c, run.normalise(impl[c.cid]), r["job"], r["real"], r["model"])
                if pid in f:
                    res["violations"].append({"case": c, "impl": None, "what": "real GNU ld image: " + "; ".join(f[pid][:4]),
                                              "universe": r["job"]["universe"].to_json()})
                if pid == "C19":
                    lld = r["real"].get("lld") or {}
                    if lld.get("rc") not in (0, None) and "script.ld:" in lld.get("log", ""):
                        res["violations"].append({"case": c, "impl": None,
                                                  "what": "ld.lld rejects the script: " + lld["log"][:300]})
            elif pid == "C19" and r["real"].get("status") == "ld-fail" and "script.ld:" in r["real"].get("log", "") \
                    and "syntax error" in r["real"].get("log", ""):
                res["violations"].append({"case": c, "impl": None,
                                          "what": "GNU ld rejects the script: " + r["real"]["log"][:300]})
            if v in ("diff", "ld-fails-only", "model-fails-only", "roundtrip-fail"):
                res.setdefault("ld_model_mismatch", []).append(
                    {"case": c.cid, "verdict": v, "diffs": (r.get("diffs") or [])[:4],
                     "ld_log": r["real"].get("log", "")[:200]})
    return res


def _witness(k):
    j = json.load(open(os.path.join(os.path.dirname(os.path.dirname(os.path.abspath(__file__))), k["witness"])))
    c = run.Case.from_json(j)
    impl, model = run.run_cases([c])
    return c, run.normalise(impl[c.cid])


def _witness_link(c, ji):
    from . import ldcorr
    why, job = ldcorr.prepare(c, ji, 1)
    if why:
        return None, None
    return job, ldcorr.real_link(job)


def replay_known(pid, k):
    """run the finding's witness on the real code (and the real linker): does it still fail?"""
    try:
        c, ji = _witness(k)
        kid = k["id"]
        if kid in ("KF-C16-null-plain-string", "KF-C16-null-forbidden-field"):
            return props.outcome(ji)[0] != "parse"
        if props.outcome(ji)[0] != "ok":
            return False
        text = ji["gen"]["ok"]["main"]["script"]
        if kid == "KF-C06-single-segment":
            return "a.o(" in text
        if kid == "KF-C01-dest-missing":
            return "(.data" not in text
        if kid == "KF-C01-dup-list":
            return text.count("a.o(.text*);") == 2
        job, real = _witness_link(c, ji)
        if real is None:
            return False
        if kid == "KF-C05-alloc-start":
            s = real.get("syms", {})
            return real["status"] == "ok" and s.get("b_alloc_VRAM", 0) > s.get("b_alloc_VRAM_END", 0)
        if kid == "KF-C10-follows-unemitted":
            return real["status"] == "ld-fail" and "clsA_VRAM_CLASS_END" in real["log"]
    except Exception as e:
        return False
    return False


from . import specmon
CHECKS = dict(specmon.MONITORS)
