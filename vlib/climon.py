"""C20: run the real slinky-cli binary in scratch directories (several prior states of the output locations) and
compare what it wrote, printed and returned with the library's in-memory exports (harness) and with the model's
cli_run."""
import os, random, shutil, subprocess, tempfile, json
from concurrent.futures import ThreadPoolExecutor
from . import run as runmod, enc, props
run_mod = runmod

CLI = os.path.join(runmod.BUILD, "target_cli", "release", "slinky-cli")


def _tree(root):
    out = {}
    for dp, dn, fn in os.walk(root):
        for f in fn:
            p = os.path.join(dp, f)
            rel = os.path.relpath(p, root)
            try:
                out[rel] = open(p, "rb").read().decode("utf-8", "replace")
            except Exception:
                out[rel] = None
    return out


def spell_options(opts, rnd):
    """the same option sequence in one of several command-line spellings; -> (argv part, raw values for the model)"""
    if not opts:
        return [], []
    style = rnd.randrange(4)
    kv = ["%s=%s" % (k, v) for k, v in opts]
    if style == 0:
        args, raw = [], []
        for x in kv:
            args += ["-c", x]
            raw.append(x)
        return args, raw
    if style == 1:
        return ["-c", ",".join(kv)], [",".join(kv)]
    if style == 2:
        args, raw = [], []
        for x in kv:
            args += ["--custom-options=" + x]
            raw.append(x)
        return args, raw
    half = len(kv) // 2
    a, b = ",".join(kv[:half]), ",".join(kv[half:])
    args, raw = [], []
    for x in (a, b):
        if x:
            args += ["-c", x]
            raw.append(x)
    return args, raw


def one(job):
    c, output, omit, argv_opts, prior, root, predicted = job
    os.makedirs(root, exist_ok=True)
    yaml_path = os.path.join(root, "input.yaml")
    with open(yaml_path, "wb") as f:
        f.write(enc.to_yaml(c.doc).encode("utf-8"))
    work = os.path.join(root, "w")
    os.makedirs(work)
    # prior state of the output locations: every file the run is predicted to write already exists and is longer
    pre = {}
    if prior == "existing-longer":
        for target in predicted:
            t = os.path.normpath(target)
            if t.startswith("..") or t.startswith("/") or t in ("", ".") or target.endswith("/"):
                continue
            p = os.path.join(work, t)
            os.makedirs(os.path.dirname(p) or work, exist_ok=True)
            with open(p, "w") as f:
                f.write("X" * 200000)
            pre[t] = "X" * 200000
    cmd = [CLI, yaml_path] + (["-o", output] if output else []) + (["--partial-linking"] if c.partial else []) + \
        argv_opts + (["--omit-version-comment"] if omit else [])
    try:
        p = subprocess.run(cmd, cwd=work, stdout=subprocess.PIPE, stderr=subprocess.PIPE, timeout=60)
        rc, out = p.returncode, p.stdout.decode("utf-8", "replace")
    except subprocess.TimeoutExpired:
        rc, out = -999, ""
    tree = _tree(work)
    shutil.rmtree(root, ignore_errors=True)
    return {"rc": rc, "stdout": out, "tree": tree, "pre": pre}


def run(cases, tier, seed):
    res = {"violations": [], "features": {}, "evaluations": 0}
    if not os.path.exists(CLI):
        res["violations"].append({"case": cases[0], "impl": None, "what": "slinky-cli binary was not built"})
        return res
    rnd = random.Random(seed)
    from . import engine
    jobs, meta = [], []
    base = tempfile.mkdtemp(prefix="cli_", dir=os.path.join(runmod.BUILD, "scratch"))
    n = 0
    limit = 250 if tier == "quick" else 5000
    for c in cases:
        if c.raw_yaml is not None or not isinstance(c.doc, dict) or n >= limit:
            continue
        if not engine.safe_for_files(c.doc, c.opts):
            continue
        if any("," in v or "=" in k or "," in k for k, v in c.opts):
            continue
        n += 1
        output = rnd.choice([None, "out.ld", "o/u/t/{version}.ld", "out dir/s.ld"])
        omit = not c.emit_version
        argv_opts, raw = spell_options(c.opts, rnd)
        prior = rnd.choice(["absent", "existing-longer", "absent"])
        jobs.append([c, output, omit, argv_opts, prior, os.path.join(base, "j%d" % n), []])
        meta.append((c, output, omit, raw, prior))
    model = runmod.run_cli_model([("m%d" % i, c.doc, output, c.partial, raw, omit)
                                  for i, (c, output, omit, raw, prior) in enumerate(meta)])
    for i, j in enumerate(jobs):
        jm = model.get("m%d" % i)
        if jm and jm.get("ok"):
            j[6] = [p for p, _ in jm["writes"]]
    with ThreadPoolExecutor(max_workers=16) as ex:
        outs = list(ex.map(one, [tuple(j) for j in jobs]))
    shutil.rmtree(base, ignore_errors=True)
    # the library's in-memory exports for the same cases (files phase on), and the model's cli_run
    lib_cases = [run_case_with_files(c) for c, *_ in meta]
    impl = runmod.run_impl_only(lib_cases)
    for i, ((c, output, omit, raw, prior), o) in enumerate(zip(meta, outs)):
        res["evaluations"] += 1
        k = "cli:%s:%s:%s" % ("partial" if c.partial else "normal", "-o" if output else "stdout", prior)
        res["features"][k] = res["features"].get(k, 0) + 1
        ji = runmod.normalise(impl[lib_cases[i].cid])
        fails = []
        oc = props.outcome(ji)
        g = ji.get("gen", {}).get("ok") if oc[0] == "ok" else None
        lib_files = g.get("files") if g else None
        lib_ok = bool(g) and isinstance(lib_files, dict) and "ok" in lib_files
        o_missing = False
        if output and "{" in output:
            om = enc  # placeholder
        if o["rc"] == 0:
            if not g:
                fails.append("exit status 0 although the library reports %s" % (oc,))
            elif lib_ok:
                want = {os.path.normpath(p): t for p, t in lib_files["ok"]}
                script = want.pop("OUT.ld", None)
                tree = dict(o["tree"])
                if output:
                    # the -o path is escaped like every other path
                    cands = [p for p in tree if p not in want]
                    if len(cands) != 1:
                        fails.append("expected exactly one script file besides %s, found %s" % (sorted(want), sorted(cands)))
                    else:
                        if tree[cands[0]] != script:
                            fails.append("the file written to -o differs from export_linker_script_to_string")
                        tree.pop(cands[0])
                    if o["stdout"] != "":
                        fails.append("something was printed although -o was given")
                else:
                    exp = (g.get("joined") if c.partial else g["main"]["script"])
                    if o["stdout"] not in (exp, exp + "\n"):
                        fails.append("standard output is not the script (+ one line break)")
                if c.partial and not output:
                    want = {p: t for p, t in want.items() if not p.endswith(".ld")}
                if tree != want:
                    fails.append("files written %s differ from the library's exports %s"
                                 % (sorted(tree), sorted(want)))
        else:
            if g and lib_ok and (not output or "{" not in output):
                fails.append("exit status %d although the library succeeds" % o["rc"])
        jm = model.get("m%d" % i)
        os_refused = jm is not None and jm.get("ok") and \
            "err" in runmod.os_oracle({"ok": [list(w) for w in jm["writes"]]})
        # the model's cli_run against the real binary: this is the correspondence, not the property (which compares
        # the binary with the library above); a difference here alone is reported as a broken correspondence
        cfails = []
        if os_refused:
            # the model's writes include one the operating system refuses (empty path, file below a file)
            if o["rc"] == 0:
                cfails.append("exit status 0 although one of the predicted writes cannot be performed")
        elif jm is not None:
            if jm["ok"] != (o["rc"] == 0):
                cfails.append("model cli_run status %s, real exit status %d" % (jm["ok"], o["rc"]))
            elif jm["ok"]:
                mt = {}
                for p, t in jm["writes"]:
                    mt[os.path.normpath(p)] = t
                if mt != o["tree"]:
                    bad = sorted(k for k in set(mt) | set(o["tree"]) if mt.get(k) != o["tree"].get(k))
                    cfails.append("model cli_run writes %s, real tree %s (differing: %s)"
                                  % (sorted(mt), sorted(o["tree"]), bad[:4]))
                if jm["stdout"] != o["stdout"]:
                    cfails.append("model cli_run stdout differs from the real one")
        if fails or cfails:
            res["violations"].append({"case": c, "impl": None, "what": "; ".join((fails or cfails)[:3]),
                                      "correspondence": not fails,
                                      "cli": {"output": output, "omit_version_comment": omit, "options": raw,
                                              "prior_state": prior}})
    return res


def run_case_with_files(c):
    from . import run as R
    return R.Case(c.cid + "_lib", c.doc, c.opts, c.emit_version, c.partial, True)
