"""Link-level property monitors: predicates of the properties evaluated on the image GNU ld really built from
the implementation's script (symbols from nm, sections from readelf), with expectations computed from the
parsed document by vlib/docsem.py (independent of the script text)."""
from . import docsem, ldlink

M32 = docsem.M32


def monitors(case, ji, job, real, L):
    """-> dict property id -> list of failure strings (multi-segment ordinary scripts)"""
    out = {}

    def fail(pid, msg):
        out.setdefault(pid, []).append(msg)

    doc = ji["parse"]["ok"]
    st = doc["settings"]
    opts = case.opts
    syms = real["syms"]
    secs = {}
    for s in real["secs"]:
        secs.setdefault(s["name"], s)
    N = docsem.Names(st["linker_symbols_style"])
    placed = {}          # marker -> (addr, outsec) per LdSem, validated against the image by the correspondence
    for mk, addr, osn in L["placed"]:
        if mk:
            placed[mk] = (int(addr) % M32, osn)

    def S(name):
        return syms.get(name)

    def need(pid, name):
        v = syms.get(name)
        if v is None:
            fail(pid, "symbol %s is not defined in the image" % name)
        return v

    def triple(pid, start, end, size, check_order=True):
        a, b, c = need(pid, start), need(pid, end), need(pid, size)
        if None in (a, b, c):
            return
        if c % M32 != (b - a) % M32:
            fail(pid, "%s = 0x%x is not %s - %s = 0x%x" % (size, c, end, start, (b - a) % M32))
        if check_order and a > b:
            fail(pid, "%s = 0x%x exceeds %s = 0x%x" % (start, a, end, b))

    single = st["single_segment_mode"]
    segs = docsem.emitted_segments(doc, opts)
    classes = {}
    for c in doc["vram_classes"]:
        classes[c["name"]] = c

    # ---- C13: every declared name is defined
    g = ji["gen"]["ok"]["main"]
    for name in g.get("symbols", []):
        if name not in syms:
            fail("C13", "header declares %s, which the image does not define" % name)

    # ---- C18
    allow = list(st["sections_allowlist"]) + list(st["sections_allowlist_extra"])
    seg_outsecs = set()
    for sg in segs:
        if single:
            seg_outsecs.update(sg["alloc_sections"] + sg["noload_sections"])
        else:
            seg_outsecs.update(["." + sg["name"], "." + sg["name"] + ".noload"])
    for (path, member) in job["universe"].order:
        for isec in job["universe"].objects[(path, member)]:
            mk, nm = isec["marker"], isec["name"]
            if not mk:
                continue
            if mk in placed and placed[mk][1] in seg_outsecs:
                if mk not in syms:
                    fail("C18", "section %s of %s is placed by a segment but missing from the image" % (nm, path))
            elif nm in allow:
                if mk not in syms:
                    fail("C18", "allow-listed section %s of %s was not kept" % (nm, path))
                elif nm in secs and not (secs[nm]["vma"] <= syms[mk] <= secs[nm]["vma"] + secs[nm]["size"]):
                    fail("C18", "allow-listed section %s of %s is outside output section %s" % (nm, path, nm))
            elif nm in st["sections_denylist"] or st["discard_wildcard_section"]:
                if mk in syms:
                    fail("C18", "section %s of %s should have been discarded" % (nm, path))

    # ---- C17: _gp
    if st["hardcoded_gp_value"] is not None:
        v = S("_gp")
        if v is None:
            fail("C17", "_gp is not defined although hardcoded_gp_value is given")
        elif v != st["hardcoded_gp_value"] % M32:
            fail("C17", "_gp = 0x%x, hardcoded_gp_value = 0x%x" % (v, st["hardcoded_gp_value"]))
    gp_segs = [s for s in segs if s.get("gp_info") and docsem.included(s["gp_info"], opts)]
    if not single and len(gp_segs) == 1:
        s = gp_segs[0]
        gp = s["gp_info"]
        if (s["alloc_sections"] + s["noload_sections"]).count(gp["section"]) == 1 and not gp["provide"]:
            v, base = S("_gp"), S(N.sec_start(s["name"], gp["section"]))
            if v is None:
                fail("C17", "_gp is not defined although segment %s has an included gp_info" % s["name"])
            elif base is not None and v != (base + gp["offset"]) % M32:
                fail("C17", "_gp = 0x%x, expected start of %s%s (0x%x) + offset %d" %
                     (v, s["name"], gp["section"], base, gp["offset"]))
    if st["hardcoded_gp_value"] is None and not gp_segs and "_gp" in syms and \
            not any(a["name"] == "_gp" for a in doc["symbol_assignments"]):
        fail("C17", "_gp is defined although neither hardcoded_gp_value nor an included gp_info is given")

    if single:
        return out

    # ---- per segment, multi-segment scripts
    prev_end = 0
    prev_rom = 0
    emitted_names = [s["name"] for s in segs]
    class_members = {}
    for i, s in enumerate(segs):
        n = s["name"]
        secA, secN = secs.get("." + n), secs.get("." + n + ".noload")
        vs, ve = need("C05", N.vram_start(n)), need("C05", N.vram_end(n))
        rs, re = need("C05", N.rom_start(n)), need("C05", N.rom_end(n))
        if None in (vs, ve, rs, re):
            continue
        explicit = any(s[k] is not None for k in ("fixed_vram", "fixed_symbol", "follows_segment", "vram_class"))
        # C05
        triple("C05", N.vram_start(n), N.vram_end(n), N.vram_size(n))
        triple("C05", N.rom_start(n), N.rom_end(n), N.rom_size(n))
        # alloc-kind start precedes the output section: known finding KF-C05-alloc-start when the
        # segment has an explicit address
        triple("C05", N.vram_start(n + "_alloc"), N.vram_end(n + "_alloc"), N.vram_size(n + "_alloc"),
               check_order=not explicit)
        triple("C05", N.vram_start(n + "_noload"), N.vram_end(n + "_noload"), N.vram_size(n + "_noload"))
        both = s["alloc_sections"] + s["noload_sections"]
        symcount = {}
        for x in both:
            symcount[N.sec_start(n, x)] = symcount.get(N.sec_start(n, x), 0) + 1
        # a section listed twice, or two sections whose names convert to the same symbols (".text" and "text"
        # under makerom), define their symbols twice: no claim about which definition survives
        both = [x if symcount[N.sec_start(n, x)] == 1 else "\0dup" for x in both]
        both = both + ["\0dup", "\0dup"]
        for part, lst in (("", s["alloc_sections"]), (".noload", s["noload_sections"])):
            for x in lst:
                if both.count(x) != 1:
                    continue
                triple("C05", N.sec_start(n, x), N.sec_end(n, x), N.sec_size(n, x))
                a, b = S(N.sec_start(n, x)), S(N.sec_end(n, x))
                if a is not None and b is not None and not (vs <= a and b <= ve):
                    fail("C05", "group %s%s [0x%x,0x%x] is outside segment [0x%x,0x%x]" % (n, x, a, b, vs, ve))
        # C03
        if secA is not None and secA["size"] > 0 and vs != secA["vma"]:
            fail("C03", "%s = 0x%x but output section .%s is at 0x%x" % (N.vram_start(n), vs, n, secA["vma"]))
        if s["fixed_vram"] is not None:
            want = s["fixed_vram"] % M32
        elif s["fixed_symbol"] is not None:
            want = ldlink.DEFSYMS.get(s["fixed_symbol"])
        elif s["follows_segment"] is not None:
            want = S(N.vram_end(s["follows_segment"])) if s["follows_segment"] in emitted_names[:i] else None
        elif s["vram_class"] is not None:
            want = S(N.class_start(s["vram_class"]))
            class_members.setdefault(s["vram_class"], []).append(ve)
        else:
            a_nat = secA["align"] if secA is not None and secA["size"] > 0 else None
            want = None
            if a_nat is not None:
                want = docsem.align_up(docsem.align_up(prev_end, s["segment_start_align"]), a_nat)
        if want is not None and vs != want % M32:
            fail("C03", "segment %s starts at 0x%x, the document requests 0x%x" % (n, vs, want % M32))
        if secA is not None and secN is not None and secA["size"] > 0 and secN["size"] > 0 and \
                secN["vma"] < secA["vma"] + secA["size"]:
            fail("C03", "noload part of %s at 0x%x precedes the end of its alloc part" % (n, secN["vma"]))
        ne = S(N.vram_end(n + "_noload"))
        if ne is not None and ve != docsem.align_up(ne, s["segment_end_align"]) % M32:
            fail("C03", "%s = 0x%x is not the end of the noload part 0x%x rounded to %s" %
                 (N.vram_end(n), ve, ne, s["segment_end_align"]))
        # C04
        size_a = secA["size"] if secA is not None else 0
        if rs != docsem.align_up(prev_rom, s["segment_start_align"]) % M32:
            fail("C04", "%s = 0x%x, expected previous ROM end 0x%x rounded up to %s" %
                 (N.rom_start(n), rs, prev_rom, s["segment_start_align"]))
        if re != docsem.align_up(rs + size_a, s["segment_end_align"]) % M32:
            fail("C04", "%s = 0x%x, expected ROM start 0x%x + alloc size 0x%x rounded up to %s" %
                 (N.rom_end(n), re, rs, size_a, s["segment_end_align"]))
        if secA is not None and secA["contents"] and secA["lma"] is not None and secA["lma"] != rs:
            fail("C04", "load address of .%s is 0x%x, %s is 0x%x" % (n, secA["lma"], N.rom_start(n), rs))
        # (ld itself turns a NOBITS section into PROGBITS when its program-header packing needs it, with the
        #  warning "type changed to PROGBITS": that is the linker's segment layout, not the script)
        if secN is not None and secN["size"] > 0 and secN["contents"] and \
                ("`.%s.noload' type changed to PROGBITS" % n) not in real.get("log", ""):
            fail("C04", "noload part .%s.noload has file contents" % n)
        # C09
        sa, ea = s["segment_start_align"], s["segment_end_align"]
        if sa:
            if rs % sa:
                fail("C09", "%s = 0x%x is not a multiple of segment_start_align 0x%x" % (N.rom_start(n), rs, sa))
            a_nat = secA["align"] if secA is not None and secA["size"] > 0 else 1
            # (the default-placed start is then rounded to the contents' own alignment: both hold when one
            #  alignment divides the other - always for the powers of two the property quantifies over)
            if not explicit and (sa % a_nat == 0 or a_nat % sa == 0) and vs % sa:
                fail("C09", "%s = 0x%x is not a multiple of segment_start_align 0x%x" % (N.vram_start(n), vs, sa))
        if ea:
            if re % ea:
                fail("C09", "%s = 0x%x is not a multiple of segment_end_align 0x%x" % (N.rom_end(n), re, ea))
            if ve % ea:
                fail("C09", "%s = 0x%x is not a multiple of segment_end_align 0x%x" % (N.vram_end(n), ve, ea))
        for part, lst, sec in (("", s["alloc_sections"], secA), (".noload", s["noload_sections"], secN)):
            base = sec["vma"] if sec is not None and sec["size"] > 0 else None
            if base is None:
                continue
            for x in lst:
                if both.count(x) != 1:
                    continue
                for which, sym, al1, al2 in (("start", N.sec_start(n, x), s["section_start_align"],
                                              s["sections_start_alignment"].get(x)),
                                             ("end", N.sec_end(n, x), s["section_end_align"],
                                              s["sections_end_alignment"].get(x))):
                    v = S(sym)
                    if v is None:
                        continue
                    # both alignments hold when one divides the other (always for powers of two, the values the
                    # property quantifies over); otherwise the one applied last (the per-section entry) holds
                    compatible = not al1 or not al2 or al1 % al2 == 0 or al2 % al1 == 0
                    for al in ((al1, al2) if compatible else (al2,)):
                        if al and (v - base) % al:
                            fail("C09", "%s = 0x%x is not at a multiple of 0x%x from its part's start 0x%x" %
                                 (sym, v, al, base))
        if s["subalign"]:
            for mk, (addr, osn) in placed.items():
                if osn in ("." + n, "." + n + ".noload") and addr % s["subalign"]:
                    fail("C09", "input section %s at 0x%x is not aligned to subalign %d" % (mk, addr, s["subalign"]))
        # C01 / C02
        last = {}
        for mk, (addr, osn) in placed.items():
            if osn in ("." + n, "." + n + ".noload"):
                if mk not in syms:
                    fail("C01", "listed input section %s of segment %s is missing from the image" % (mk, n))
                elif not (vs <= syms[mk] <= ve):
                    fail("C01", "input section %s at 0x%x is outside segment %s [0x%x,0x%x]" %
                         (mk, syms[mk], n, vs, ve))
                if mk in syms:
                    if osn in last and syms[mk] < last[osn]:
                        fail("C02", "input section %s at 0x%x precedes the one placed before it (0x%x)" %
                             (mk, syms[mk], last[osn]))
                    last[osn] = syms[mk]
        if rs < prev_rom and i > 0:
            fail("C02", "ROM start of %s 0x%x is below the previous ROM end 0x%x" % (n, rs, prev_rom))
        prev_end = ve
        prev_rom = re

    # ---- C10
    for cn, ends in class_members.items():
        c = classes.get(cn)
        if c is None:
            continue
        a, b = need("C10", N.class_start(cn)), need("C10", N.class_end(cn))
        if None in (a, b):
            continue
        triple("C10", N.class_start(cn), N.class_end(cn), N.class_size(cn), check_order=False)
        if c["fixed_vram"] is not None and a != c["fixed_vram"] % M32:
            fail("C10", "%s = 0x%x, fixed_vram = 0x%x" % (N.class_start(cn), a, c["fixed_vram"]))
        if c["fixed_symbol"] is not None and c["fixed_symbol"] in ldlink.DEFSYMS and \
                a != ldlink.DEFSYMS[c["fixed_symbol"]]:
            fail("C10", "%s = 0x%x, fixed_symbol %s = 0x%x" % (N.class_start(cn), a, c["fixed_symbol"],
                                                               ldlink.DEFSYMS[c["fixed_symbol"]]))
        if b != max([0] + ends):
            fail("C10", "%s = 0x%x, largest member end = 0x%x" % (N.class_end(cn), b, max([0] + ends)))
    return out
