"""Load the repository's own YAML test documents as serial dicts (needs PyYAML; used to build the
committed corpus, not at check time)."""
from . import enc


def _conv(t, v):
    if v is None:
        return None
    if isinstance(v, str) and v in ("null", "~") and t != "str":
        return None
    if t in ("str", "!str"):
        return v if isinstance(v, str) else v
    if t in ("N", "Z"):
        return int(v, 0) if isinstance(v, str) else v
    if t == "bool":
        return v.lower() == "true" if isinstance(v, str) else v
    if t in ("kind", "style"):
        return v
    if t == "smap":
        return dict(v) if isinstance(v, dict) else v
    if t == "pairs":
        return [list(p) for p in v] if isinstance(v, list) else v
    if t == "nmap":
        return {k: int(x, 0) for k, x in v.items()} if isinstance(v, dict) else v
    if t == "lmap":
        return v
    if t == "keep":
        if isinstance(v, str):
            if v.lower() in ("true", "false"):
                return v.lower() == "true"
            return v
        return v
    if isinstance(t, tuple) and t[0] in ("list", "!list"):
        if not isinstance(v, list):
            return v
        if t[1] == "str":
            return v
        return [conv_record(t[1], x) for x in v]
    if isinstance(t, tuple) and t[0] == "rec":
        return conv_record(t[1], v)
    return v


def conv_record(schema, rec):
    if not isinstance(rec, dict):
        return rec
    types = {}
    for k, t in enc.SCHEMAS[schema]:
        if k == "@conds":
            for c in enc.CONDS:
                types[c] = "pairs"
        else:
            types[k] = t
    out = {}
    for k, v in rec.items():
        out[k] = _conv(types[k], v) if k in types else v
    return out


def load(path):
    import yaml
    raw = yaml.load(open(path), Loader=yaml.BaseLoader)
    return conv_record("document", raw)
