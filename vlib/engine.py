"""The check engine: build, proof audit, correspondence on the property's projection, monitors, verdict
and evidence (DESIGN.md 2.6)."""
import sys, os, json, time, subprocess, hashlib, random, re, glob, shutil, traceback

VERIF = os.path.dirname(os.path.dirname(os.path.abspath(__file__)))
BUILD = os.path.join(VERIF, "build")


def sh(cmd, **kw):
    return subprocess.run(cmd, stdout=subprocess.PIPE, stderr=subprocess.STDOUT, text=True, **kw)


def build_all():
    r = sh([os.path.join(VERIF, "tools", "build.sh"), "all"])
    return r.returncode == 0, r.stdout


FORBIDDEN = re.compile(r"\b(Admitted|admit|Axiom|Axioms|Parameter|Parameters|Conjecture|Unset Guard|bypass_check"
                       r"|type-in-type|impredicative-set)\b|^\s*(Variable|Hypothesis|Variables|Hypotheses)\b")
ALLOWED_AXIOMS = set()     # none needed so far; stdlib axioms would be listed here by name


def scan_forbidden():
    """declared axioms, admits, switched-off checks anywhere in the development; Variables/Hypotheses are
    allowed only inside a Section"""
    bad = []
    for path in sorted(glob.glob(os.path.join(VERIF, "coq", "**", "*.v"), recursive=True)):
        depth = 0
        text = open(path).read()
        text = re.sub(r"\(\*.*?\*\)", lambda m: " " * 0 + re.sub(r"[^\n]", " ", m.group(0)), text, flags=re.S)
        for n, line in enumerate(text.split("\n"), 1):
            if re.match(r"\s*Section\b", line):
                depth += 1
            if re.match(r"\s*End\b", line) and depth > 0:
                depth -= 1
            m = FORBIDDEN.search(line)
            if m:
                if m.group(2) and depth > 0:
                    continue
                bad.append("%s:%d: %s" % (os.path.relpath(path, VERIF), n, line.strip()))
    return bad


def property_files(pid):
    """Properties/Cxx.v plus complements such as Properties/CxxLink.v, Properties/CxxMore.v"""
    d = os.path.join(VERIF, "coq", "Properties")
    out = []
    for f in sorted(glob.glob(os.path.join(d, pid + "*.v"))):
        text = open(f).read()
        if re.search(r"^Theorem\s+\w+", text, flags=re.M):
            out.append(os.path.basename(f)[:-2])
    # document-level link corollaries shared by several properties (theorems are attributed by their name prefix)
    if pid in DOCLEVEL_OWNERS and os.path.exists(os.path.join(d, "DocLevel.v")):
        out.append("DocLevel")
    return out


DOCLEVEL_OWNERS = {"C03": ("C03_",), "C04": ("C04_", "DocLevel_"), "C05": ("C05_",), "C10": ("C10_",)}


def theorems_of(pid):
    out = []
    for m in property_files(pid):
        text = open(os.path.join(VERIF, "coq", "Properties", m + ".v")).read()
        names = re.findall(r"^Theorem\s+(\w+)", text, flags=re.M)
        if m == "DocLevel":
            names = [t for t in names if t.startswith(DOCLEVEL_OWNERS.get(pid, ()))]
        out.extend((m, t) for t in names)
    return out


def coqchk(pid):
    """thorough tier: re-check the compiled property modules (and everything they depend on) with Coq's independent
    checker -> (summary lines, broken reason or None)"""
    mods = ["Slinky.Properties.%s" % m for m in property_files(pid)]
    try:
        r = sh(["coqchk", "-o", "-silent", "-Q", os.path.join(VERIF, "coq"), "Slinky"] + mods,
               cwd=os.path.join(VERIF, "coq"), timeout=3000)
    except Exception as e:
        return [], None if "timeout" in str(e).lower() else "coqchk could not run: %s" % e
    out = r.stdout
    if r.returncode != 0:
        return [], "coqchk rejects the compiled development: " + out[-800:]
    summary = {}
    for key in ("Axioms", "Constants/Inductives relying on type-in-type",
                "Constants/Inductives relying on unsafe (co)fixpoints", "Inductives whose positivity is assumed"):
        m = re.search(r"\* %s:\s*(.*?)(?=\n\s*\n|\n\* |\Z)" % re.escape(key), out, flags=re.S)
        summary[key] = " ".join(m.group(1).split()) if m else "?"
    bad = [k for k, v in summary.items() if v != "<none>"]
    lines = ["%s: %s" % (k, v) for k, v in summary.items()]
    if bad:
        return lines, "coqchk reports " + "; ".join("%s: %s" % (k, summary[k]) for k in bad)
    return lines, None


def audit(pid):
    """-> (obligations, discharged, details, broken_reason)"""
    thms = theorems_of(pid)
    if not thms:
        return 0, 0, [], "no theorem in coq/Properties/%s*.v" % pid
    mods = property_files(pid)
    for m in mods:
        vo = os.path.join(VERIF, "coq", "Properties", m + ".vo")
        q = sh(["make", "-q", "Properties/%s.vo" % m], cwd=os.path.join(VERIF, "coq"))
        if q.returncode != 0 or not os.path.exists(vo):
            log = open(os.path.join(BUILD, "logs", "coq_make.log")).read()
            errs = re.findall(r"File \"[^\"]*\", line \d+.*?\n(?:.*\n){0,8}?Error:?.*(?:\n.*){0,6}", log)
            return len(thms), 0, [], "Properties/%s.vo does not build: %s" % (m, (errs[0] if errs else log[-1500:]))
    adir = os.path.join(BUILD, "audit")
    os.makedirs(adir, exist_ok=True)
    f = os.path.join(adir, pid + "_audit.v")
    with open(f, "w") as fh:
        for m in mods:
            fh.write("From Slinky Require Properties.%s.\n" % m)
        for m, t in thms:
            fh.write("Print Assumptions Slinky.Properties.%s.%s.\n" % (m, t))
    r = sh(["coqc", "-Q", os.path.join(VERIF, "coq"), "Slinky", f], cwd=adir, timeout=900)
    if r.returncode != 0:
        return len(thms), 0, [], "audit failed: " + r.stdout[-1500:]
    chunks = re.split(r"(?m)^(?=Closed under the global context|Axioms:)", r.stdout)
    chunks = [c for c in chunks if c.strip()]
    details = []
    ok = 0
    for (m, t), c in zip(thms, chunks):
        if c.startswith("Closed under the global context"):
            details.append((t, "closed"))
            ok += 1
        else:
            names = re.findall(r"(?m)^(\S+)\s*:", c[len("Axioms:"):])
            if all(n in ALLOWED_AXIOMS for n in names):
                details.append((t, "axioms: " + ", ".join(names)))
                ok += 1
            else:
                details.append((t, "UNEXPECTED axioms: " + ", ".join(names)))
    if len(chunks) != len(thms):
        return len(thms), ok, details, "audit output has %d blocks for %d theorems" % (len(chunks), len(thms))
    return len(thms), ok, details, None


def load_known():
    p = os.path.join(VERIF, "known_findings.json")
    if not os.path.exists(p):
        return {"findings": [], "fixed": []}
    return json.load(open(p))


def jhash(x):
    return hashlib.sha1(json.dumps(x, sort_keys=True, default=str).encode()).hexdigest()




# ---------------------------------------------------------------------------------------------------
# the check itself
# ---------------------------------------------------------------------------------------------------

TIER_CASES = {"quick": 1400, "thorough": 20000}

TRUSTED_BASE = [
    "Coq 8.16.1 kernel via coqc (full .vo build; vm_compute used, no native_compute)",
    "hand-written Gallina model coq/Model/*.v of slinky/src/*.rs and slinky-cli/src/main.rs; tied to /repo "
    "by tools/rs2v.py (literal tables regenerated into Model/Generated.v on every run) and by the differential "
    "correspondence check (extracted model vs the real library through harness/)",
    "extraction: ExtrOcamlBasic + ExtrOcamlString (ascii -> char, string -> char list; positive/N/Z/nat stay inductive; no other Extract Constant), OCaml 4.13.1 ocamlopt, driver/main.ml conversions; a slice of every run is re-evaluated by vm_compute inside coqc",
    "vlib/run.py os_oracle: which of the model's (path, text) writes the operating system performs (file exports)",
    "vlib/*.py: generator, YAML(JSON) rendering of serial documents, script reader, comparison",
    "serde/serde_yaml deserialisation, std::path, HashMap/IndexSet semantics: modelled, validated by the tie",
]


def crosscheck_extraction(pid, cases, raw_model_lines, k):
    """re-evaluate a slice of the cases with vm_compute inside coqc and compare with what the extracted
    OCaml program printed (keeps extraction and the OCaml glue honest) -> (n checked, error or None)"""
    from . import enc
    items = []
    for c in cases:
        if len(items) >= k:
            break
        exp = raw_model_lines.get(c.cid)
        if exp is None or c.raw_yaml is not None or len(exp) > 20000:
            continue
        try:
            items.append(enc.g_case(len(items), c.doc, c.opts, c.emit_version, c.partial, exp))
        except Exception:
            continue
    if not items:
        return 0, None
    adir = os.path.join(BUILD, "audit")
    os.makedirs(adir, exist_ok=True)
    f = os.path.join(adir, "cases_%s.v" % pid)
    with open(f, "w") as fh:
        fh.write("From Slinky Require Import Model.Types Model.Dump.\nFrom Coq Require Import String List.\n"
                 "Import ListNotations.\nLocal Open Scope string_scope.\n")
        fh.write("\n".join(items))
    r = sh(["bash", "-c", "ulimit -s unlimited 2>/dev/null; exec coqc -Q %s Slinky %s" % (os.path.join(VERIF, "coq"), f)],
           cwd=adir, timeout=900)
    if r.returncode != 0:
        if "Unable to unify" in r.stdout or "true = " in r.stdout or "false" in r.stdout:
            return len(items), "vm_compute evaluation of the model differs from the extracted program: " + r.stdout[-600:]
        raise RuntimeError("coqc could not evaluate the cross-check file: " + r.stdout[-300:])
    return len(items), None


def corpus_cases(pid, tier="quick"):
    from . import run
    out = []
    for d in ("common", pid) + (("big",) if tier == "thorough" else ()):
        for f in sorted(glob.glob(os.path.join(VERIF, "corpus", d, "*.json"))):
            j = json.load(open(f))
            items = j if isinstance(j, list) else [j]
            for k, it in enumerate(items):
                c = run.Case.from_json(it)
                c.cid = "corpus_%s_%s_%d" % (d, os.path.basename(f)[:-5].replace("-", "_").replace(".", "_"), k)
                out.append(c)
    return out


def generated_cases(pid, seed, n):
    from . import run, gen, props
    out = []
    prof = props.PROFILES.get(pid, {})
    for i in range(n):
        rnd = random.Random((seed * 1000003 + i) * 31 + int(pid[1:]))
        g = gen.Gen(rnd, prof)
        doc, opts, ev, partial = g.case_parts()
        what = None
        if pid in ("C16", "C19") and rnd.random() < 0.7 or rnd.random() < 0.05:
            doc, what = gen.malform(rnd, doc)
        files = pid in ("C07", "C12", "C15", "C20") and rnd.random() < 0.5 and safe_for_files(doc, opts)
        out.append(run.Case("g%d" % i, doc, opts, ev, partial, files, {"malform": what}))
    return out


def safe_for_files(doc, opts):
    """the file-writing half runs in a scratch directory: only when no output path can leave it"""
    st = doc.get("settings") or {}
    if not isinstance(st, dict):
        return False
    vals = [v for _, v in opts]
    for k in ("d_path", "symbols_header_path", "partial_scripts_folder"):
        p = st.get(k)
        if p is None:
            continue
        if not isinstance(p, str) or p.startswith("/") or ".." in p.split("/"):
            return False
    if any(v.startswith("/") or ".." in v.split("/") for v in vals):
        return False
    return True


def write_replay(pid, seed, n, payload):
    os.makedirs(os.path.join(VERIF, "replays"), exist_ok=True)
    p = os.path.join(VERIF, "replays", "%s-%d-%d.json" % (pid, seed, n))
    try:
        text = json.dumps(payload, indent=1, default=str)
    except RecursionError:
        # a hostile, very deeply nested case: keep the raw bytes only
        slim = dict(payload)
        for k in ("case", "original_case"):
            v = slim.get(k)
            if isinstance(v, dict) and v.get("raw_yaml_hex"):
                slim[k] = {"id": v.get("id"), "raw_yaml_hex": v["raw_yaml_hex"], "opts": v.get("opts"),
                           "partial": v.get("partial"), "emit_version": v.get("emit_version")}
            else:
                slim[k] = str(v)[:2000]
        text = json.dumps(slim, indent=1, default=str)
    with open(p, "w") as f:
        f.write(text)
    return p


def run_check(pid, tier, seed, replay=None, ncases=None):
    from . import run, props, monitors
    t0 = time.time()
    pid = pid.upper()
    os.makedirs(os.path.join(BUILD, "scratch"), exist_ok=True)
    if replay:
        return do_replay(pid, replay)
    violations = []          # (replay path, suffix)
    notes = []
    proof_broken = []
    ok_build, build_log = build_all()
    obligations, discharged, details, broken = audit(pid)
    forb = scan_forbidden()
    if not ok_build:
        notes.append("build problems: " + build_log[-800:])
        try:
            status = open(os.path.join(BUILD, "logs", "status.txt")).read()
        except Exception:
            status = ""
        for line in status.split("\n"):
            if line.startswith("rs2v FAILED"):
                proof_broken.append("translator obligation: tools/rs2v.py no longer recognises the Rust source it regenerates "
                                    "Model/Generated.v from (%s): the tables the theorems use are not those of /repo" % line)
            elif line.startswith(("harness FAILED", "extraction FAILED")) or (line.startswith("cli FAILED") and pid == "C20"):
                proof_broken.append("build: " + line)
    if broken:
        proof_broken.append(broken)
    if forb:
        proof_broken.append("forbidden declarations: " + "; ".join(forb[:5]))
    for t, d in details:
        if d.startswith("UNEXPECTED"):
            proof_broken.append("%s depends on %s" % (t, d))
    coqchk_lines = []
    if tier == "thorough":
        coqchk_lines, chk_broken = coqchk(pid)
        if chk_broken:
            proof_broken.append(chk_broken)
    extra_ob, extra_ok, extra_notes = monitors.static_obligations(pid)
    obligations += extra_ob
    discharged += extra_ok
    proof_broken.extend(extra_notes)

    driver_ok = os.path.exists(run.DRIVER) and os.path.exists(run.HARNESS)
    n = ncases if ncases is not None else TIER_CASES.get(tier, 400)
    n = int(n * monitors.CASE_SCALE.get(pid, 1.0))
    cases = corpus_cases(pid, tier) + generated_cases(pid, seed, n)
    known = [k for k in load_known().get("findings", []) if k["property"] == pid]
    stats = {"evaluations": 0, "outcomes": {}, "nontrivial_hashes": set(), "diffs": 0, "monitor_fail": 0, "outcome_mismatch": 0,
             "known_hits": {}, "features": {}}
    samples = []
    diff_cases = []
    fail_cases = []
    xcheck_n = 0
    if driver_ok:
        impl, model = run.run_cases(cases)
        try:
            xcheck_n, xerr = crosscheck_extraction(pid, [c for c in cases if c.cid.startswith("g")], run.LAST_MODEL_RAW,
                                                   6 if tier == "quick" else 60)
        except Exception as e:
            xerr = None
            notes.append("extraction cross-check could not run: %s" % e)
        if xerr:
            proof_broken.append(xerr)
        obs = props.OBS[pid]
        for c in cases:
            ji, jm = impl.get(c.cid, {"crash": "no result"}), model.get(c.cid)
            ji, jm = run.normalise(ji), run.normalise(jm) if jm is not None else None
            stats["evaluations"] += 1
            oc = props.outcome(ji)
            key = "%s:%s" % (oc[0], oc[1].split("(")[0])
            stats["outcomes"][key] = stats["outcomes"].get(key, 0) + 1
            for f in monitors.features(pid, c, ji):
                stats["features"][f] = stats["features"].get(f, 0) + 1
            oi = obs(ji, c)
            om = obs(jm, c) if jm is not None else None
            if monitors.nontrivial(pid, c, ji):
                stats["nontrivial_hashes"].add(jhash(monitors.coverage_key(pid, c, ji, oi)))
            if len(samples) < 3 and oc[0] == "ok" and monitors.nontrivial(pid, c, ji):
                samples.append({"id": c.cid, "yaml": json.dumps(c.doc)[:600], "options": c.opts,
                                "partial": c.partial, "observable": json.dumps(oi, default=str)[:400]})
            kf = monitors.known_class(pid, c, ji, known)
            fails = monitors.check(pid, c, ji)
            if kf is not None:
                stats["known_hits"][kf] = stats["known_hits"].get(kf, 0) + 1
                fails = [f for f in fails if not monitors.explained_by(pid, kf, f)]
            if fails:
                stats["monitor_fail"] += 1
                fail_cases.append((c, ji, jm, fails))
            if jm is not None and oi != om and kf is None:
                own = monitors.OUTCOME_OWNERS.get(pid)
                if props.outcome(ji) != props.outcome(jm) and not (own and own(props.outcome(ji), props.outcome(jm), c)):
                    # accepted / rejected / failed differently: whether a document is accepted and whether generation
                    # succeeds is the subject of the properties named in monitors.OUTCOME_OWNERS; this property speaks about the
                    # outputs of successful generations, and there is no pair of outputs to compare here (the
                    # monitors above still ran on the implementation's output, if any)
                    stats["outcome_mismatch"] += 1
                    continue
                stats["diffs"] += 1
                diff_cases.append((c, ji, jm, oi, om))
        if stats["outcome_mismatch"] * 10 > max(1, stats["evaluations"]):
            proof_broken.append("correspondence: the implementation accepts/rejects/fails differently from the model on %d of %d "
                                "cases; too few comparable outputs are left to tie the theorems of this property to /repo"
                                % (stats["outcome_mismatch"], stats["evaluations"]))
    else:
        proof_broken.append("model driver or harness missing: " + build_log[-600:])

    # extra, property-specific dynamic checks (determinism runs, real linker, CLI ...)
    extra = monitors.dynamic(pid, tier, seed, cases)
    dyn_payload = {}
    dyn_corr = []            # executed checks that compare the MODEL with the real thing: correspondence, not property
    for e in extra.get("violations", []):
        if e.get("correspondence"):
            dyn_corr.append(e)
            continue
        fail_cases.append((e["case"], e.get("impl"), None, [e["what"]]))
        dyn_payload[id(e["case"])] = {k: v for k, v in e.items() if k not in ("case", "impl", "what")}
    stats["features"].update(extra.get("features", {}))
    stats["evaluations"] += extra.get("evaluations", 0)
    if extra.get("proof_broken"):
        proof_broken.append(extra["proof_broken"])
    if extra.get("ld_model_mismatch"):
        notes.append("LdSem differs from GNU ld on %d linked cases (model of the linker, not of /repo): %s"
                     % (len(extra["ld_model_mismatch"]), json.dumps(extra["ld_model_mismatch"][:3], default=str)))

    # ---- verdict
    nrep = 0
    if fail_cases:
        c, ji, jm, fails = fail_cases[0]
        if id(c) in dyn_payload:
            c2 = c
        else:
            c2 = shrink_case(pid, c, lambda cc, j: bool(monitors.check(pid, cc, j)))
        nrep += 1
        p = write_replay(pid, seed, nrep, {"property": pid, "kind": "property-fails-on-input",
                                           "what": fails, "case": c2.to_json() if hasattr(c2, "to_json") else c2,
                                           "executed_check": dyn_payload.get(id(c)),
                                           "original_case": c.to_json() if hasattr(c, "to_json") else c,
                                           "n_failing_cases": len(fail_cases)})
        violations.append((p, ""))
    elif diff_cases:
        c, ji, jm, oi, om = diff_cases[0]
        functional = monitors.FUNCTIONAL.get(pid, False)
        c2 = shrink_case(pid, c, None)
        nrep += 1
        p = write_replay(pid, seed, nrep, {
            "property": pid,
            "kind": "implementation-differs-from-proved-model" if functional else "correspondence-broken",
            "what": "obs_%s of the implementation differs from the model's, for which the theorems of "
                    "coq/Properties/%s.v are proved" % (pid, pid),
            "diff_at": run.diff_paths(json.loads(json.dumps(oi, default=str)), json.loads(json.dumps(om, default=str)))[:10],
            "case": c2.to_json(), "original_case": c.to_json(), "n_differing_cases": len(diff_cases),
            "impl_obs": oi, "model_obs": om})
        violations.append((p, "" if functional else " no-failing-input-found"))
    elif dyn_corr:
        e = dyn_corr[0]
        nrep += 1
        c = e["case"]
        p = write_replay(pid, seed, nrep, {
            "property": pid, "kind": "correspondence-broken",
            "what": "executed correspondence (model against the real program) differs: %s; the theorems of "
                    "coq/Properties/%s.v are about the model" % (e["what"], pid),
            "case": c.to_json() if hasattr(c, "to_json") else c,
            "executed_check": {k: v for k, v in e.items() if k not in ("case", "impl", "what")},
            "n_differing_cases": len(dyn_corr)})
        violations.append((p, " no-failing-input-found"))
    elif proof_broken:
        nrep += 1
        p = write_replay(pid, seed, nrep, {"property": pid, "kind": "proof-obligation-broken",
                                           "what": proof_broken, "theorems": details})
        violations.append((p, " no-failing-input-found"))

    # ---- known findings: replay each witness
    for k in known:
        still = monitors.replay_known(pid, k)
        if still:
            print("KNOWN-FINDING: property=%s %s" % (pid, k["what"]))
        else:
            notes.append("known finding %s no longer reproduces" % k["id"])

    wall = time.time() - t0
    ev = {
        "property_id": pid, "tier": tier if tier in ("quick", "thorough") else "quick", "seed": seed,
        "level": "proof",
        "coverage": {
            "obligations": obligations, "discharged": discharged if not proof_broken else min(discharged, max(0, obligations - 1)),
            "checker_cmd": "tools/build.sh all (coq_makefile + make: coqc on coq/Properties/%s.v) && coqc build/audit/%s_audit.v (Print Assumptions)" % (pid, pid),
            "trusted_base": TRUSTED_BASE + monitors.EXTRA_TRUST.get(pid, []),
            "theorems": [{"name": t, "assumptions": d} for t, d in details],
            "evaluations": stats["evaluations"],
            "distinct_nontrivial": len(stats["nontrivial_hashes"]),
            "rule": monitors.RULES.get(pid, monitors.DEFAULT_RULE),
            "samples": samples or [{"note": "no successful non-trivial case in this run"}],
            "traces_validated_against_impl": stats["evaluations"],
            "extraction_crosscheck_cases": xcheck_n,
            "correspondence_differences": stats["diffs"],
            "outcome_mismatches_left_to_owning_properties": stats["outcome_mismatch"],
            "monitor_failures": stats["monitor_fail"],
            "known_finding_hits": stats["known_hits"],
            "outcome_distribution": stats["outcomes"],
            "feature_distribution": stats["features"],
            "exhaustive": False,
            "coqchk": coqchk_lines or "not run in this tier (thorough runs coqchk -o -silent on the property modules)",
        },
        "assumptions": monitors.ASSUMPTIONS.get(pid, []) + notes,
        "wall_s": round(wall, 2),
        "violations": len(violations),
    }
    os.makedirs(os.path.join(VERIF, "evidence"), exist_ok=True)
    with open(os.path.join(VERIF, "evidence", pid + ".json"), "w") as f:
        json.dump(ev, f, indent=1, default=str)
    for p, suffix in violations:
        print("VIOLATION property=%s replay=%s%s" % (pid, p, suffix))
    print("%s: %d/%d theorems, %d cases, %d distinct non-trivial, %d diffs, %d monitor failures, %.1fs"
          % (pid, discharged, obligations, stats["evaluations"], len(stats["nontrivial_hashes"]),
             stats["diffs"], stats["monitor_fail"], wall))
    return 1 if violations else 0


def shrink_case(pid, case, monitor_pred):
    """minimise the document while the case keeps failing (monitor) or keeps differing (projection)"""
    from . import run, props, shrink
    if not hasattr(case, "doc") or case.raw_yaml is not None:
        return case
    obs = props.OBS[pid]

    def still(doc):
        cc = run.Case("s", doc, case.opts, case.emit_version, case.partial, case.files)
        try:
            impl, model = run.run_cases([cc])
        except Exception:
            return False
        ji, jm = run.normalise(impl.get("s", {})), run.normalise(model.get("s"))
        if monitor_pred is not None:
            return monitor_pred(cc, ji)
        return jm is not None and obs(ji, cc) != obs(jm, cc)
    try:
        if not still(case.doc):
            return case
        d = shrink.shrink(case.doc, still, max_steps=150)
    except Exception:
        return case
    return run.Case(case.cid + "_min", d, case.opts, case.emit_version, case.partial, case.files, case.meta)


def do_replay(pid, path):
    from . import run, props, monitors
    build_all()
    j = json.load(open(path))
    cj = j.get("case")
    if not cj or "doc" not in cj:
        print("replay file carries no concrete case: %s" % j.get("what"))
        return 1
    c = run.Case.from_json(cj)
    impl, model = run.run_cases([c])
    ji, jm = run.normalise(impl[c.cid]), run.normalise(model.get(c.cid))
    obs = props.OBS[pid]
    fails = monitors.check(pid, c, ji)
    differs = jm is not None and obs(ji, c) != obs(jm, c)
    print(json.dumps({"monitor_failures": fails, "projection_differs": differs,
                      "impl_outcome": props.outcome(ji), "model_outcome": props.outcome(jm) if jm else None},
                     indent=1, default=str))
    if fails or differs:
        print("VIOLATION property=%s replay=%s" % (pid, path))
        return 1
    return 0
