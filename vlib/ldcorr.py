"""The ld correspondence (DESIGN.md 2.4 c) and the real-linker monitor: link the implementation's script with
GNU ld over a generated object universe, evaluate the extracted LdSem on the same script AST and universe, and
compare.  Also yields the real layout for the per-property link-level monitors."""
import os, random, shutil, tempfile, json
from concurrent.futures import ThreadPoolExecutor
from . import run, enc, ldlink, props
from . import scriptparse as sp

M32 = 2 ** 32
LINK_PROFILE = {"linkable": True, "missing_key": 0.0, "paths": 0.15, "partial": 0.0, "cond": 0.2}


def linkable_dirs():
    from . import gen
    return [d for d in gen.DIRS if d != ".." and all(ord(c) < 128 for c in d)]


def prepare(case, ji, seed):
    """-> (reason, None) when the case cannot be linked in a scratch directory, else (None, job)"""
    if props.outcome(ji)[0] != "ok":
        return "generation-failed", None
    g = ji["gen"]["ok"]
    text = g["main"]["script"]
    try:
        ast = sp.parse_script(text)
    except sp.ParseError as e:
        return "unparsed-script", None
    ins = ldlink.inputs_of(ast)
    if not ins:
        return "no-input-files", None
    if not all(ldlink.safe_path(p) and (m is None or ldlink.safe_path(m) or m == "*") for p, m, *_ in ins):
        return "unsafe-path", None
    kinds = {}
    for p, m, *_ in ins:
        kinds.setdefault(p, set()).add(m is not None)
    if any(len(v) > 1 for v in kinds.values()):
        return "path-both-object-and-archive", None
    if len(set(os.path.normpath(p) for p in kinds)) != len(kinds):
        return "one-file-under-two-spellings", None
    # a path that is a directory prefix of another cannot exist as a file
    allp = sorted(kinds)
    for a in allp:
        for b in allp:
            if a != b and b.startswith(a + "/"):
                return "path-is-prefix-of-another", None
    st = case.doc.get("settings") or {}
    rnd = random.Random(seed)
    wildcard = st.get("discard_wildcard_section", True) if isinstance(st, dict) else True
    deny = st.get("sections_denylist") if isinstance(st, dict) and isinstance(st.get("sections_denylist"), list) \
        else [".reginfo", ".MIPS.abiflags", ".MIPS.options", ".note.gnu.build-id", ".interp", ".eh_frame", ".got"]
    allow = []
    if isinstance(st, dict):
        allow = list(st.get("sections_allowlist") or []) + list(st.get("sections_allowlist_extra") or [])
    extras = [x for x in (list(deny[:2]) + [a for a in allow if a not in (".symtab", ".strtab", ".shstrtab")][:2])
              if ldlink.safe_path(x)]
    if wildcard:
        extras += [".mdebug_x", ".pdr_x"]
    u = ldlink.build_universe(rnd, [ast], extra_names=extras)
    return None, {"case": case, "text": text, "ast": ast, "universe": u,
                  "recorded": set(g["main"].get("symbols", []))}


def real_link(job, keep=False):
    root = tempfile.mkdtemp(prefix="lk_", dir=os.path.join(run.BUILD, "scratch"))
    try:
        ok, log, archives = ldlink.materialise(job["universe"], root)
        if not ok:
            return {"status": "asm-fail", "log": log[:500]}
        order = []
        for path, member in job["universe"].order:
            if path not in order:
                order.append(path)
        rc, out = ldlink.link(root, job["text"], archives, extra_args=["--no-check-sections"], file_order=order)
        res = {"status": "ok" if rc == 0 else "ld-fail", "log": out[:6000]}
        if rc == 0:
            syms, secs = ldlink.read_image(root)
            res["syms"] = syms
            res["secs"] = secs
            rc2, out2 = ldlink.lld_accepts(root)
            res["lld"] = {"rc": rc2, "log": out2[:600]}
        return res
    finally:
        if not keep:
            shutil.rmtree(root, ignore_errors=True)


def compare(job, real, L):
    """differences between the real image and the LdSem layout (empty list = equal on everything compared)"""
    diffs = []
    syms = real["syms"]
    for k, v in L["syms"].items():
        if k in L["provided"]:
            continue
        if k not in syms:
            diffs.append(["sym-missing", k])
        elif syms[k] % M32 != int(v) % M32:
            diffs.append(["sym", k, hex(syms[k]), hex(int(v) % M32)])
    for mk, addr, osn in L["placed"]:
        if mk == "":
            continue
        if mk not in syms:
            diffs.append(["marker-missing", mk, osn])
        elif syms[mk] % M32 != int(addr) % M32:
            diffs.append(["marker", mk, hex(syms[mk]), hex(int(addr) % M32), osn])
    for mk in L["discarded"]:
        if mk and mk in syms:
            diffs.append(["discarded-present", mk])
    sd = {}
    for s in real["secs"]:
        sd.setdefault(s["name"], s)
    for o in L["secs"]:
        if int(o["size"]) == 0:
            continue
        s = sd.get(o["name"])
        if not s:
            diffs.append(["sec-missing", o["name"]])
            continue
        if s["vma"] != int(o["vma"]) % M32 or s["size"] != int(o["size"]):
            diffs.append(["sec", o["name"], hex(s["vma"]), s["size"], hex(int(o["vma"]) % M32), o["size"]])
        if o["noload"] and s["contents"]:
            diffs.append(["noload-has-contents", o["name"]])
        if s["contents"] and o["lma"] is not None and s["lma"] is not None and s["lma"] != int(o["lma"]) % M32:
            diffs.append(["lma", o["name"], hex(s["lma"]), hex(int(o["lma"]) % M32)])
    return diffs


def classify_model_errors(L):
    kinds = set(e[0] for e in L["errors"])
    return kinds


def run_jobs(jobs):
    """-> list of result dicts: job, real, model, verdict in
       {equal, diff, both-fail, ld-fails-only, model-fails-only, unmodelled, roundtrip-fail, asm-fail}"""
    lines = [enc.sx_link(j["case"].cid, j["ast"], j["universe"], ldlink.DEFSYMS, j["recorded"]) for j in jobs]
    lay = run.run_link_model(lines)
    with ThreadPoolExecutor(max_workers=run.NPROC) as ex:
        reals = list(ex.map(real_link, jobs))
    out = []
    for j, real in zip(jobs, reals):
        L = lay.get(j["case"].cid)
        r = {"job": j, "real": real, "model": L}
        if L is None or L["render"] != j["text"]:
            r["verdict"] = "roundtrip-fail"
        elif real["status"] == "asm-fail":
            r["verdict"] = "asm-fail"
        else:
            kinds = classify_model_errors(L)
            unmodelled = bool(kinds & {"opaque", "irregular"}) or bool(L["orphans"])
            if real["status"] == "ld-fail":
                if kinds & {"forward", "undefined", "assert"}:
                    r["verdict"] = "both-fail"
                elif unmodelled:
                    r["verdict"] = "unmodelled"
                else:
                    r["verdict"] = "ld-fails-only"
            elif kinds & {"forward", "undefined", "assert"}:
                r["verdict"] = "unmodelled" if unmodelled else "model-fails-only"
            elif unmodelled:
                r["verdict"] = "unmodelled"
            else:
                r["diffs"] = compare(j, real, L)
                r["verdict"] = "diff" if r["diffs"] else "equal"
        out.append(r)
    return out


# ---------- C11: the two-step (partial) link, executed on samples ----------

def two_step(case, ji_normal, ji_partial, seed):
    """link the ordinary script in one step and the partial scripts in two steps over the same objects;
    -> (status, failures): every marker must end up in the same segment and in the same relative order"""
    why, job = prepare(case, ji_normal, seed)
    if why:
        return "skip:" + why, []
    if props.outcome(ji_partial)[0] != "ok":
        return "skip:partial-generation-failed", []
    gp = ji_partial["gen"]["ok"]
    main_text = gp["main"]["script"]
    try:
        main_ast = sp.parse_script(main_text)
    except sp.ParseError:
        return "skip:unparsed", []
    pobjs = [p for p, *_ in ldlink.inputs_of(main_ast)]
    if not pobjs or not all(ldlink.safe_path(p) for p in pobjs):
        return "skip:unsafe-partial-path", []
    # under wildcard_sections a pattern such as `.data*` of the main script also captures the partial object's
    # `.data.noinit`: section names that extend one another make the two links differ by construction
    for sg_ in ji_normal["parse"]["ok"]["segments"]:
        names_ = sg_["alloc_sections"] + sg_["noload_sections"]
        if sg_["wildcard_sections"] and any(a != b and b.startswith(a) for a in names_ for b in names_):
            return "skip:section-names-extend-one-another", []
    # a file listed in two segments (or one linker-offset name used by two) is defined by two partial objects:
    # the two-step link then fails by construction of partial linking, whatever slinky emits
    seen_files, seen_syms = {}, {}
    for name, w in gp.get("subs", []):
        try:
            sast = sp.parse_script(w["script"])
        except sp.ParseError:
            return "skip:unparsed", []
        for p_, m_, *_ in ldlink.inputs_of(sast):
            for (q_, n_), owner in seen_files.items():
                # the same object, or the same archive with overlapping members ("*" is every member)
                if owner != name and q_ == p_ and (m_ == n_ or m_ == "*" or n_ == "*"):
                    return "skip:file-listed-in-two-segments", []
            seen_files.setdefault((p_, m_), name)
        for s_, ctx in sp.walk(sast):
            if s_["k"] == "assign" and seen_syms.setdefault(s_["sym"], name) != name:
                return "skip:symbol-defined-by-two-partial-scripts", []
    root = tempfile.mkdtemp(prefix="lk2_", dir=os.path.join(run.BUILD, "scratch"))
    try:
        ok, log, archives = ldlink.materialise(job["universe"], root)
        if not ok:
            return "skip:asm-fail", []
        order = []
        for path, member in job["universe"].order:
            if path not in order:
                order.append(path)
        rc, out = ldlink.link(root, job["text"], archives, extra_args=["--no-check-sections"], file_order=order,
                              out="one.elf", script_name="one.ld")
        if rc != 0:
            return "skip:one-step-link-fails", []
        syms1, secs1 = ldlink.read_image(root, "one.elf")
        sect1 = ldlink.symbol_sections(root, "one.elf")
        # step 1: one relocatable object per segment
        subs = gp.get("subs", [])
        seen = sorted(set(pobjs), key=pobjs.index)
        if len(seen) != len(subs):
            return "skip:partial-objects-vs-subscripts", []
        for (name, w), pobj in zip(subs, seen):
            os.makedirs(os.path.dirname(os.path.join(root, pobj)) or root, exist_ok=True)
            with open(os.path.join(root, "sub_%s.ld" % name), "w") as f:
                f.write(w["script"])
            cmd = ["ld", "-m", "elf_i386", "-r", "-o", pobj]
            try:
                mine = []
                for p_, *_ in ldlink.inputs_of(sp.parse_script(w["script"])):
                    if p_ not in mine:
                        mine.append(p_)
            except sp.ParseError:
                return "skip:unparsed", []
            for f_ in mine:
                if f_ in archives:
                    cmd.extend(["--whole-archive", f_, "--no-whole-archive"])
                else:
                    cmd.append(f_)
            cmd.extend(["-T", "sub_%s.ld" % name])
            rc, out = ldlink._run(cmd, root)
            if rc != 0 and "no input files" in out:
                return "skip:segment-without-input-files", []
            if rc != 0:
                return "fail", ["relocatable link of the partial script of segment %s fails: %s" % (name, out[:300])]
        # step 2: the main script over the partial objects
        rc, out = ldlink.link(root, main_text, {}, extra_args=["--no-check-sections"], file_order=[],
                              out="two.elf", script_name="main.ld")
        if rc != 0:
            return "fail", ["final link of the main partial script fails: %s" % out[:300]]
        syms2, secs2 = ldlink.read_image(root, "two.elf")
        sect2 = ldlink.symbol_sections(root, "two.elf")
    finally:
        shutil.rmtree(root, ignore_errors=True)
    fails = []
    # (common symbols stay unallocated in a relocatable link and GNU ld allocates the commons of one file in an
    #  order of its own: they are compared for their output section only, not for relative order)
    markers = [s["marker"] for k in job["universe"].order for s in job["universe"].objects[k]
               if s["marker"] and s["size"] > 0]      # (the symbol of an empty section has no section of its own)
    commons = set(s["marker"] for k in job["universe"].order for s in job["universe"].objects[k] if s["name"] == "COMMON")
    per1, per2 = {}, {}
    for m in markers:
        if m in commons:
            continue
        a1, a2 = syms1.get(m), syms2.get(m)
        if (a1 is None) != (a2 is None):
            fails.append("input section %s is %s in the one-step link but %s in the two-step link"
                         % (m, "kept" if a1 is not None else "dropped", "kept" if a2 is not None else "dropped"))
            continue
        if a1 is None:
            continue
        s1, s2 = sect1.get(m), sect2.get(m)
        if s1 != s2:
            fails.append("input section %s lies in output section %s after the one-step link and in %s after the "
                         "two-step link" % (m, s1, s2))
            continue
        if m in commons:
            continue
        per1.setdefault(s1, []).append((a1, m))
        per2.setdefault(s1, []).append((a2, m))
    for sname in per1:
        r1 = {m: a for a, m in per1[sname]}
        r2 = {m: a for a, m in per2[sname]}
        ms = sorted(r1, key=lambda m: r1[m])
        for i in range(len(ms)):
            for k in range(i + 1, len(ms)):
                x, y = ms[i], ms[k]
                if r1[x] < r1[y] and r2[x] > r2[y]:
                    fails.append("output section %s: %s precedes %s in the one-step link but follows it in the "
                                 "two-step link" % (sname, x, y))
                    break
            if fails:
                break
    return ("fail" if fails else "ok"), fails[:4]
