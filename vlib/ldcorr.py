"""The ld correspondence (DESIGN.md 2.4 c) and the real-linker monitor: link the implementation's script with
GNU ld over a generated object universe, evaluate the extracted LdSem on the same script AST and universe, and
compare.  Also yields the real layout for the per-property link-level monitors."""
import os, random, shutil, tempfile, json
from concurrent.futures import ThreadPoolExecutor
from . import run, enc, ldlink, props
from . import scriptparse as sp

M32 = 2 ** 32
LINK_PROFILE = {"linkable": True, "missing_key": 0.0, "paths": 0.15, "partial": 0.0, "cond": 0.2}


def linkable_dirs():
    from . import gen
    return [d for d in gen.DIRS if d != ".."]


def prepare(case, ji, seed):
    """-> (reason, None) when the case cannot be linked in a scratch directory, else (None, job)"""
    if props.outcome(ji)[0] != "ok":
        return "generation-failed", None
    g = ji["gen"]["ok"]
    text = g["main"]["script"]
    try:
        ast = sp.parse_script(text)
    except sp.ParseError as e:
        return "unparsed-script", None
    ins = ldlink.inputs_of(ast)
    if not ins:
        return "no-input-files", None
    if not all(ldlink.safe_path(p) and (m is None or ldlink.safe_path(m) or m == "*") for p, m, *_ in ins):
        return "unsafe-path", None
    kinds = {}
    for p, m, *_ in ins:
        kinds.setdefault(p, set()).add(m is not None)
    if any(len(v) > 1 for v in kinds.values()):
        return "path-both-object-and-archive", None
    # a path that is a directory prefix of another cannot exist as a file
    allp = sorted(kinds)
    for a in allp:
        for b in allp:
            if a != b and b.startswith(a + "/"):
                return "path-is-prefix-of-another", None
    st = case.doc.get("settings") or {}
    rnd = random.Random(seed)
    wildcard = st.get("discard_wildcard_section", True) if isinstance(st, dict) else True
    deny = st.get("sections_denylist") if isinstance(st, dict) and isinstance(st.get("sections_denylist"), list) \
        else [".reginfo", ".MIPS.abiflags", ".MIPS.options", ".note.gnu.build-id", ".interp", ".eh_frame", ".got"]
    allow = []
    if isinstance(st, dict):
        allow = list(st.get("sections_allowlist") or []) + list(st.get("sections_allowlist_extra") or [])
    extras = [x for x in (list(deny[:2]) + [a for a in allow if a not in (".symtab", ".strtab", ".shstrtab")][:2])
              if ldlink.safe_path(x)]
    if wildcard:
        extras += [".mdebug_x", ".pdr_x"]
    u = ldlink.build_universe(rnd, [ast], extra_names=extras)
    return None, {"case": case, "text": text, "ast": ast, "universe": u,
                  "recorded": set(g["main"].get("symbols", []))}


def real_link(job, keep=False):
    root = tempfile.mkdtemp(prefix="lk_", dir=os.path.join(run.BUILD, "scratch"))
    try:
        ok, log, archives = ldlink.materialise(job["universe"], root)
        if not ok:
            return {"status": "asm-fail", "log": log[:500]}
        order = []
        for path, member in job["universe"].order:
            if path not in order:
                order.append(path)
        rc, out = ldlink.link(root, job["text"], archives, extra_args=["--no-check-sections"], file_order=order)
        res = {"status": "ok" if rc == 0 else "ld-fail", "log": out[:6000]}
        if rc == 0:
            syms, secs = ldlink.read_image(root)
            res["syms"] = syms
            res["secs"] = secs
            rc2, out2 = ldlink.lld_accepts(root)
            res["lld"] = {"rc": rc2, "log": out2[:600]}
        return res
    finally:
        if not keep:
            shutil.rmtree(root, ignore_errors=True)


def compare(job, real, L):
    """differences between the real image and the LdSem layout (empty list = equal on everything compared)"""
    diffs = []
    syms = real["syms"]
    for k, v in L["syms"].items():
        if k in L["provided"]:
            continue
        if k not in syms:
            diffs.append(["sym-missing", k])
        elif syms[k] % M32 != int(v) % M32:
            diffs.append(["sym", k, hex(syms[k]), hex(int(v) % M32)])
    for mk, addr, osn in L["placed"]:
        if mk == "":
            continue
        if mk not in syms:
            diffs.append(["marker-missing", mk, osn])
        elif syms[mk] % M32 != int(addr) % M32:
            diffs.append(["marker", mk, hex(syms[mk]), hex(int(addr) % M32), osn])
    for mk in L["discarded"]:
        if mk and mk in syms:
            diffs.append(["discarded-present", mk])
    sd = {}
    for s in real["secs"]:
        sd.setdefault(s["name"], s)
    for o in L["secs"]:
        if int(o["size"]) == 0:
            continue
        s = sd.get(o["name"])
        if not s:
            diffs.append(["sec-missing", o["name"]])
            continue
        if s["vma"] != int(o["vma"]) % M32 or s["size"] != int(o["size"]):
            diffs.append(["sec", o["name"], hex(s["vma"]), s["size"], hex(int(o["vma"]) % M32), o["size"]])
        if o["noload"] and s["contents"]:
            diffs.append(["noload-has-contents", o["name"]])
        if s["contents"] and o["lma"] is not None and s["lma"] is not None and s["lma"] != int(o["lma"]) % M32:
            diffs.append(["lma", o["name"], hex(s["lma"]), hex(int(o["lma"]) % M32)])
    return diffs


def classify_model_errors(L):
    kinds = set(e[0] for e in L["errors"])
    return kinds


def run_jobs(jobs):
    """-> list of result dicts: job, real, model, verdict in
       {equal, diff, both-fail, ld-fails-only, model-fails-only, unmodelled, roundtrip-fail, asm-fail}"""
    lines = [enc.sx_link(j["case"].cid, j["ast"], j["universe"], ldlink.DEFSYMS, j["recorded"]) for j in jobs]
    lay = run.run_link_model(lines)
    with ThreadPoolExecutor(max_workers=run.NPROC) as ex:
        reals = list(ex.map(real_link, jobs))
    out = []
    for j, real in zip(jobs, reals):
        L = lay.get(j["case"].cid)
        r = {"job": j, "real": real, "model": L}
        if L is None or L["render"] != j["text"]:
            r["verdict"] = "roundtrip-fail"
        elif real["status"] == "asm-fail":
            r["verdict"] = "asm-fail"
        else:
            kinds = classify_model_errors(L)
            unmodelled = bool(kinds & {"opaque", "irregular"}) or bool(L["orphans"])
            if real["status"] == "ld-fail":
                if kinds & {"forward", "undefined", "assert"}:
                    r["verdict"] = "both-fail"
                elif unmodelled:
                    r["verdict"] = "unmodelled"
                else:
                    r["verdict"] = "ld-fails-only"
            elif kinds & {"forward", "undefined", "assert"}:
                r["verdict"] = "unmodelled" if unmodelled else "model-fails-only"
            elif unmodelled:
                r["verdict"] = "unmodelled"
            else:
                r["diffs"] = compare(j, real, L)
                r["verdict"] = "diff" if r["diffs"] else "equal"
        out.append(r)
    return out
