"""Seeded, structured generator of serial documents, option maps and modes (DESIGN.md 2.7).

Everything is derived from one random.Random(seed); a case is reproducible from (seed, index, profile).
A profile is a dict of bias knobs; the per-property checks use different profiles so that the feature a
property talks about is exercised densely.
"""
import random, copy

OPT_KEYS = ["version", "region", "compiler", "modding", "k1"]
OPT_VALS = ["us", "jp", "eu", "gcc", "kmc", "true", "x/y", "", "{region}_v"]
SEG_NAMES = ["boot", "main", "code", "ovl1", "ovl2", "battle", "world", "lib", "seg_a", "Seg9", "_x", "assets"]
ALLOC_POOL = [".text", ".data", ".rodata", ".sdata", ".rdata", ".late_rodata", ".ctors", "mytext", ".init", "rodata",
              "text", ".data.rel"]
NOLOAD_POOL = [".sbss", ".scommon", ".bss", "COMMON", ".noload2", "mybss", ".data.noinit"]
SUB_POOL = [".rdata", ".late_rodata", ".text.hot", ".data.rel", ".sdata2", ".bss.extra", "sub1", "sub2"]
DIRS = ["src", "build", "lib", "asm", "a.b", "x", "{version}", "{region}", "v_{version}", "{version}_{region}",
        "pre{compiler}post", "{version}{region}", "..", ".", "gen}_{tmp", "m\u00fasica", "\u00f1_{version}", "{version}_\u00e9t\u00e9"]
FILES = ["main.o", "boot.o", "util.o", "libc.a", "libgcc.a", "data.bin", "noext", "f{version}.o",
         "{compiler}.a", "x.y.o", "entry.o", "dma.o", "rsp.o"]
SYMS = ["sym_a", "entrypoint", "_start", "Vine1Base", "gFoo", "D_80000000", "bar"]
CLASS_NAMES = ["clsA", "clsB", "clsC", "overlay", "heap", "overlay_common"]
HEADER_TYPES = ["char", "u8", "unsigned int"]


class Gen:
    def __init__(self, rnd, profile=None):
        self.r = rnd
        self.p = {"missing_key": 0.03, "cond": 0.25, "keep": 0.2, "override": 0.2, "classes": 0.4,
                  "section_order": 0.2, "subgroups": 0.25, "group": 0.25, "toplevel": 0.5,
                  "custom_lists": 0.3, "paths": 0.3, "settings": 0.15, "single": 0.12, "partial": 0.3,
                  "align": 0.3, "gp": 0.2, "max_segments": 5, "max_files": 5, "max_depth": 3,
                  "dup_opts": 0.1, "makerom": 0.3, "tail": 0.3, "dpath": 0.4, "header": 0.3, "linkable": False,
                  "addr_class": 0.2, "class_keep": 0.2, "cross_pool": 0.12, "eq_vals": 0.0}
        if profile:
            self.p.update(profile)

    # ---- primitives
    def chance(self, k):
        return self.r.random() < self.p[k]

    def pick(self, l):
        return l[self.r.randrange(len(l))]

    def subset(self, l, lo=0, hi=None):
        hi = len(l) if hi is None else min(hi, len(l))
        n = self.r.randint(lo, hi)
        return self.r.sample(l, n)

    def pow2(self):
        return self.pick([1, 2, 4, 8, 0x10, 0x20, 0x40, 0x1000])

    def align_value(self):
        # GNU ld's ALIGN(x, n) accepts any n; SUBALIGN wants a power of two
        if self.r.random() < 0.12:
            return self.pick([3, 6, 0xC, 0x18, 0x30, 100])
        return self.pow2()

    # ---- options
    def options(self):
        if self.r.random() < 0.07:
            return []                                  # the empty option set
        keys = [k for k in OPT_KEYS if self.r.random() < 0.85]
        self.r.shuffle(keys)
        if self.r.random() < 0.15:
            keys = keys[:self.r.randint(1, 2)]         # a small option set (fewer options than a condition list has pairs)
        opts = [(k, self.pick(OPT_VALS + (["opt=0", "a=b=c"] if self.chance("eq_vals") else []))) for k in keys]
        if opts and self.chance("dup_opts"):
            k = self.pick(keys)
            opts.insert(self.r.randrange(len(opts) + 1), (k, self.pick(OPT_VALS)))
        return opts

    def cond_pairs(self):
        l = [[self.pick(OPT_KEYS), self.pick(OPT_VALS[:5])] for _ in range(self.r.randint(1, 3))]
        cur = getattr(self, "cur_opts", None)
        if cur and self.r.random() < 0.35:
            # pairs that hold under the option set this case will run with (so that *_if_all lists do match)
            l = [list(self.pick(cur)) for _ in range(self.r.randint(1, 3))]
            if self.r.random() < 0.3:
                l.insert(self.r.randrange(len(l) + 1), [self.pick(OPT_KEYS), self.pick(OPT_VALS[:5])])
        if self.r.random() < 0.15:
            l.insert(self.r.randrange(len(l) + 1), list(self.pick(l)))      # the same pair twice
        return l

    def conds(self, rec):
        if self.chance("cond"):
            for c in self.subset(["include_if_any", "include_if_all", "exclude_if_any", "exclude_if_all"], 1, 3):
                rec[c] = self.cond_pairs()

    def keep(self, rec, sections):
        if self.chance("keep"):
            k = self.r.randrange(3)
            rec["keep_sections"] = True if k == 0 else False if k == 1 else self.subset(sections + SUB_POOL[:3], 0, 3)

    def path(self, last_pool, depth_hi=2):
        comps = []
        pool = DIRS if self.chance("paths") else DIRS[:6]
        for _ in range(self.r.randint(0, depth_hi)):
            comps.append(self.pick(pool))
        if last_pool is not None:
            lp = last_pool if self.chance("paths") else [x for x in last_pool if "{" not in x] or last_pool
            comps.append(self.pick(lp))
        p = "/".join(comps)
        if self.chance("missing_key") and self.r.random() < 0.3:
            p = p + "/{nokey}" if p else "{nokey}"
        return p

    # ---- files
    def file_entry(self, sections, depth):
        r = self.r.random()
        rec = {}
        if depth < self.p["max_depth"] and r < self.p["group"]:
            rec["kind"] = "group"
            if self.r.random() < 0.7:
                rec["dir"] = self.path(None, 2)
            rec["files"] = [self.file_entry(sections, depth + 1) for _ in range(self.r.randint(1, 3))]
        elif r < self.p["group"] + 0.08:
            rec["kind"] = "pad"
            rec["pad_amount"] = self.pick([0, 4, 0x10, 0x100] + ([] if self.p["linkable"] else [0xFFFFFFFF]))
            rec["section"] = self.pick(sections + [".nosuch"] + SUB_POOL[:4])
        elif r < self.p["group"] + 0.16:
            rec["kind"] = "linker_offset"
            rec["linker_offset_name"] = self.pick(["off_a", "off_b", "mid", "x"])
            rec["section"] = self.pick(sections + [".nosuch"] + SUB_POOL[:4])
        else:
            rec["path"] = self.path(FILES, 1)
            k = self.r.random()
            if k < 0.15:
                rec["kind"] = "object"
            elif k < 0.3:
                rec["kind"] = "archive"
            kind = rec.get("kind") or ("archive" if rec["path"].endswith(".a") else "object")
            if kind == "archive" and self.r.random() < 0.5:
                rec["subfile"] = self.pick(["mem.o", "str.o", "*"] + ([] if self.p["linkable"] else ["a b"]))
            if self.chance("section_order"):
                n = self.r.randint(1, 4)
                keys = self.subset(sections + SUB_POOL[:2], 1, n)
                rec["section_order"] = {k: self.pick(sections + [".nosuch"] if self.r.random() < 0.1 else sections)
                                        for k in keys}
        self.conds(rec)
        self.keep(rec, sections)
        return rec

    # ---- segments
    def segment(self, name, all_names, classes, gsettings):
        s = {"name": name}
        alloc = gsettings.get("alloc_sections", [".text", ".data", ".rodata", ".sdata"])
        noload = gsettings.get("noload_sections", [".sbss", ".scommon", ".bss", "COMMON"])
        if self.chance("custom_lists"):
            alloc = self.subset(ALLOC_POOL, 0, 4)
            s["alloc_sections"] = alloc
        if self.chance("custom_lists"):
            noload = self.subset(NOLOAD_POOL, 0, 3)
            s["noload_sections"] = noload
        alloc = alloc or []
        noload = noload or []
        sections = list(alloc) + list(noload)
        if not sections:
            sections = [".text"]
        s["files"] = [self.file_entry(sections, 0) for _ in range(self.r.randint(1, self.p["max_files"]))]
        a = self.r.random()
        if classes and self.r.random() < self.p["addr_class"]:
            a = 0.6
        if a < 0.3:
            s["fixed_vram"] = self.pick([0x80000400, 0x80000460, 0x05000000, 0] +
                                        ([0x80200000] if self.p["linkable"] else [0xFFFFFFF0]))
        elif a < 0.4:
            s["fixed_symbol"] = self.pick(SYMS)
        elif a < 0.55 and len(all_names) > 1:
            earlier = all_names[:all_names.index(name)]
            if self.p["linkable"] and self.r.random() < 0.9:
                if earlier:
                    s["follows_segment"] = self.pick(earlier)
            else:
                s["follows_segment"] = self.pick([n for n in all_names if n != name] or all_names)
        elif a < 0.75:
            if classes:
                s["vram_class"] = self.pick(classes)
        elif a < 0.76:
            s["vram_class"] = "undeclared"
        if self.r.random() < 0.3:
            s["dir"] = self.path(None, 2)
        if self.chance("gp") and "hardcoded_gp_value" not in gsettings:
            gp = {}
            if self.r.random() < 0.6 or ".sdata" not in sections:
                gp["section"] = self.pick(sections) if self.r.random() < 0.97 else ".nosuch"
            if self.r.random() < 0.6:
                gp["offset"] = self.pick([0x7FF0, 0, -16, -0x8000, 0x10, 2147483647, -2147483648])
            for f in ("provide", "hidden"):
                if self.r.random() < 0.3:
                    gp[f] = self.r.random() < 0.5
            self.conds(gp)
            s["gp_info"] = gp
        self.conds(s)
        if self.chance("override"):
            self.overridable(s, sections, seg_level=True)
        self.keep(s, sections)
        sgm = s.get("sections_subgroups", gsettings.get("sections_subgroups"))
        if isinstance(sgm, dict) and sgm and self.r.random() < 0.35:
            # a pad / linker offset that sits in a sub-group member (preferably one of depth two or more), listed
            # directly on the segment or inside its first group
            members = [m for v in sgm.values() for m in (v or [])]
            deep = [m for k in members for m in (sgm.get(k) or [])]
            if members:
                e = {"kind": self.pick(["pad", "linker_offset"]), "section": self.pick(deep or members)}
                if e["kind"] == "pad":
                    e["pad_amount"] = self.pick([4, 0x10, 0x100])
                else:
                    e["linker_offset_name"] = self.pick(["deep_a", "deep_b"])
                groups = [f for f in s["files"] if f.get("kind") == "group"]
                tgt = groups[0]["files"] if groups and self.r.random() < 0.3 else s["files"]
                tgt.insert(self.r.randrange(len(tgt) + 1), e)
        return s

    def overridable(self, rec, sections, seg_level):
        """the per-segment overridable options other than the two section lists"""
        def maybe_null(v):
            return None if self.r.random() < 0.15 else v
        gs_ = getattr(self, "cur_settings", None) or {}
        for f in ("subalign", "segment_start_align", "segment_end_align", "section_start_align",
                  "section_end_align"):
            if self.chance("align"):
                rec[f] = maybe_null(self.pow2() if f == "subalign" else self.align_value())
            elif seg_level and gs_.get(f) is not None and self.r.random() < 0.3:
                rec[f] = None                  # an explicit null that shields the segment from the global value
        for f in ("sections_start_alignment", "sections_end_alignment"):
            if self.chance("align"):
                rec[f] = {k: self.align_value() for k in self.subset(sections + [".nosuch"], 0, 3)}
        if self.r.random() < 0.2:
            rec["wildcard_sections"] = self.r.random() < 0.5
        if self.r.random() < 0.25:
            rec["fill_value"] = maybe_null(self.pick([0, 0xA5A5A5A5, 0xFF, 0xFFFFFFFF]))
        if self.chance("subgroups"):
            keys = self.subset(sections, 1, 2)
            sg = {k: self.subset(SUB_POOL, 1, 2) for k in keys}
            if self.r.random() < 0.1 and len(sections) > 1:
                # a listed section that is also somebody's sub-group member
                k0 = self.pick(list(sg))
                others = [x for x in sections if x != k0]
                other = self.pick(others) if others else None
                if other is not None and other not in sg:
                    sg[k0] = sg[k0] + [other]
            if self.r.random() < 0.35:
                # a sub-group member that has sub-groups of its own (nesting depth two and more)
                members = [m for v in sg.values() for m in v]
                parent = self.pick(members)
                kids = [x for x in SUB_POOL if x not in members and x not in sg][:3]
                if kids and parent not in sg:
                    sg[parent] = self.subset(kids, 1, 2)
            if self.r.random() < 0.08:
                sg = {}                      # an explicitly empty map (shields from the global one)
            rec["sections_subgroups"] = sg

    def settings(self):
        st = {}
        if self.r.random() < 0.7:
            st["base_path"] = self.path(None, 2)
        if self.chance("makerom"):
            st["linker_symbols_style"] = "makerom"
        elif self.r.random() < 0.1:
            st["linker_symbols_style"] = "splat"
        if self.chance("gp") and self.r.random() < 0.5:
            st["hardcoded_gp_value"] = self.pick([0x800E4090, 0, 0xFFFFFFFF])
        if self.chance("dpath"):
            st["d_path"] = self.path(["out.d", "{version}.d"], 1)
            st["target_path"] = self.path(["rom.elf", "{version}.elf"], 1)
        elif self.r.random() < 0.1:
            st["target_path"] = self.path(["rom.elf"], 1)
        if self.chance("header"):
            st["symbols_header_path"] = self.path(["syms.h", "{version}.h"], 1)
            if self.r.random() < 0.4:
                st["symbols_header_type"] = self.pick(HEADER_TYPES)
            if self.r.random() < 0.4:
                st["symbols_header_as_array"] = self.r.random() < 0.5
        if self.chance("tail"):
            if self.r.random() < 0.5:
                st["sections_allowlist"] = self.subset([".shstrtab", ".mdebug", ".note", "mysec", ".ctors", ".init", ".reginfo",
                                                        ".got", ".bss", ".mdebug.abi32", ".symtab_shndx"], 0, 3)
            if self.r.random() < 0.5:
                st["sections_allowlist_extra"] = self.subset([".symtab", ".strtab", ".comment", ".mdebug", ".note"], 0, 2)
            if self.r.random() < 0.5:
                st["sections_denylist"] = self.subset([".reginfo", ".got", ".pdr", ".eh_frame"], 0, 3)
            if self.r.random() < 0.5:
                st["discard_wildcard_section"] = self.r.random() < 0.5
        if self.chance("partial"):
            st["partial_scripts_folder"] = self.path(["scripts", "ld_{version}"], 1)
            st["partial_build_segments_folder"] = self.path(["segments", "seg_{version}", "{region}", "o_{version}_{region}"], 1)
        if self.chance("custom_lists"):
            st["alloc_sections"] = self.subset(ALLOC_POOL, 1, 4)
            if self.chance("cross_pool"):
                st["alloc_sections"].append(self.pick(NOLOAD_POOL))
        if self.chance("custom_lists"):
            st["noload_sections"] = self.subset(NOLOAD_POOL, 0, 3)
            if self.chance("cross_pool"):
                st["noload_sections"].append(self.pick(ALLOC_POOL))
        if self.chance("settings"):
            secs = st.get("alloc_sections", [".text", ".data", ".rodata", ".sdata"]) + \
                st.get("noload_sections", [".sbss", ".scommon", ".bss", "COMMON"])
            self.overridable(st, secs, seg_level=False)
        return st

    def classes(self):
        out = []
        names = self.subset(CLASS_NAMES, 0, 4)
        if names and self.r.random() < 0.2:
            # two classes whose names contain one another, the shorter one declared later (so that it can follow)
            names = [x for x in names if x not in ("overlay", "overlay_common")][:2] + ["overlay_common", "overlay"]
        for i, n in enumerate(names):
            c = {"name": n}
            k = self.r.random()
            if k < 0.4 or i == 0:
                c["fixed_vram"] = self.pick([0x80200000, 0x06000000, 0])
            elif k < 0.55:
                c["fixed_symbol"] = self.pick(SYMS)
            else:
                c["follows_classes"] = self.subset(names[:i], 1, 2) if self.r.random() < 0.9 else \
                    self.subset(names, 1, 2)
            if "follows_classes" in c and self.r.random() < 0.3:
                # a followed class whose name contains this class's name (overlay / overlay_common)
                longer = [x for x in names if x != n and n in x]
                if longer:
                    c["follows_classes"] = [x for x in c["follows_classes"] if x not in longer] + [self.pick(longer)]
                    self.r.shuffle(c["follows_classes"])
            if self.r.random() < 0.06:
                c["follows_classes"] = []          # an explicitly empty list next to (or instead of) a placement
            if self.r.random() < self.p["class_keep"]:
                k = self.r.randrange(3)
                c["keep_sections"] = True if k == 0 else False if k == 1 else self.subset([".text", ".data", ".bss", ".rodata"], 0, 3)
            out.append(c)
        return out

    def toplevel(self, doc):
        if self.r.random() < 0.4:
            doc["entry"] = self.pick(SYMS)
        if self.chance("toplevel"):
            l = []
            for _ in range(self.r.randint(1, 4)):
                gen_names = [] if self.p["linkable"] else \
                    [sg["name"] + suf for sg in doc.get("segments", [])[:2] for suf in ("_VRAM_END", "_ROM_START")]
                a = {"name": self.pick((["usr_a", "usr_b"] if self.p["linkable"] else SYMS) + ["dummy1", "dummy2"] +
                                       (gen_names if self.r.random() < 0.2 else [])),
                     "value": self.pick(["0x80000000", "sym_a + 4", "gFoo", "1"] if self.p["linkable"]
                                        else ["0x80000000", "sym_a + 4", "boot_VRAM", "1"])}
                for f in ("provide", "hidden"):
                    if self.r.random() < 0.3:
                        a[f] = self.r.random() < 0.5
                self.conds(a)
                l.append(a)
            doc["symbol_assignments"] = l
        if self.chance("toplevel"):
            l = []
            for _ in range(self.r.randint(1, 3)):
                a = {"name": self.pick(SYMS)}
                self.conds(a)
                l.append(a)
            doc["required_symbols"] = l
        if self.chance("toplevel"):
            l = []
            for _ in range(self.r.randint(1, 3)):
                a = {"check": self.pick((["1", "sym_a == sym_a", "gFoo != 0", "bar < 0x2000"] +
                                         (["0", "gFoo == 0"] if self.r.random() < 0.08 else []))
                                        if self.p["linkable"] else
                                        ["boot_VRAM_END <= 0x80400000", "1", "0", "sym_a == sym_a"]),
                     "error_message": self.pick(["boot is too big", "oops", "msg with 'quote'"])}
                self.conds(a)
                l.append(a)
            doc["asserts"] = l

    def document(self):
        doc = {}
        st = self.settings() if self.r.random() < 0.85 else None
        if st is not None:
            doc["settings"] = st
        gs = st or {}
        self.cur_settings = gs
        single = self.chance("single")
        if single:
            gs["single_segment_mode"] = True
            doc["settings"] = gs
        cls = []
        if self.chance("classes"):
            cl = self.classes()
            if cl:
                doc["vram_classes"] = cl
                cls = [c["name"] for c in cl]
        nseg = 1 if (single and self.r.random() < 0.9) else self.r.randint(1, self.p["max_segments"])
        pool = SEG_NAMES if self.p["linkable"] else SEG_NAMES + ["ovl.title", "ovl.select", "a-b", "seg.x.y"]
        names = self.r.sample(pool, nseg)
        doc["segments"] = [self.segment(n, names, cls, gs) for n in names]
        self.toplevel(doc)
        return doc

    def case_parts(self):
        """one case; a slip of the generator itself (an empty pool for some rare combination) must not take the
        whole check down: the draw is repeated from the same random stream, and after five failures a minimal
        document is returned (the failure is visible as meta of the case)"""
        for _ in range(5):
            try:
                return self._case_parts()
            except (ValueError, IndexError, KeyError, TypeError) as e:
                self.gen_error = repr(e)
        return ({"segments": [{"name": "boot", "files": [{"path": "a.o"}]}]}, [], False, False)

    def _case_parts(self):
        self.cur_opts = self.options()
        doc = self.document()
        opts = self.cur_opts
        st = doc.get("settings") or {}
        partial = (not st.get("single_segment_mode")) and \
            ("partial_build_segments_folder" in st and self.r.random() < 0.6 or self.r.random() < 0.03)
        emit_version = self.r.random() < 0.3
        return doc, opts, emit_version, partial


# ---------- malformed stream (C16 lattice) ----------

LEVELS = ["document", "settings", "class", "segment", "gp", "file", "assign", "required", "assert"]


def records_of(doc, level):
    """all records of a given level in a serial document (references, so they can be mutated)"""
    out = []
    if level == "document":
        return [doc]
    if level == "settings":
        return [doc["settings"]] if isinstance(doc.get("settings"), dict) else []
    if level == "class":
        return [c for c in (doc.get("vram_classes") or []) if isinstance(c, dict)]
    segs = [s for s in (doc.get("segments") or []) if isinstance(s, dict)]
    if level == "segment":
        return segs
    if level == "gp":
        return [s["gp_info"] for s in segs if isinstance(s.get("gp_info"), dict)]
    if level == "file":
        def walk(l):
            for f in l or []:
                if isinstance(f, dict):
                    out.append(f)
                    walk(f.get("files") if isinstance(f.get("files"), list) else [])
        for s in segs:
            walk(s.get("files") if isinstance(s.get("files"), list) else [])
        return out
    key = {"assign": "symbol_assignments", "required": "required_symbols", "assert": "asserts"}[level]
    return [a for a in (doc.get(key) or []) if isinstance(a, dict)]


def malform(rnd, doc):
    """apply one random structural malformation; returns (doc', description) (may coincide with a
    still-valid document: the model decides)"""
    from . import enc
    d = copy.deepcopy(doc)
    kind = rnd.randrange(8)
    level = rnd.choice(LEVELS)
    recs = records_of(d, level)
    if not recs:
        level = "segment"
        recs = records_of(d, level)
    rec = rnd.choice(recs)
    schema = level
    keys = enc.known_keys(schema)
    if kind == 0:
        rec[rnd.choice(["bogus", "nmae", "file", "Path", "extra_key"])] = rnd.choice([1, "x", None, []])
        return d, "unknown key at %s" % level
    if kind == 1:
        k = rnd.choice(keys)
        rec[k] = None
        return d, "null %s.%s" % (level, k)
    if kind == 2:
        cands = [k for k in keys if isinstance(rec.get(k), (list, str, dict))
                 and k not in ("kind", "linker_symbols_style")]
        if cands:
            k = rnd.choice(cands)
            rec[k] = type(rec[k])()
            return d, "empty %s.%s" % (level, k)
        k = rnd.choice(enc.CONDS) if level not in ("document", "settings", "class") else None
        if k:
            rec[k] = []
            return d, "empty %s.%s" % (level, k)
        return d, "noop"
    if kind == 3:
        present = [k for k in rec if k in keys]
        if present:
            k = rnd.choice(present)
            del rec[k]
            return d, "delete %s.%s" % (level, k)
        return d, "noop"
    if kind == 4:
        files = records_of(d, "file")
        if files:
            f = rnd.choice(files)
            k = rnd.choice(["path", "kind", "subfile", "pad_amount", "section", "linker_offset_name",
                            "section_order", "files", "dir"])
            v = {"path": "x/y.o", "kind": rnd.choice(["object", "archive", "pad", "linker_offset", "group"]),
                 "subfile": "m.o", "pad_amount": 8, "section": ".text", "linker_offset_name": "off",
                 "section_order": {".data": ".text"}, "files": [{"path": "in.o"}], "dir": "d"}[k]
            f[k] = v
            return d, "file field %s" % k
        return d, "noop"
    if kind == 7:
        # two fields that are harmless alone: an explicit kind with an empty path, an empty follows_classes with
        # some of the other placement fields
        files = [f for f in records_of(d, "file") if isinstance(f, dict) and "path" in f]
        cls = records_of(d, "class")
        if files and (not cls or rnd.random() < 0.6):
            f = rnd.choice(files)
            f["kind"] = rnd.choice(["object", "archive"])
            f["path"] = ""
            return d, "explicit kind with an empty path"
        if cls:
            c = rnd.choice(cls)
            c["follows_classes"] = []
            for k in ("fixed_vram", "fixed_symbol"):
                if rnd.random() < 0.5:
                    c.pop(k, None)
                else:
                    c[k] = {"fixed_vram": 0x80001000, "fixed_symbol": "sym_a"}[k]
            return d, "empty follows_classes with other placement fields"
        return d, "noop"
    if kind == 5:
        segs = records_of(d, "segment")
        s = rnd.choice(segs)
        for k in rnd.sample(["fixed_vram", "fixed_symbol", "follows_segment", "vram_class"], rnd.randint(1, 3)):
            s[k] = {"fixed_vram": 0x80001000, "fixed_symbol": "sym_a", "follows_segment": "boot",
                    "vram_class": "clsA"}[k]
        return d, "segment address fields"
    cls = records_of(d, "class")
    if cls:
        c = rnd.choice(cls)
        for k in ("fixed_vram", "fixed_symbol", "follows_classes"):
            if rnd.random() < 0.5:
                c.pop(k, None)
            else:
                c[k] = {"fixed_vram": 0x80001000, "fixed_symbol": "sym_a", "follows_classes": ["clsA"]}[k]
        return d, "class placement fields"
    st = d.setdefault("settings", {})
    if isinstance(st, dict):
        st["d_path"] = "out.d"
        st.pop("target_path", None)
    return d, "d_path without target_path"
