// Harness: runs the real slinky library (public API only) on a list of cases and prints, per case,
// the same canonical JSON that the Coq model prints (coq/Model/Dump.v).
//
// usage: slinky-verif-harness <cases.tsv> <scratch-dir>
// line:  id \t yaml_path \t partial(0|1) \t emit_version(0|1) \t files(0|1) \t hexopts
//        hexopts = comma separated "hex(key):hex(value)" pairs, in order
use std::collections::BTreeSet;
use std::fmt::Write as _;
use std::io::Write as _;
use std::panic::{catch_unwind, AssertUnwindSafe};
use std::path::{Path, PathBuf};

use slinky::{
    Document, FileInfo, FileKind, KeepSections, LinkerSymbolsStyle, LinkerWriter,
    PartialLinkerWriter, RuntimeSettings, ScriptExporter, ScriptImporter, SlinkyError,
};

fn jstr(s: &str) -> String {
    let mut o = String::with_capacity(s.len() + 2);
    o.push('"');
    for c in s.chars() {
        match c {
            '"' => o.push_str("\\\""),
            '\\' => o.push_str("\\\\"),
            c if (c as u32) < 32 => {
                let _ = write!(o, "\\u00{:02X}", c as u32);
            }
            c => o.push(c),
        }
    }
    o.push('"');
    o
}

fn jbool(b: bool) -> String {
    if b { "true".into() } else { "false".into() }
}

fn jlist<T>(l: impl IntoIterator<Item = T>, f: impl Fn(T) -> String) -> String {
    let v: Vec<String> = l.into_iter().map(f).collect();
    format!("[{}]", v.join(","))
}

fn jopt<T>(o: &Option<T>, f: impl Fn(&T) -> String) -> String {
    match o {
        Some(x) => f(x),
        None => "null".into(),
    }
}

fn jobj(l: Vec<(&str, String)>) -> String {
    let v: Vec<String> = l.into_iter().map(|(k, v)| format!("{}:{}", jstr(k), v)).collect();
    format!("{{{}}}", v.join(","))
}

fn jpath(p: &Path) -> String {
    jstr(&p.to_string_lossy())
}

fn jpairs(l: &[(String, String)]) -> String {
    jlist(l.iter(), |(a, b)| format!("[{},{}]", jstr(a), jstr(b)))
}

fn jkeep(k: &KeepSections) -> String {
    match k {
        KeepSections::Absent => jstr("absent"),
        KeepSections::All(b) => jbool(*b),
        KeepSections::WhichOnes(s) => {
            let b: BTreeSet<&String> = s.iter().collect();
            jlist(b.into_iter(), |x| jstr(x))
        }
    }
}

fn jmap<V>(m: &std::collections::HashMap<String, V>, f: impl Fn(&V) -> String) -> String {
    let mut keys: Vec<&String> = m.keys().collect();
    keys.sort();
    let v: Vec<String> = keys.into_iter().map(|k| format!("{}:{}", jstr(k), f(&m[k]))).collect();
    format!("{{{}}}", v.join(","))
}

fn jkind(k: &FileKind) -> String {
    jstr(match k {
        FileKind::Object => "object",
        FileKind::Archive => "archive",
        FileKind::Pad => "pad",
        FileKind::LinkerOffset => "linker_offset",
        FileKind::Group => "group",
    })
}

fn jfile(f: &FileInfo) -> String {
    jobj(vec![
        ("path", jpath(&f.path)),
        ("kind", jkind(&f.kind)),
        ("subfile", jstr(&f.subfile)),
        ("pad_amount", f.pad_amount.to_string()),
        ("section", jstr(&f.section)),
        ("linker_offset_name", jstr(&f.linker_offset_name)),
        ("section_order", jmap(&f.section_order, |v| jstr(v))),
        ("files", jlist(f.files.iter(), jfile)),
        ("dir", jpath(&f.dir)),
        ("include_if_any", jpairs(&f.include_if_any)),
        ("include_if_all", jpairs(&f.include_if_all)),
        ("exclude_if_any", jpairs(&f.exclude_if_any)),
        ("exclude_if_all", jpairs(&f.exclude_if_all)),
        ("keep_sections", jkeep(&f.keep_sections)),
    ])
}

fn ju32(o: &Option<u32>) -> String {
    jopt(o, |v| v.to_string())
}

fn jdocument(d: &Document) -> String {
    let s = &d.settings;
    let settings = jobj(vec![
        ("base_path", jpath(&s.base_path)),
        ("linker_symbols_style", jstr(match s.linker_symbols_style {
            LinkerSymbolsStyle::Splat => "splat",
            LinkerSymbolsStyle::Makerom => "makerom",
        })),
        ("hardcoded_gp_value", ju32(&s.hardcoded_gp_value)),
        ("d_path", jopt(&s.d_path, |p| jpath(p))),
        ("target_path", jopt(&s.target_path, |p| jpath(p))),
        ("symbols_header_path", jopt(&s.symbols_header_path, |p| jpath(p))),
        ("symbols_header_type", jstr(&s.symbols_header_type)),
        ("symbols_header_as_array", jbool(s.symbols_header_as_array)),
        ("sections_allowlist", jlist(s.sections_allowlist.iter(), |x| jstr(x))),
        ("sections_allowlist_extra", jlist(s.sections_allowlist_extra.iter(), |x| jstr(x))),
        ("sections_denylist", jlist(s.sections_denylist.iter(), |x| jstr(x))),
        ("discard_wildcard_section", jbool(s.discard_wildcard_section)),
        ("single_segment_mode", jbool(s.single_segment_mode)),
        ("partial_scripts_folder", jopt(&s.partial_scripts_folder, |p| jpath(p))),
        ("partial_build_segments_folder", jopt(&s.partial_build_segments_folder, |p| jpath(p))),
        ("alloc_sections", jlist(s.alloc_sections.iter(), |x| jstr(x))),
        ("noload_sections", jlist(s.noload_sections.iter(), |x| jstr(x))),
        ("subalign", ju32(&s.subalign)),
        ("segment_start_align", ju32(&s.segment_start_align)),
        ("segment_end_align", ju32(&s.segment_end_align)),
        ("section_start_align", ju32(&s.section_start_align)),
        ("section_end_align", ju32(&s.section_end_align)),
        ("sections_start_alignment", jmap(&s.sections_start_alignment, |v| v.to_string())),
        ("sections_end_alignment", jmap(&s.sections_end_alignment, |v| v.to_string())),
        ("wildcard_sections", jbool(s.wildcard_sections)),
        ("fill_value", ju32(&s.fill_value)),
        ("sections_subgroups", jmap(&s.sections_subgroups, |v| jlist(v.iter(), |x| jstr(x)))),
    ]);
    let classes = jlist(d.vram_classes.iter(), |c| {
        jobj(vec![
            ("name", jstr(&c.name)),
            ("fixed_vram", ju32(&c.fixed_vram)),
            ("fixed_symbol", jopt(&c.fixed_symbol, |x| jstr(x))),
            ("follows_classes", jlist(c.follows_classes.iter(), |x| jstr(x))),
            ("keep_sections", jkeep(&c.keep_sections)),
        ])
    });
    let segments = jlist(d.segments.iter(), |g| {
        jobj(vec![
            ("name", jstr(&g.name)),
            ("files", jlist(g.files.iter(), jfile)),
            ("fixed_vram", ju32(&g.fixed_vram)),
            ("fixed_symbol", jopt(&g.fixed_symbol, |x| jstr(x))),
            ("follows_segment", jopt(&g.follows_segment, |x| jstr(x))),
            ("vram_class", jopt(&g.vram_class, |x| jstr(x))),
            ("dir", jpath(&g.dir)),
            ("gp_info", jopt(&g.gp_info, |gp| {
                jobj(vec![
                    ("section", jstr(&gp.section)),
                    ("offset", gp.offset.to_string()),
                    ("provide", jbool(gp.provide)),
                    ("hidden", jbool(gp.hidden)),
                    ("include_if_any", jpairs(&gp.include_if_any)),
                    ("include_if_all", jpairs(&gp.include_if_all)),
                    ("exclude_if_any", jpairs(&gp.exclude_if_any)),
                    ("exclude_if_all", jpairs(&gp.exclude_if_all)),
                ])
            })),
            ("include_if_any", jpairs(&g.include_if_any)),
            ("include_if_all", jpairs(&g.include_if_all)),
            ("exclude_if_any", jpairs(&g.exclude_if_any)),
            ("exclude_if_all", jpairs(&g.exclude_if_all)),
            ("alloc_sections", jlist(g.alloc_sections.iter(), |x| jstr(x))),
            ("noload_sections", jlist(g.noload_sections.iter(), |x| jstr(x))),
            ("subalign", ju32(&g.subalign)),
            ("segment_start_align", ju32(&g.segment_start_align)),
            ("segment_end_align", ju32(&g.segment_end_align)),
            ("section_start_align", ju32(&g.section_start_align)),
            ("section_end_align", ju32(&g.section_end_align)),
            ("sections_start_alignment", jmap(&g.sections_start_alignment, |v| v.to_string())),
            ("sections_end_alignment", jmap(&g.sections_end_alignment, |v| v.to_string())),
            ("wildcard_sections", jbool(g.wildcard_sections)),
            ("fill_value", ju32(&g.fill_value)),
            ("sections_subgroups", jmap(&g.sections_subgroups, |v| jlist(v.iter(), |x| jstr(x)))),
            ("keep_sections", jkeep(&g.keep_sections)),
        ])
    });
    let assigns = jlist(d.symbol_assignments.iter(), |a| {
        jobj(vec![
            ("name", jstr(&a.name)),
            ("value", jstr(&a.value)),
            ("provide", jbool(a.provide)),
            ("hidden", jbool(a.hidden)),
            ("include_if_any", jpairs(&a.include_if_any)),
            ("include_if_all", jpairs(&a.include_if_all)),
            ("exclude_if_any", jpairs(&a.exclude_if_any)),
            ("exclude_if_all", jpairs(&a.exclude_if_all)),
        ])
    });
    let required = jlist(d.required_symbols.iter(), |a| {
        jobj(vec![
            ("name", jstr(&a.name)),
            ("include_if_any", jpairs(&a.include_if_any)),
            ("include_if_all", jpairs(&a.include_if_all)),
            ("exclude_if_any", jpairs(&a.exclude_if_any)),
            ("exclude_if_all", jpairs(&a.exclude_if_all)),
        ])
    });
    let asserts = jlist(d.asserts.iter(), |a| {
        jobj(vec![
            ("check", jstr(&a.check)),
            ("error_message", jstr(&a.error_message)),
            ("include_if_any", jpairs(&a.include_if_any)),
            ("include_if_all", jpairs(&a.include_if_all)),
            ("exclude_if_any", jpairs(&a.exclude_if_any)),
            ("exclude_if_all", jpairs(&a.exclude_if_all)),
        ])
    });
    jobj(vec![
        ("settings", settings),
        ("vram_classes", classes),
        ("segments", segments),
        ("entry", jopt(&d.entry, |x| jstr(x))),
        ("symbol_assignments", assigns),
        ("required_symbols", required),
        ("asserts", asserts),
    ])
}

fn jerr(e: &SlinkyError) -> String {
    jstr(&match e {
        SlinkyError::FailedYamlParsing { .. } => "FailedYamlParsing".to_string(),
        SlinkyError::NullValueOnNonNull { name } => format!("NullValueOnNonNull({})", name),
        SlinkyError::EmptyValue { name } => format!("EmptyValue({})", name),
        SlinkyError::InvalidFieldCombo { field1, field2 } => {
            format!("InvalidFieldCombo({},{})", field1, field2)
        }
        SlinkyError::MissingRequiredField { name } => format!("MissingRequiredField({})", name),
        SlinkyError::MissingRequiredFieldCombo { required, other } => {
            format!("MissingRequiredFieldCombo({},{})", required, other)
        }
        SlinkyError::MissingAnyOfOptionalFields { fields } => {
            format!("MissingAnyOfOptionalFields({})", fields)
        }
        SlinkyError::CustomOptionInPathNotProvided { path, custom_option } => {
            format!("CustomOptionInPathNotProvided({},{})", path.to_string_lossy(), custom_option)
        }
        SlinkyError::MissingSectionForSegment { field_name, section, segment } => {
            format!("MissingSectionForSegment({},{},{})", field_name, section, segment)
        }
        SlinkyError::MissingVramClassForSegment { segment, vram_class } => {
            format!("MissingVramClassForSegment({},{})", segment, vram_class)
        }
        // variants this harness does not know by name (I/O errors, variants added later):
        // identified by their Display text
        other => format!("OTHER({})", other),
    })
}

fn jres<T>(r: &Result<T, SlinkyError>, f: impl Fn(&T) -> String) -> String {
    match r {
        Ok(v) => jobj(vec![("ok", f(v))]),
        Err(e) => jobj(vec![("err", jerr(e))]),
    }
}

fn panic_msg(p: Box<dyn std::any::Any + Send>) -> String {
    if let Some(s) = p.downcast_ref::<&str>() {
        s.to_string()
    } else if let Some(s) = p.downcast_ref::<String>() {
        s.clone()
    } else {
        "?".to_string()
    }
}

fn jwriter(w: &LinkerWriter, d: &Document, rs: &RuntimeSettings) -> String {
    let script = w.export_linker_script_to_string();
    let header = w.export_symbol_header_to_string();
    let deps: Result<Option<String>, SlinkyError> = match d.settings.target_path_escaped(rs) {
        Err(e) => Err(e),
        Ok(None) => Ok(None),
        Ok(Some(t)) => w.export_dependencies_file_to_string(&t).map(Some),
    };
    // files_paths is private: recover it from the prerequisites of a dependency file with a fixed target
    let paths: Vec<String> = {
        let mut rs2 = RuntimeSettings::new();
        rs2.set_emit_version_comment(false);
        let t = rs2.escape_path(Path::new("T")).unwrap();
        // export_dependencies_file reads self.rs for the version comment only
        let text = w.export_dependencies_file_to_string(&t).unwrap_or_default();
        let body = text.split("\n\n").last().unwrap_or("");
        body.lines().filter(|l| l.ends_with(':')).map(|l| l[..l.len() - 1].to_string()).collect()
    };
    jobj(vec![
        ("script", match &script { Ok(s) => jstr(s), Err(e) => jerr(e) }),
        ("paths", jlist(paths.iter(), |p| jstr(p))),
        ("symbols", jlist(w.get_linker_symbols().iter(), |s| jstr(s))),
        ("header", match &header { Ok(s) => jstr(s), Err(e) => jerr(e) }),
        ("deps", jres(&deps, |o| jopt(o, |s| jstr(s)))),
    ])
}

fn walk(root: &Path, dir: &Path, out: &mut Vec<(String, String)>) {
    let mut entries: Vec<PathBuf> = match std::fs::read_dir(dir) {
        Ok(rd) => rd.filter_map(|e| e.ok().map(|e| e.path())).collect(),
        Err(_) => return,
    };
    entries.sort();
    for p in entries {
        if p.is_dir() {
            walk(root, &p, out);
        } else {
            let rel = p.strip_prefix(root).unwrap().to_string_lossy().to_string();
            let content = String::from_utf8_lossy(&std::fs::read(&p).unwrap_or_default()).to_string();
            out.push((rel, content));
        }
    }
}

// run the file-writing half of the API inside a fresh directory and return the resulting tree
fn files_phase(
    scratch: &Path,
    n: usize,
    rs: &RuntimeSettings,
    export: impl Fn(&slinky::EscapedPath) -> Result<(), SlinkyError>,
    save: impl Fn() -> Result<(), SlinkyError>,
) -> String {
    let root = scratch.join(format!("c{}", n));
    let _ = std::fs::remove_dir_all(&root);
    std::fs::create_dir_all(&root).unwrap();
    let old = std::env::current_dir().unwrap();
    std::env::set_current_dir(&root).unwrap();
    let out = rs.escape_path(Path::new("OUT.ld")).unwrap();
    let mut r = export(&out).and_then(|_| save());
    if r.is_ok() && std::env::var_os("SLINKY_VERIF_DIRTY").is_some() {
        // history: every file of the first generation is left behind, longer than before, and the
        // generation is repeated into the same directory
        let mut first = Vec::new();
        walk(&root, &root, &mut first);
        for (p, c) in &first {
            let stale = format!("{}\n/* stale */\n{}", c, "X".repeat(257));
            std::fs::write(root.join(p), stale).unwrap();
        }
        r = export(&out).and_then(|_| save());
    }
    std::env::set_current_dir(&old).unwrap();
    let res = match r {
        Err(e) => jobj(vec![("err", jerr(&e))]),
        Ok(()) => {
            let mut v = Vec::new();
            walk(&root, &root, &mut v);
            jobj(vec![("ok", jlist(v.iter(), |(p, c)| format!("[{},{}]", jstr(p), jstr(c))))])
        }
    };
    let _ = std::fs::remove_dir_all(&root);
    res
}

fn run_case(yaml: &Path, partial: bool, emit_version: bool, files: bool, opts: &[(String, String)],
            scratch: &Path, n: usize) -> String {
    let doc = match catch_unwind(|| Document::read_file(yaml)) {
        Err(p) => return jobj(vec![("parse", jobj(vec![("err", jstr(&format!("CRASH(panic: {})", panic_msg(p))))]))]),
        Ok(Err(e)) => return jobj(vec![("parse", jobj(vec![("err", jerr(&e))]))]),
        Ok(Ok(d)) => d,
    };
    let mut rs = RuntimeSettings::new();
    rs.add_custom_options(opts.iter().cloned());
    rs.set_emit_version_comment(emit_version);

    let gen = catch_unwind(AssertUnwindSafe(|| {
        if partial {
            let mut w = PartialLinkerWriter::new(&doc, &rs);
            match w.add_whole_document(&doc) {
                Err(e) => jobj(vec![("err", jerr(&e))]),
                Ok(()) => {
                    let main = jwriter(w.get_main_writer(), &doc, &rs);
                    let subs = jlist(w.get_partial_writers().iter(), |(pw, name)| {
                        format!("[{},{}]", jstr(name), jwriter(pw, &doc, &rs))
                    });
                    let joined = match w.export_linker_script_to_string() {
                        Ok(s) => jstr(&s),
                        Err(e) => jerr(&e),
                    };
                    let mut fields = vec![("main", main), ("subs", subs), ("joined", joined)];
                    if files {
                        fields.push(("files", files_phase(scratch, n, &rs,
                            |p| w.export_linker_script_to_file(p), || w.save_other_files())));
                    }
                    jobj(vec![("ok", jobj(fields))])
                }
            }
        } else {
            let mut w = LinkerWriter::new(&doc, &rs);
            match w.add_whole_document(&doc) {
                Err(e) => jobj(vec![("err", jerr(&e))]),
                Ok(()) => {
                    let mut fields = vec![("main", jwriter(&w, &doc, &rs))];
                    if files {
                        fields.push(("files", files_phase(scratch, n, &rs,
                            |p| w.export_linker_script_to_file(p), || w.save_other_files())));
                    }
                    jobj(vec![("ok", jobj(fields))])
                }
            }
        }
    }));
    let gen = match gen {
        Ok(s) => s,
        Err(p) => jobj(vec![("err", jstr(&format!("CRASH(panic: {})", panic_msg(p))))]),
    };
    jobj(vec![("parse", jobj(vec![("ok", jdocument(&doc))])), ("gen", gen)])
}

fn unhex(s: &str) -> String {
    let bytes: Vec<u8> = (0..s.len() / 2).map(|i| u8::from_str_radix(&s[2 * i..2 * i + 2], 16).unwrap()).collect();
    String::from_utf8_lossy(&bytes).to_string()
}

fn main() {
    let args: Vec<String> = std::env::args().collect();
    let cases = std::fs::read_to_string(&args[1]).expect("cases file");
    let scratch = PathBuf::from(&args[2]);
    std::fs::create_dir_all(&scratch).unwrap();
    std::panic::set_hook(Box::new(|_| {}));
    let stdout = std::io::stdout();
    for (n, line) in cases.lines().enumerate() {
        if line.is_empty() {
            continue;
        }
        let f: Vec<&str> = line.split('\t').collect();
        let opts: Vec<(String, String)> = if f[5].is_empty() {
            vec![]
        } else {
            f[5].split(',').map(|kv| {
                let mut it = kv.split(':');
                (unhex(it.next().unwrap()), unhex(it.next().unwrap_or("")))
            }).collect()
        };
        // announce the case first so that an abort (stack overflow) can be attributed
        {
            let mut o = stdout.lock();
            let _ = writeln!(o, "BEGIN\t{}", f[0]);
            let _ = o.flush();
        }
        let r = run_case(Path::new(f[1]), f[2] == "1", f[3] == "1", f[4] == "1", &opts, &scratch, n);
        let mut o = stdout.lock();
        let _ = writeln!(o, "{}\t{}", f[0], r);
        let _ = o.flush();
    }
}
