(* Driver for the extracted model: reads one s-expression case per line on stdin, runs the model,
   prints "<id>\t<json>" per case.  Untrusted glue: only conversions between OCaml strings/ints and
   the extracted inductive types, and the positional decoding of the case records. *)
open Model

(* ---------- conversions ---------- *)

(* Coq strings are extracted to char lists (ExtrOcamlString) *)
let cstr (s : Stdlib.String.t) : char list =
  let r = ref [] in
  for i = Stdlib.String.length s - 1 downto 0 do
    r := s.[i] :: !r
  done;
  !r

let ostr (s : char list) : Stdlib.String.t =
  let b = Buffer.create 256 in
  List.iter (Buffer.add_char b) s; Buffer.contents b

let rec pos_of_int (i : int) : positive =
  if i = 1 then XH else if i land 1 = 1 then XI (pos_of_int (i lsr 1)) else XO (pos_of_int (i lsr 1))

let n_of_int (i : int) : n = if i = 0 then N0 else Npos (pos_of_int i)
let z_of_int (i : int) : z = if i = 0 then Z0 else if i > 0 then Zpos (pos_of_int i) else Zneg (pos_of_int (-i))

(* ---------- s-expressions ---------- *)

type sx = A of Stdlib.String.t | S of Stdlib.String.t | L of sx list

exception Bad of Stdlib.String.t

let parse_sx (s : Stdlib.String.t) : sx =
  let n = Stdlib.String.length s in
  let i = ref 0 in
  let rec skip () = if !i < n && (s.[!i] = ' ' || s.[!i] = '\n' || s.[!i] = '\t') then (incr i; skip ()) in
  let rec item () : sx =
    skip ();
    if !i >= n then raise (Bad "eof");
    match s.[!i] with
    | '(' ->
        incr i;
        let acc = ref [] in
        let rec loop () =
          skip ();
          if !i >= n then raise (Bad "eof in list");
          if s.[!i] = ')' then incr i else (acc := item () :: !acc; loop ())
        in
        loop (); L (List.rev !acc)
    | '"' ->
        incr i;
        let b = Buffer.create 32 in
        let rec loop () =
          if !i >= n then raise (Bad "eof in string");
          match s.[!i] with
          | '"' -> incr i
          | '\\' ->
              (* \xHH only *)
              if !i + 3 < n && s.[!i + 1] = 'x' then begin
                Buffer.add_char b (Char.chr (int_of_string ("0x" ^ Stdlib.String.sub s (!i + 2) 2)));
                i := !i + 4; loop ()
              end else raise (Bad "escape")
          | c -> Buffer.add_char b c; incr i; loop ()
        in
        loop (); S (Buffer.contents b)
    | _ ->
        let st = !i in
        while !i < n && not (List.mem s.[!i] [' '; '('; ')'; '\n'; '\t']) do incr i done;
        A (Stdlib.String.sub s st (!i - st))
  in
  item ()

(* ---------- decoding ---------- *)

let d_str = function S s -> cstr s | _ -> raise (Bad "string expected")
let d_bool = function A "T" -> true | A "F" -> false | _ -> raise (Bad "bool expected")
let d_n = function A s -> n_of_int (int_of_string s) | _ -> raise (Bad "N expected")
let d_z = function A s -> z_of_int (int_of_string s) | _ -> raise (Bad "Z expected")
let d_list f = function L (A "L" :: r) -> List.map f r | _ -> raise (Bad "list expected")
let d_pair f g = function L [A "P"; a; b] -> (f a, g b) | _ -> raise (Bad "pair expected")
let d_an f = function A "A" -> Absent | A "N" -> Null | L [A "V"; x] -> Value (f x) | _ -> raise (Bad "an expected")
let d_opt f = function A "None" -> None | L [A "Some"; x] -> Some (f x) | _ -> raise (Bad "option expected")
let d_pairs = d_list (d_pair d_str d_str)

let d_kind = function
  | A "object" -> KObject | A "archive" -> KArchive | A "pad" -> KPad
  | A "linker_offset" -> KLinkerOffset | A "group" -> KGroup | _ -> raise (Bad "kind")
let d_style = function A "splat" -> Splat | A "makerom" -> Makerom | _ -> raise (Bad "style")
let d_skeep = function
  | A "KA" -> SKAbsent | L [A "KB"; b] -> SKBool (d_bool b) | L [A "KL"; l] -> SKList (d_list d_str l)
  | A "KI" -> SKInvalid | _ -> raise (Bad "skeep")

let d_conds = function
  | L [A "R"; a; b; c; d] ->
      { cs_inc_any = d_an d_pairs a; cs_inc_all = d_an d_pairs b;
        cs_exc_any = d_an d_pairs c; cs_exc_all = d_an d_pairs d }
  | _ -> raise (Bad "conds")

let rec d_file = function
  | L [A "R"; unk; path; kind; subfile; pad; section; lon; so; files; dir; conds; keep] ->
      { fs_unknown = d_list d_str unk; fs_path = d_an d_str path; fs_kind = d_an d_kind kind;
        fs_subfile = d_an d_str subfile; fs_pad_amount = d_an d_n pad; fs_section = d_an d_str section;
        fs_linker_offset_name = d_an d_str lon; fs_section_order = d_an d_pairs so;
        fs_files = d_an (d_list d_file) files; fs_dir = d_an d_str dir; fs_conds = d_conds conds;
        fs_keep = d_skeep keep }
  | _ -> raise (Bad "file")

let d_gp = function
  | L [A "R"; unk; section; offset; provide; hidden; conds] ->
      { gs_unknown = d_list d_str unk; gs_section = d_an d_str section; gs_offset = d_an d_z offset;
        gs_provide = d_an d_bool provide; gs_hidden = d_an d_bool hidden; gs_conds = d_conds conds }
  | _ -> raise (Bad "gp")

let d_nmap = d_list (d_pair d_str d_n)
let d_lmap = d_list (d_pair d_str (d_list d_str))

let d_segment = function
  | L [A "R"; unk; name; files; fv; fs; fseg; vc; dir; gp; conds; alloc; noload; sub; ssa; sea; scsa; scea;
       sssa; ssea; wild; fill; subgroups; keep] ->
      { ss_unknown = d_list d_str unk; ss_name = d_an d_str name; ss_files = d_opt (d_list d_file) files;
        ss_fixed_vram = d_an d_n fv; ss_fixed_symbol = d_an d_str fs; ss_follows_segment = d_an d_str fseg;
        ss_vram_class = d_an d_str vc; ss_dir = d_an d_str dir; ss_gp_info = d_an d_gp gp;
        ss_conds = d_conds conds; ss_alloc_sections = d_an (d_list d_str) alloc;
        ss_noload_sections = d_an (d_list d_str) noload; ss_subalign = d_an d_n sub;
        ss_segment_start_align = d_an d_n ssa; ss_segment_end_align = d_an d_n sea;
        ss_section_start_align = d_an d_n scsa; ss_section_end_align = d_an d_n scea;
        ss_sections_start_alignment = d_an d_nmap sssa; ss_sections_end_alignment = d_an d_nmap ssea;
        ss_wildcard_sections = d_an d_bool wild; ss_fill_value = d_an d_n fill;
        ss_sections_subgroups = d_an d_lmap subgroups; ss_keep = d_skeep keep }
  | _ -> raise (Bad "segment")

let d_settings = function
  | L [A "R"; unk; bp; lss; hgp; dp; tp; shp; sht; sha; allow; extra; deny; dws; ssm; psf; pbsf;
       alloc; noload; sub; ssa; sea; scsa; scea; sssa; ssea; wild; fill; subgroups] ->
      { sts_unknown = d_list d_str unk; sts_base_path = d_an d_str bp;
        sts_linker_symbols_style = d_an d_style lss; sts_hardcoded_gp_value = d_an d_n hgp;
        sts_d_path = d_an d_str dp; sts_target_path = d_an d_str tp;
        sts_symbols_header_path = d_an d_str shp; sts_symbols_header_type = d_an d_str sht;
        sts_symbols_header_as_array = d_an d_bool sha; sts_sections_allowlist = d_an (d_list d_str) allow;
        sts_sections_allowlist_extra = d_an (d_list d_str) extra;
        sts_sections_denylist = d_an (d_list d_str) deny; sts_discard_wildcard_section = d_an d_bool dws;
        sts_single_segment_mode = d_an d_bool ssm; sts_partial_scripts_folder = d_an d_str psf;
        sts_partial_build_segments_folder = d_an d_str pbsf;
        sts_alloc_sections = d_an (d_list d_str) alloc; sts_noload_sections = d_an (d_list d_str) noload;
        sts_subalign = d_an d_n sub; sts_segment_start_align = d_an d_n ssa;
        sts_segment_end_align = d_an d_n sea; sts_section_start_align = d_an d_n scsa;
        sts_section_end_align = d_an d_n scea; sts_sections_start_alignment = d_an d_nmap sssa;
        sts_sections_end_alignment = d_an d_nmap ssea; sts_wildcard_sections = d_an d_bool wild;
        sts_fill_value = d_an d_n fill; sts_sections_subgroups = d_an d_lmap subgroups }
  | _ -> raise (Bad "settings")

let d_class = function
  | L [A "R"; unk; name; fv; fs; follows; keep] ->
      { vs_unknown = d_list d_str unk; vs_name = d_an d_str name; vs_fixed_vram = d_an d_n fv;
        vs_fixed_symbol = d_an d_str fs; vs_follows_classes = d_an (d_list d_str) follows;
        vs_keep = d_skeep keep }
  | _ -> raise (Bad "class")

let d_assign = function
  | L [A "R"; unk; name; value; provide; hidden; conds] ->
      { as_unknown = d_list d_str unk; as_name = d_an d_str name; as_value = d_an d_str value;
        as_provide = d_an d_bool provide; as_hidden = d_an d_bool hidden; as_conds = d_conds conds }
  | _ -> raise (Bad "assign")

let d_required = function
  | L [A "R"; unk; name; conds] ->
      { rs_unknown = d_list d_str unk; rs_name = d_an d_str name; rs_conds = d_conds conds }
  | _ -> raise (Bad "required")

let d_assert = function
  | L [A "R"; unk; check; msg; conds] ->
      { ats_unknown = d_list d_str unk; ats_check = d_an d_str check; ats_error_message = d_an d_str msg;
        ats_conds = d_conds conds }
  | _ -> raise (Bad "assert")

let d_document = function
  | L [A "R"; unk; settings; classes; segments; entry; assigns; required; asserts] ->
      { ds_unknown = d_list d_str unk; ds_settings = d_an d_settings settings;
        ds_vram_classes = d_an (d_list d_class) classes; ds_segments = d_opt (d_list d_segment) segments;
        ds_entry = d_an d_str entry; ds_symbol_assignments = d_an (d_list d_assign) assigns;
        ds_required_symbols = d_an (d_list d_required) required; ds_asserts = d_an (d_list d_assert) asserts }
  | _ -> raise (Bad "document")

let d_runtime = function
  | L [A "R"; opts; emit] -> { rt_options = d_pairs opts; rt_emit_version_comment = d_bool emit }
  | _ -> raise (Bad "runtime")

let d_cli = function
  | L [A "R"; out; partial; opts; omit] ->
      { cli_output = d_opt d_str out; cli_partial = d_bool partial; cli_options = d_list d_str opts;
        cli_omit_version_comment = d_bool omit }
  | _ -> raise (Bad "cli args")

(* ---------- script AST and object universe (ld correspondence) ---------- *)

let d_expr = function
  | A "dot" -> EDot
  | L [A "hex8"; n] -> EHex8 (d_n n)
  | L [A "raw"; s] -> ERaw (d_str s)
  | L [A "sym"; s] -> ESym (d_str s)
  | L [A "addr"; s] -> EAddr (d_str s)
  | L [A "abssub"; a; b] -> EAbsSub (d_str a, d_str b)
  | L [A "sub"; a; b] -> ESub (d_str a, d_str b)
  | L [A "dotplus"; z] -> EDotPlus (d_z z)
  | _ -> raise (Bad "expr")

let rec d_stmt = function
  | A "blank" -> SBlank
  | L [A "comment"; s] -> SComment (d_str s)
  | L [A "assign"; p; h; r; sym; e] -> SAssign (d_bool p, d_bool h, d_bool r, d_str sym, d_expr e)
  | L [A "align"; sym; n] -> SAlign (d_str sym, d_n n)
  | L [A "max"; sym; o] -> SMaxSelf (d_str sym, d_str o)
  | L [A "romadd"; s] -> SRomAdd (d_str s)
  | L [A "dotadd"; n] -> SDotAdd (d_n n)
  | L [A "fill"; n] -> SFill (d_n n)
  | L [A "input"; k; path; m; sect; w] -> SInput (d_bool k, d_str path, d_opt d_str m, d_str sect, d_bool w)
  | L [A "outsec"; name; addr; at; noload; sub; body] ->
      SOutSec (d_str name, d_opt d_expr addr, d_opt d_str at, d_bool noload, d_opt d_n sub, d_list d_stmt body)
  | L [A "single"; s] -> SSingleEntry (d_str s)
  | L [A "discard"; pats; w] -> SDiscard (d_list d_str pats, d_bool w)
  | L [A "sections"; body] -> SSections (d_list d_stmt body)
  | L [A "entry"; s] -> SEntry (d_str s)
  | L [A "extern"; s] -> SExtern (d_str s)
  | L [A "assert"; c; m] -> SAssert (d_str c, d_str m)
  | _ -> raise (Bad "stmt")

let d_usec = function
  | L [A "R"; path; member; name; size; align; nobits; marker] ->
      { u_path = d_str path; u_member = d_opt d_str member; u_name = d_str name; u_size = d_z size;
        u_align = d_z align; u_nobits = d_bool nobits; u_marker = d_str marker }
  | _ -> raise (Bad "usec")

let () =
  let extra = try Sys.getenv "SLINKY_DRIVER_EXTRA" with Not_found -> "" in
  ignore extra;
  try
    while true do
      let line = input_line stdin in
      if Stdlib.String.length line > 0 then begin
        match parse_sx line with
        | L [A "case"; A id; sd; rt; partial] ->
            let r = run_case (d_document sd) (d_runtime rt) (d_bool partial) in
            print_string id; print_char '\t'; print_string (ostr r); print_char '\n'
        | L [A "cli"; A id; sd; args] ->
            let r = jcli (cli_run (d_document sd) (d_cli args)) in
            print_string id; print_char '\t'; print_string (ostr r); print_char '\n'
        | L [A "link"; A id; script; univ; ext] ->
            let r = run_link (d_list d_stmt script) (d_list d_usec univ) (d_list (d_pair d_str d_z) ext) in
            print_string id; print_char '\t'; print_string (ostr r); print_char '\n'
(*SPEC
        | L [A "valid"; A id; sd] ->
            let d = d_document sd in
            print_string id; print_char '\t';
            print_string (if valid d then "{\"valid\":true," else "{\"valid\":false,");
            print_string (if known_C16_null_plain_string d then "\"known\":true," else "\"known\":false,");
            print_string (if known_C16_null_forbidden_field d then "\"known2\":true}" else "\"known2\":false}");
            print_char '\n'
        | L [A "symbols"; A id; sd; rt] ->
            (* Spec/DocWf.v, Spec/DocSingleWf.v: every symbol the ordinary script defines with "x = value", with
               multiplicity, computed from the parsed document alone *)
            let r = d_runtime rt in
            print_string id; print_char '\t';
            (match parse (d_document sd) with
             | Err _ -> print_string "null"
             | Ok d ->
                 let l = if d.doc_settings.single_segment_mode then doc_symbols_single d r else doc_symbols d r in
                 print_string "[";
                 print_string (Stdlib.String.concat "," (Stdlib.List.map (fun x -> ostr (jstr x)) l));
                 print_string "]");
            print_char '\n'
        | L [A "header"; A id; sd; rt; partial] ->
            (* Spec/C13Doc.v: the names the header must declare, computed from the parsed document alone *)
            let r = d_runtime rt in
            print_string id; print_char '\t';
            (match parse (d_document sd) with
             | Err _ -> print_string "null"
             | Ok d ->
                 let l = if d_bool partial then doc_header_symbols_main d r
                         else if d.doc_settings.single_segment_mode then doc_header_symbols_single d r
                         else doc_header_symbols d r in
                 print_string "[";
                 print_string (Stdlib.String.concat "," (Stdlib.List.map (fun x -> ostr (jstr x)) l));
                 print_string "]");
            print_char '\n'
        | L [A "grammar"; A id; sd; rt; partial; L scripts] ->
            (* the extracted grammar reader of Spec/C19Grammar.v on script texts produced by the REAL tool:
               names_valid = the document-side hypothesis of C19_generated_lines, accepted = wf_lines of each text *)
            let r = d_runtime rt in
            let nv = (match parse (d_document sd) with
                      | Ok d -> if d_bool partial then doc_names_valid_partial d r else doc_names_valid d r
                      | Err _ -> false) in
            let split_lines (s : char list) : char list list =
              let rec go acc cur = function
                | [] -> Stdlib.List.rev (Stdlib.List.rev cur :: acc)
                | '\n' :: t -> go (Stdlib.List.rev cur :: acc) [] t
                | c :: t -> go acc (c :: cur) t in
              let ls = go [] [] s in
              (* the text ends with a line break: no empty last line *)
              (match Stdlib.List.rev ls with [] :: r -> Stdlib.List.rev r | _ -> ls) in
            let oks = Stdlib.List.map (fun t -> wf_lines (split_lines (d_str t))) scripts in
            print_string id; print_char '\t';
            print_string (if nv then "{\"names_valid\":true,\"accepted\":[" else "{\"names_valid\":false,\"accepted\":[");
            print_string (Stdlib.String.concat "," (Stdlib.List.map (fun b -> if b then "true" else "false") oks));
            print_string "]}"; print_char '\n'
SPEC*)
        | _ -> raise (Bad "unknown case form")
      end
    done
  with End_of_file -> ()
