#!/usr/bin/env python3
"""Confirm a seeded change in a scratch worktree: existing tests pass with it, its demonstration fails with it and
passes without it.  usage: seedverify.py <seed dir> <worktree>"""
import json, os, subprocess, sys


def sh(cmd, cwd, timeout=1800):
    env = dict(os.environ, CARGO_NET_OFFLINE="true", CARGO_TARGET_DIR=os.path.join(cwd, "target"))
    p = subprocess.run(["bash", "-c", cmd], cwd=cwd, stdout=subprocess.PIPE, stderr=subprocess.STDOUT, text=True,
                       timeout=timeout, env=env)
    return p.returncode, p.stdout


def main():
    seed, wt = sys.argv[1], sys.argv[2]
    meta = json.load(open(os.path.join(seed, "meta.json")))
    demo = meta["demo_cmd"].split("#")[0].strip()
    demo = demo.replace("/tmp/seedwt/%s" % meta["property"], wt).replace("/tmp/seedwt2/%s" % meta["property"], wt)
    sh("git checkout -- . && git clean -fdq -e target", wt)
    res = {}
    rc, out = sh("git apply %s" % os.path.join(seed, "patch.diff"), wt)
    res["applies"] = rc == 0
    rc, out = sh("cargo test --workspace --offline 2>&1 | tail -40", wt)
    res["tests_pass_with_change"] = "test result: ok. 62 passed" in out and "FAILED" not in out
    rc, out = sh(demo, wt)
    res["demo_fails_with_change"] = rc != 0 or "test result: FAILED" in out
    sh("git checkout -- . && git clean -fdq -e target", wt)
    rc, out = sh(demo, wt)
    res["demo_passes_without_change"] = rc == 0 and "test result: FAILED" not in out
    sh("git checkout -- . && git clean -fdq -e target", wt)
    res["confirmed"] = all(res.values())
    print(json.dumps(res))
    with open(os.path.join(seed, "confirmed.json"), "w") as f:
        json.dump(res, f)


if __name__ == "__main__":
    main()
