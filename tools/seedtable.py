#!/usr/bin/env python3
"""Print the markdown table of seeded changes and which checks caught them (from seeded/*/meta.json)."""
import json, glob, os
VERIF = os.path.dirname(os.path.dirname(os.path.abspath(__file__)))
rows = []
for d in sorted(glob.glob(os.path.join(VERIF, "seeded", "*"))):
    m = json.load(open(os.path.join(d, "meta.json")))
    res = m.get("check_results", {})
    caught = []
    for pid, r in sorted(res.items()):
        if r.get("exit") == 1 and r.get("violation"):
            how = "failing input" if "no-failing-input-found" not in r["violation"][0] else "correspondence (no-failing-input-found)"
            caught.append("%s: %s" % (pid, how))
        else:
            caught.append("%s: MISSED" % pid)
    what = m["what"].split(". ")[0][:150].replace("|", "/")
    rows.append("| %s | %s | %s | %s |" % (os.path.basename(d), ", ".join(m.get("files_touched", []))[:60], what,
                                         "; ".join(caught) + (" - " + m["note"] if m.get("note") else "")))
print("| seed | file(s) | change | quick check verdict |\n|---|---|---|---|")
print("\n".join(rows))
