#!/usr/bin/env python3
"""rs2v: regenerate coq/Model/Generated.v from /repo's Rust source (DESIGN.md 2.4 a).

Translates only the literal shapes it knows; anything else stops with "untranslatable".
Tables produced:
  * every `settings_default_*` / `gp_info_default_*` function body
  * the 2 x 16 format templates of LinkerSymbolsStyle and the `.rodata -> RoData` case
  * the version triple
"""
import re, sys, os

REPO = os.environ.get("SLINKY_REPO", "/repo")
SRC = os.path.join(REPO, "slinky", "src")


class Untranslatable(Exception):
    pass


def coq_str(s):
    if any(ord(c) > 126 or ord(c) < 32 for c in s):
        raise Untranslatable("non-printable literal %r" % s)
    return '"' + s.replace('"', '""') + '"'


TYPE_MAP = {
    "PathBuf": "string",
    "String": "string",
    "bool": "bool",
    "u32": "N",
    "i32": "Z",
    "LinkerSymbolsStyle": "style",
    "Option<PathBuf>": "option string",
    "Option<u32>": "option N",
    "Vec<String>": "list string",
    "HashMap<String, u32>": "list (string * N)",
    "HashMap<String, Vec<String>>": "list (string * list string)",
}


def parse_int(tok):
    tok = tok.replace("_", "")
    if re.fullmatch(r"0x[0-9A-Fa-f]+", tok):
        return int(tok, 16)
    if re.fullmatch(r"-?[0-9]+", tok):
        return int(tok)
    raise Untranslatable("integer literal %r" % tok)


def translate_body(ty, body):
    body = " ".join(body.split())
    cty = TYPE_MAP.get(ty)
    if cty is None:
        raise Untranslatable("return type %r" % ty)
    if cty == "string":
        if body in ("PathBuf::new()", "String::new()"):
            return '""'
        m = re.fullmatch(r'"((?:[^"\\])*)"\.(?:to_string|into)\(\)', body)
        if m:
            return coq_str(m.group(1))
        raise Untranslatable("string body %r" % body)
    if cty == "bool":
        if body in ("true", "false"):
            return body
        raise Untranslatable("bool body %r" % body)
    if cty == "N":
        return "%d%%N" % parse_int(body)
    if cty == "Z":
        return "(%d)%%Z" % parse_int(body)
    if cty == "style":
        m = re.fullmatch(r"LinkerSymbolsStyle::(Splat|Makerom)", body)
        if m:
            return m.group(1)
        raise Untranslatable("style body %r" % body)
    if cty.startswith("option"):
        if body == "None":
            return "None"
        m = re.fullmatch(r"Some\((.*)\)", body)
        if m:
            inner = m.group(1)
            if cty == "option N":
                return "(Some %d%%N)" % parse_int(inner)
            raise Untranslatable("Some(..) of %s" % cty)
        raise Untranslatable("option body %r" % body)
    if cty == "list string":
        if body in ("vec![]", "Vec::new()"):
            return "[]"
        m = re.fullmatch(r"vec!\[(.*?),?\s*\]", body)
        if m:
            items = []
            for it in re.split(r",\s*", m.group(1).strip()):
                mm = re.fullmatch(r'"((?:[^"\\])*)"\.(?:into|to_string)\(\)', it.strip())
                if not mm:
                    raise Untranslatable("vec item %r" % it)
                items.append(coq_str(mm.group(1)))
            return "[" + "; ".join(items) + "]"
        raise Untranslatable("vec body %r" % body)
    if cty.startswith("list (string *"):
        if body in ("HashMap::new()", "HashMap::default()"):
            return "[]"
        raise Untranslatable("map body %r" % body)
    raise Untranslatable("type %r" % cty)


def default_functions(path, prefix):
    text = open(path).read()
    out = []
    for m in re.finditer(
        r"(?:const\s+)?fn\s+(%s\w+)\s*\(\s*\)\s*->\s*([^{]+?)\s*\{(.*?)\n\}" % prefix, text, re.S
    ):
        name, ty, body = m.group(1), m.group(2).strip(), m.group(3).strip()
        out.append((name, TYPE_MAP.get(ty), translate_body(ty, body)))
    return out


def template_pieces(fmt):
    # "{}_ROM_START" -> ["", "_ROM_START"]
    if "{{" in fmt or "}}" in fmt:
        raise Untranslatable("escaped brace in %r" % fmt)
    pieces = fmt.split("{}")
    if any("{" in p or "}" in p for p in pieces):
        raise Untranslatable("non-positional format %r" % fmt)
    return pieces


def style_table(path):
    text = open(path).read()
    rows = []
    for m in re.finditer(r"pub fn (\w+)\(&self, ([^)]*)\) -> String \{(.*?)\n    \}", text, re.S):
        name, args, body = m.group(1), m.group(2), m.group(3)
        argn = [a.split(":")[0].strip() for a in args.split(",")]
        ms = re.search(r'LinkerSymbolsStyle::Splat => format!\("([^"]*)"((?:,\s*\w+)*)\)', body)
        mm = re.search(r'LinkerSymbolsStyle::Makerom => format!\("([^"]*)"((?:,\s*\w+)*)\)', body)
        if not ms or not mm:
            raise Untranslatable("style function %s" % name)
        for mx in (ms, mm):
            used = [a.strip() for a in mx.group(2).split(",") if a.strip()]
            expect = list(argn)
            if "section_type" in expect:
                if "let sec = self.convert_section_name_to_linker_format(section_type);" not in body:
                    raise Untranslatable("section conversion in %s" % name)
                expect = [("sec" if a == "section_type" else a) for a in expect]
            if used != expect:
                raise Untranslatable("argument order in %s: %r vs %r" % (name, used, expect))
        rows.append((name, template_pieces(ms.group(1)), template_pieces(mm.group(1))))
    # the section-name conversion
    conv = re.search(
        r"fn convert_section_name_to_linker_format\(&self, section_type: &str\) -> String \{(.*?)\n    \}",
        text, re.S).group(1)
    conv_n = " ".join(conv.split())
    expected = ("match self { LinkerSymbolsStyle::Splat => section_type.replace('.', \"_\").to_uppercase(), "
                "LinkerSymbolsStyle::Makerom => { // TODO: yeet RoData? "
                "if section_type == \"RODATA_FROM\" { \"RODATA_TO\".to_string() } "
                "else if section_type.chars().nth(0) == Some('.') { utils::capitalize(&section_type[1..]) } "
                "else { utils::capitalize(section_type) } } }")
    mro = re.search(r'if section_type == "([^"]*)" \{ "([^"]*)"\.to_string\(\) \}', conv_n)
    if not mro:
        raise Untranslatable("rodata special case")
    if conv_n != expected.replace("RODATA_FROM", mro.group(1)).replace("RODATA_TO", mro.group(2)):
        raise Untranslatable("convert_section_name_to_linker_format has an unknown shape")
    return rows, (mro.group(1), mro.group(2))


def format_templates(path):
    """every literal format!(\"...\") template of a file, in source order: (pieces, specs, name) where name is
    <enclosing fn>_<ordinal of the template inside that fn>, so that an edit elsewhere in the file does not rename it"""
    text = open(path).read()
    out = []
    fns = [(mm.start(), mm.group(1)) for mm in re.finditer(r"\bfn\s+(\w+)", text)]
    per_fn = {}
    for m in re.finditer(r'format!\(\s*"((?:[^"\\]|\\.)*)"', text):
        lit = m.group(1)
        fn = "top"
        for pos, nm in fns:
            if pos < m.start():
                fn = nm
        k = per_fn.get(fn, 0)
        per_fn[fn] = k + 1
        name = "%s_%d" % (fn, k)
        # Rust string escapes that occur in these files: \" and \n
        lit = lit.replace('\\"', '"').replace("\\n", "\n")
        pieces, specs, cur, i = [], [], "", 0
        while i < len(lit):
            c = lit[i]
            if c == "{":
                if lit[i + 1] == "{":
                    cur += "{"
                    i += 2
                    continue
                j = lit.index("}", i)
                spec = lit[i + 1:j]
                if spec not in ("", ":X", ":08X"):
                    raise Untranslatable("format spec {%s} in %r" % (spec, lit))
                pieces.append(cur)
                specs.append(spec)
                cur = ""
                i = j + 1
                continue
            if c == "}":
                if lit[i + 1:i + 2] != "}":
                    raise Untranslatable("lone } in %r" % lit)
                cur += "}"
                i += 2
                continue
            cur += c
            i += 1
        pieces.append(cur)
        out.append((pieces, specs, name))
    return out


def coq_str_nl(s):
    # a piece may contain a line break (not in these files today)
    if "\n" in s:
        raise Untranslatable("line break inside a template %r" % s)
    return coq_str(s)


def version(path):
    text = open(path).read()
    v = []
    for k in ("MAJOR", "MINOR", "PATCH"):
        m = re.search(r"pub static VERSION_%s: u32 = (\d+);" % k, text)
        if not m:
            raise Untranslatable("version %s" % k)
        v.append(int(m.group(1)))
    return v


def generate():
    out = []
    out.append("(* GENERATED by tools/rs2v.py from %s - do not edit. *)" % SRC)
    out.append("From Slinky Require Import Model.Types.")
    out.append("")
    for name, cty, val in default_functions(os.path.join(SRC, "settings.rs"), "settings_default_"):
        out.append("Definition %s : %s := %s." % (name, cty, val))
    out.append("")
    for name, cty, val in default_functions(os.path.join(SRC, "gp_info.rs"), "gp_info_default_"):
        out.append("Definition %s : %s := %s." % (name, cty, val))
    out.append("")
    rows, (ro_from, ro_to) = style_table(os.path.join(SRC, "linker_symbols_style.rs"))
    for name, sp, mk in rows:
        out.append("Definition tpl_%s : list string * list string :=" % name)
        out.append("  ([%s], [%s])." % ("; ".join(map(coq_str, sp)), "; ".join(map(coq_str, mk))))
    out.append("Definition style_function_names : list string := [%s]."
               % "; ".join(coq_str(r[0]) for r in rows))
    out.append("Definition makerom_special_from : string := %s." % coq_str(ro_from))
    out.append("Definition makerom_special_to : string := %s." % coq_str(ro_to))
    out.append("")
    for tag, fname in (("sb", "script_buffer.rs"), ("lw", "linker_writer.rs")):
        tpls = format_templates(os.path.join(SRC, fname))
        out.append("(* the literal format! templates of %s: pieces around the arguments and the format specs, named after" % fname)
        out.append("   the enclosing function and the ordinal inside it *)")
        for pieces, specs, name in tpls:
            out.append("Definition t_%s_%s : list string := [%s]." % (tag, name, "; ".join(coq_str_nl(p) for p in pieces)))
            out.append("Definition t_%s_%s_spec : list string := [%s]." % (tag, name, "; ".join(coq_str(x) for x in specs)))
        out.append("(* all of them, in source order *)")
        out.append("Definition fmt_%s : list (list string) := [%s]." % (tag, "; ".join("t_%s_%s" % (tag, n) for _, _, n in tpls)))
        out.append("Ltac unfold_tpl_%s := unfold %s in *." % (tag, ", ".join("t_%s_%s" % (tag, n) for _, _, n in tpls)))
        out.append("")
    v = version(os.path.join(SRC, "version.rs"))
    out.append("Definition version_major : N := %d%%N." % v[0])
    out.append("Definition version_minor : N := %d%%N." % v[1])
    out.append("Definition version_patch : N := %d%%N." % v[2])
    out.append("")
    return "\n".join(out)


def main():
    dst = sys.argv[1] if len(sys.argv) > 1 else "/verif/coq/Model/Generated.v"
    try:
        text = generate()
    except Untranslatable as e:
        print("rs2v: untranslatable: %s" % e, file=sys.stderr)
        sys.exit(3)
    old = None
    if os.path.exists(dst):
        old = open(dst).read()
    if old != text:
        with open(dst, "w") as f:
            f.write(text)
        print("rs2v: wrote %s" % dst)
    else:
        print("rs2v: %s up to date" % dst)


if __name__ == "__main__":
    main()
