#!/usr/bin/env python3
"""Precision across properties: apply one seeded change and run ALL twenty quick checks, restore /repo.
usage: seedcross.py <seed name> ...   results in /tmp/cross/<name>.json.  Never run while another job uses /repo."""
import json, os, subprocess, sys
VERIF = os.path.dirname(os.path.dirname(os.path.abspath(__file__)))


def sh(cmd, cwd=None):
    p = subprocess.run(cmd, shell=True, cwd=cwd, stdout=subprocess.PIPE, stderr=subprocess.STDOUT, text=True)
    return p.returncode, p.stdout


os.makedirs("/tmp/cross", exist_ok=True)
pids = ["C%02d" % i for i in range(1, 21)]
for seed in sys.argv[1:]:
    d = os.path.join(VERIF, "seeded", seed)
    rc, out = sh("git -C /repo status --porcelain")
    assert not out.strip(), out
    rc, out = sh("git -C /repo apply %s/patch.diff" % d)
    if rc != 0:
        print(seed, "does not apply", out)
        continue
    res = {}
    try:
        for pid in pids:
            rc, out = sh("./check %s --tier quick" % pid, cwd=VERIF)
            viol = [l for l in out.split("\n") if l.startswith("VIOLATION")]
            what = None
            if viol:
                try:
                    r = json.load(open(os.path.join(VERIF, "replays", "%s-1-1.json" % pid)))
                    what = {"kind": r.get("kind"), "what": str(r.get("what"))[:600], "diff_at": str(r.get("diff_at"))[:300]}
                except Exception as e:
                    what = str(e)
            res[pid] = {"exit": rc, "viol": viol[:1], "what": what, "tail": out.strip().split("\n")[-1][:160]}
    finally:
        sh("git -C /repo checkout -- . && git -C /repo clean -fdq")
    json.dump(res, open("/tmp/cross/%s.json" % seed, "w"), indent=1)
    print(seed, " ".join(p for p in pids if res[p]["exit"] != 0), flush=True)
