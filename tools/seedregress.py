#!/usr/bin/env python3
"""Regression over the seeded changes: for each seeded/<name>/ apply patch.diff to /repo, run the quick check of the seed's own
property, restore /repo.  usage: seedregress.py [seed names...]   (default: all); results in /tmp/regress/<name>.json.
Never run while another job uses /repo."""
import json, os, subprocess, sys, glob
VERIF = os.path.dirname(os.path.dirname(os.path.abspath(__file__)))


def sh(cmd, cwd=None):
    p = subprocess.run(cmd, shell=True, cwd=cwd, stdout=subprocess.PIPE, stderr=subprocess.STDOUT, text=True)
    return p.returncode, p.stdout


os.makedirs("/tmp/regress", exist_ok=True)
seeds = sys.argv[1:] or sorted(os.path.basename(d) for d in glob.glob(VERIF + "/seeded/*"))
for seed in seeds:
    out_f = "/tmp/regress/%s.json" % seed
    if os.path.exists(out_f):
        continue
    d = os.path.join(VERIF, "seeded", seed)
    pid = json.load(open(d + "/meta.json"))["property"]
    rc, out = sh("git -C /repo status --porcelain")
    assert not out.strip(), out
    rc, out = sh("git -C /repo apply %s/patch.diff" % d)
    if rc != 0:
        print(seed, "does not apply", out[:200])
        continue
    try:
        rc, out = sh("./check %s --tier quick" % pid, cwd=VERIF)
        viol = [l for l in out.split("\n") if l.startswith("VIOLATION")]
        what = None
        if viol:
            try:
                r = json.load(open(os.path.join(VERIF, "replays", "%s-1-1.json" % pid)))
                what = {"kind": r.get("kind"), "what": str(r.get("what"))[:500]}
            except Exception as e:
                what = str(e)
        res = {pid: {"exit": rc, "violation": viol[:2], "tail": out.strip().split("\n")[-1][:200]}, "replay_summary": what}
    finally:
        sh("git -C /repo checkout -- . && git -C /repo clean -fdq")
    json.dump(res, open(out_f, "w"), indent=1)
    print(seed, "CAUGHT" if res[pid]["exit"] == 1 and viol else "MISSED", (viol[0][-25:] if viol else ""), flush=True)
