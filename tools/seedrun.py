#!/usr/bin/env python3
"""Run checks against a seeded change: apply its patch to /repo, run ./check for the given properties, undo.
usage: seedrun.py <seed dir> [Cxx ...]     (default: the property named in meta.json)"""
import json, os, subprocess, sys, time

VERIF = os.path.dirname(os.path.dirname(os.path.abspath(__file__)))


def sh(cmd, cwd=None, timeout=3600):
    p = subprocess.run(cmd, shell=True, cwd=cwd, stdout=subprocess.PIPE, stderr=subprocess.STDOUT, text=True, timeout=timeout)
    return p.returncode, p.stdout


def main():
    seed = sys.argv[1]
    meta = json.load(open(os.path.join(seed, "meta.json")))
    pids = sys.argv[2:] or [meta["property"]]
    rc, out = sh("git -C /repo status --porcelain")
    if out.strip():
        print("refusing: /repo is not clean:\n" + out)
        sys.exit(2)
    rc, out = sh("git -C /repo apply %s" % os.path.join(os.path.abspath(seed), "patch.diff"))
    if rc != 0:
        print("patch does not apply: " + out)
        sys.exit(2)
    results = {}
    try:
        for pid in pids:
            t = time.time()
            rc, out = sh("./check %s --tier quick" % pid, cwd=VERIF)
            viol = [l for l in out.split("\n") if l.startswith("VIOLATION")]
            results[pid] = {"exit": rc, "violation": viol[:2], "tail": out.strip().split("\n")[-1], "s": round(time.time() - t, 1)}
            print(pid, json.dumps(results[pid]))
    finally:
        sh("git -C /repo checkout -- . && git -C /repo clean -fdq")
    json.dump(results, open(os.path.join(seed, "check_results.json"), "w"), indent=1)


if __name__ == "__main__":
    main()
