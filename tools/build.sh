#!/bin/bash
# Build everything the checks need from /repo's current working tree and /verif's sources.
# usage: tools/build.sh [coq|extract|harness|cli|all]   (serialised by flock on build/.lock)
set -uo pipefail
VERIF="$(cd "$(dirname "$0")/.." && pwd)"
BUILD="$VERIF/build"
mkdir -p "$BUILD/extracted" "$BUILD/scratch" "$BUILD/target" "$BUILD/logs"
what="${1:-all}"
export CARGO_NET_OFFLINE=true
exec 9>"$BUILD/.lock"
flock 9

STATUS="$BUILD/logs/status.txt"
note() { echo "$1" >> "$STATUS"; }

build_coq() {
  if ! python3 "$VERIF/tools/rs2v.py" "$VERIF/coq/Model/Generated.v" > "$BUILD/logs/rs2v.log" 2>&1; then
    # the translator does not recognise the source any more: the tables of the model are no longer those of /repo
    note "rs2v FAILED: $(tail -1 "$BUILD/logs/rs2v.log")"
  fi
  cat "$BUILD/logs/rs2v.log"
  cd "$VERIF/coq"
  if [ ! -f Makefile ] || [ _CoqProject -nt Makefile ]; then
    coq_makefile -f _CoqProject -o Makefile > /dev/null
  fi
  # targets: the model and the Properties files of the claimed properties (MANIFEST.json)
  targets="Model/Dump.vo Model/LdDump.vo Properties/DocLevel.vo"
  for p in $(python3 -c "import json;print(' '.join(c['property_id'] for c in json.load(open('$VERIF/MANIFEST.json'))['checks']))"); do
    for f in Properties/$p*.v; do
      if grep -q "^Theorem" "$f" 2>/dev/null; then targets="$targets ${f%.v}.vo"; fi
    done
  done
  targets="$targets ${EXTRA_COQ_TARGETS:-}"
  ( ulimit -v 16000000; timeout 3000 make -k -j16 COQC="timeout 1500 coqc" $targets ) > "$BUILD/logs/coq_make.log" 2>&1 || true
  grep -E "^(Error|File )|make.*Error" "$BUILD/logs/coq_make.log" | head -20 || true
  if grep -q "Error" "$BUILD/logs/coq_make.log"; then echo "coq build FAILED"; note "coq FAILED"; return 1; fi
}

build_extract() {
  cd "$BUILD/extracted"
  if [ ! -f model.ml ] || [ -n "$(find "$VERIF/coq" -name '*.vo' -newer model.ml 2>/dev/null | head -1)" ] \
     || [ "$VERIF/coq/Extract/Extract.v" -nt model.ml ] || [ "$VERIF/driver/main.ml" -nt "$BUILD/driver" ] \
     || [ ! -x "$BUILD/driver" ]; then
    timeout 600 coqc -Q "$VERIF/coq" Slinky "$VERIF/coq/Extract/Extract.v" > "$BUILD/logs/extract.log" 2>&1
    rm -f "$VERIF/coq/Extract/"*.vo "$VERIF/coq/Extract/"*.glob "$VERIF/coq/Extract/".*.aux 2>/dev/null || true
    cp "$VERIF/driver/main.ml" main.ml
    ocamlfind ocamlopt -w -a -o "$BUILD/driver" model.mli model.ml main.ml >> "$BUILD/logs/extract.log" 2>&1 \
      || { note "extraction FAILED"; rm -f "$BUILD/driver"; }
  fi
}

build_specdriver() {
  # optional second program: the extracted specification checkers (needs coq/Spec/C16.vo)
  mkdir -p "$BUILD/extracted_spec"
  cd "$BUILD/extracted_spec"
  if [ -f "$VERIF/coq/Spec/C16.vo" ]; then
    if [ ! -x "$BUILD/driver_spec" ] || [ "$VERIF/coq/Spec/C16.vo" -nt "$BUILD/driver_spec" ] \
       || [ "$VERIF/coq/Spec/C19Grammar.vo" -nt "$BUILD/driver_spec" ] || [ "$VERIF/coq/Spec/C13Doc.vo" -nt "$BUILD/driver_spec" ] || [ "$VERIF/coq/Spec/DocSingleWf.vo" -nt "$BUILD/driver_spec" ] || [ "$VERIF/coq/Extract/ExtractSpec.v" -nt "$BUILD/driver_spec" ] \
       || [ "$VERIF/driver/main.ml" -nt "$BUILD/driver_spec" ]; then
      ( timeout 600 coqc -Q "$VERIF/coq" Slinky "$VERIF/coq/Extract/ExtractSpec.v" > "$BUILD/logs/extract_spec.log" 2>&1 \
        && rm -f "$VERIF/coq/Extract/"*.vo "$VERIF/coq/Extract/"*.glob "$VERIF/coq/Extract/".*.aux \
        && sed -e 's/^open Model$/open Specmodel/' -e 's/^(\*SPEC$//' -e 's/^SPEC\*)$//' "$VERIF/driver/main.ml" > main_spec.ml && \
        ocamlfind ocamlopt -w -a -o "$BUILD/driver_spec" specmodel.mli specmodel.ml main_spec.ml >> "$BUILD/logs/extract_spec.log" 2>&1 ) \
        || { echo "spec driver build failed (see build/logs/extract_spec.log)"; rm -f "$BUILD/driver_spec"; }
    fi
  fi
}

build_harness() {
  cd "$VERIF/harness"
  cp /repo/Cargo.lock Cargo.lock 2>/dev/null || true
  CARGO_TARGET_DIR="$BUILD/target" timeout 1200 cargo build --release --offline > "$BUILD/logs/harness.log" 2>&1 \
    || { tail -30 "$BUILD/logs/harness.log"; echo "harness build FAILED"; note "harness FAILED"; rm -f "$BUILD/target/release/slinky-verif-harness"; return 1; }
}

build_cli() {
  cd /repo
  CARGO_TARGET_DIR="$BUILD/target_cli" timeout 1200 cargo build --release --offline -p slinky-cli > "$BUILD/logs/cli.log" 2>&1 \
    || { tail -30 "$BUILD/logs/cli.log"; echo "cli build FAILED"; note "cli FAILED"; rm -f "$BUILD/target_cli/release/slinky-cli"; return 1; }
}

: > "$STATUS"
rcsum=0
case "$what" in
  coq) build_coq ;;
  extract) build_coq; build_extract ;;
  harness) build_harness ;;
  cli) build_cli ;;
  all) build_coq || rcsum=1; build_extract || rcsum=1; build_specdriver || rcsum=1; build_harness || rcsum=1; build_cli || rcsum=1 ;;
esac
if [ -s "$STATUS" ]; then cat "$STATUS"; exit 1; fi
exit $rcsum
