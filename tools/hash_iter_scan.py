#!/usr/bin/env python3
"""List every place where /repo/slinky/src iterates a HashMap/HashSet-typed field or local (the only
constructs whose order can differ between runs).  The model has an iteration-order-independent treatment for
exactly the sites listed in EXPECTED; a new site breaks this obligation."""
import re, os, sys, glob, json

SRC = os.path.join(os.environ.get("SLINKY_REPO", "/repo"), "slinky", "src")
EXPECTED = [("linker_writer.rs", "section_order")]


def scan():
    hash_fields = set()
    for f in glob.glob(os.path.join(SRC, "*.rs")):
        for m in re.finditer(r"(?:pub(?:\(crate\))?\s+)?(\w+)\s*:\s*(?:AbsentNullable<)?\s*(?:std::collections::)?Hash(?:Map|Set)<", open(f).read()):
            hash_fields.add(m.group(1))
        for m in re.finditer(r"let\s+(?:mut\s+)?(\w+)\s*(?::\s*[^=]*)?=\s*(?:std::collections::)?Hash(?:Map|Set)::", open(f).read()):
            hash_fields.add(m.group(1))
    hash_fields.discard("custom_options")       # RuntimeSettings: only `get`
    sites = []
    for f in sorted(glob.glob(os.path.join(SRC, "*.rs"))):
        text = open(f).read()
        for n, line in enumerate(text.split("\n"), 1):
            code = line.split("//")[0]
            for fld in hash_fields | {"custom_options"}:
                if re.search(r"for\s+.*\s+in\s+&?(?:mut\s+)?[\w\.]*\b%s\b(?!\s*\.\s*(?:get|contains))" % fld, code) or \
                   re.search(r"\b%s\s*\.\s*(iter|iter_mut|keys|values|values_mut|into_iter|drain|into_keys|into_values|retain)\s*\(" % fld, code):
                    sites.append((os.path.basename(f), fld, n, code.strip()))
    return sites


if __name__ == "__main__":
    sites = scan()
    got = sorted(set((f, fld) for f, fld, n, c in sites))
    ok = got == sorted(EXPECTED)
    print(json.dumps({"ok": ok, "sites": sites, "expected": EXPECTED}))
    sys.exit(0 if ok else 1)
