#!/usr/bin/env python3
"""Regenerate /verif/MANIFEST.json from the table below (one entry per property)."""
import json, os, re, glob

VERIF = os.path.dirname(os.path.dirname(os.path.abspath(__file__)))

TIE = ("Model tied to /repo on every run: tools/rs2v.py regenerates the literal tables (defaults, symbol templates, "
       "version) from the Rust source, and the extracted model is run against the real library (harness/) on the "
       "committed corpus plus seeded structured documents, compared on this property's observable projection.")

P = {
 "C01": ("Script level (coq/Properties/C01.v): what emit_section_for_file produces for every entry - nothing unlisted, "
         "order and sub-group expansion, each listed (entry, section) once under the well-formedness conditions, with "
         "refutation witnesses for the accepted-but-unchecked configurations; link level: theorems about LdSem (placed "
         "sections lie in their output section and are never discarded). Real GNU ld monitor: every marker of a listed "
         "section inside its segment's range.",
         "LdSem is a model of GNU ld validated by sampling against ld 2.40; orphan heuristics, --gc-sections and archive "
         "member selection are not modelled", "Coq proof + ld-semantics model + differential correspondence + real-ld monitor"),
 "C02": ("Script level: segments, parts, groups and entries appear in document order (theorems on the writer model); link "
         "level: LdSem places sections at non-decreasing addresses inside an output section. Real GNU ld monitor: marker "
         "addresses and ROM starts monotone.", "as C01", "Coq proof + ld-semantics model + correspondence + real-ld monitor"),
 "C03": ("Script level: the address request on the header is exactly the field the document sets (at most one, from parsing); "
         "link level (LdSem): section start = requested value or aligned location counter, X_VRAM = ADDR, noload follows "
         "alloc, VRAM_END rounding. Real GNU ld monitor compares sh_addr and VRAM symbols with the requested values.",
         "forward references in address expressions are outside LdSem (ld's treatment is irregular): covered by the script-level "
         "theorem and the real-ld monitor only", "Coq proof + ld-semantics model + correspondence + real-ld monitor"),
 "C04": ("Script level: __romPos bookkeeping statements; link level (LdSem): ROM start/end/size arithmetic per segment and the "
         "chain over segments, AT = ROM start, noload sections contribute nothing. Real GNU ld monitor: ROM symbols, load "
         "addresses from program headers, NOBITS type.", "segment names assumed distinct for the chain theorem",
         "Coq proof + ld-semantics model + correspondence + real-ld monitor"),
 "C05": ("Names: the generated templates equal the documented spelling for all arguments; the recorded symbol list of a segment; "
         "link level (LdSem): size = end - start, start <= end, placements bracketed by group symbols; refutation witness for the "
         "known finding KF-C05-alloc-start. Real GNU ld monitor on nm output.",
         "alloc-kind start symbol precedes the output section (known finding, excluded from start<=end)",
         "Coq proof + ld-semantics model + correspondence + real-ld monitor"),
 "C06": ("Theorems in coq/Properties/C06.v and C06More.v: the control flow of should_emit_entry equals the documented predicate "
         "for all four lists and all option sequences; deleting an excluded assignment / required symbol / assert / segment "
         "(ordinary and partial) / gp_info / file or group at any depth leaves the outputs unchanged; unmentioned options do not "
         "matter.", "single_segment_mode ignores the segment's conditions (known finding KF-C06-single-segment)",
         "Coq proof (induction over entry lists and the file forest) + differential correspondence"),
 "C07": ("The {key} substitution as an inductive relation (functional, total); escape_component realises it (both shortcuts and the "
         "scanner, generalised over its accumulators); exact law of PathBuf::push on components; every SInput path and recorded "
         "dependency path of emit_section_for_file is base/segment dir/group dirs/path with components escaped; errors propagate, "
         "never a partly expanded path.", "paths are byte strings; absolute option values replace the prefix (PathBuf::push) - the join "
         "law carries `relative` hypotheses", "Coq proof (relation vs scanner refinement) + differential correspondence incl. file outputs"),
 "C08": ("For each of the twelve overridable options separate lemmas at the global and the segment level (absent/null/value "
         "resolution), documented defaults = generated tables (reflexivity: breaks when a Rust default changes), restating and "
         "shielding corollaries.", "documented deny list follows CHANGELOG (.got included)",
         "Coq proof (per-field lemmas over the parser model) + differential correspondence on Document dumps"),
 "C09": ("Link level (LdSem): group start/end symbols at multiples of both alignments relative to the part's start (absolute in "
         "single mode), ROM/VRAM segment alignments, SUBALIGN placements, no ALIGN token for null/absent options. Real GNU ld "
         "monitor checks the divisibilities on nm values.", "alignment values that divide one another (powers of two)",
         "Coq proof + ld-semantics model + correspondence + real-ld monitor"),
 "C10": ("Script level: class start/end emitted once before the first included member, error for undeclared class; link level "
         "(LdSem): start value, running max of member ends, size. Real GNU ld monitor on class symbols.",
         "followed classes must be complete before the follower (sequential evaluation)",
         "Coq proof + ld-semantics model + correspondence + real-ld monitor"),
 "C11": ("One sub-script per included segment; the file statements of a section group are the same list in the ordinary script "
         "and in the sub-script; the main script places exactly the partial object per group; same skeleton; missing folders are "
         "errors.", "the two-step link (ld -r) is executed on samples, not modelled",
         "Coq proof + differential correspondence on all three scripts"),
 "C12": ("Shape of the .d text; the writer's recorded path list is the first-occurrence dedup of the paths of the SInput statements "
         "it emitted (invariant through the whole writer); pads/offsets/excluded entries inert; which files are written.",
         "", "Coq proof (writer invariant) + differential correspondence incl. written files"),
 "C13": ("Header text shape; declared names = dedup of recorded assignments; user assignments, _gp, __romPos never recorded; every "
         "declared name has a generated form; link level: every recorded symbol is defined when the final pass has no error. "
         "Real GNU ld monitor: declared names present in nm.", "self-containedness w.r.t. a user typedef is out of scope",
         "Coq proof + correspondence + real-ld monitor"),
 "C14": ("The three push-down passes compute the nearest explicit keep_sections among entry, groups, segment, class (tree-level "
         "theorem for all nesting depths), and every SInput carries keeps(effective value, section).",
         "with duplicate class names the parser uses the first, the writer the last", "Coq proof (nested induction) + correspondence"),
 "C15": ("Sorting with the name tie-break is permutation invariant, hence sections_here and the whole generation are independent of "
         "hash-map order; generation depends on the options only through the last binding per key; CLI result equal for permuted "
         "options. Executed: repeated generation in one process and in fresh processes with permuted options.",
         "the hash-iteration source scan must find exactly the modelled iteration site",
         "Coq proof (permutation invariance, extensionality) + multi-process determinism runs"),
 "C16": ("valid (declarative, from the docs) = accepted, for all serial documents outside the known class; first-error lemmas.",
         "serde's part (unknown keys, types) enters as data; YAML null read as the string \"null\" for plain String fields (known finding)",
         "Coq proof (case analysis over the presence lattice) + correspondence over the malformed stream"),
 "C17": ("Tail statements (entry, assignments with wrappers, required symbols, asserts) in order after SECTIONS; where _gp is "
         "emitted and how often (counting theorems) in all three modes; link level: assert/required/_gp semantics in LdSem. Real "
         "GNU ld monitor for _gp.", "that EXTERN pulls an archive member is ld's archive semantics (executed on samples only)",
         "Coq proof + ld-semantics model + correspondence + real-ld monitor"),
 "C18": ("Exact shape of the tail of SECTIONS (class sizes, allow lists, discard block iff needed) and that it is last in all modes; "
         "link level (LdSem): single-entry sections place exactly the unplaced sections of that name, discard takes only unplaced "
         "ones, placed sections are never discarded. Real GNU ld monitor with extra sections.", "orphan placement not modelled",
         "Coq proof + ld-semantics model + correspondence + real-ld monitor"),
 "C19": ("The model has an explicit crash outcome (recursion bound of emit_section_for_file); theorems: the bound is never reached, "
         "generation returns success or one of the listed error values for ALL documents; rendered blocks are balanced. Executed: "
         "the real library under catch_unwind/stack limit/timeouts on valid, malformed and hostile-byte inputs; GNU ld and ld.lld "
         "acceptance of every generated script on samples.", "serde_yaml's own robustness on raw bytes and linker acceptance are "
         "executed, not proved", "Coq proof (termination bound, totality) + supervised execution + linker acceptance runs"),
 "C20": ("cli_run unfolds into exactly the library's texts at the documented paths; last -c value per key wins; option syntax; "
         "abstract file system: last write wins, other paths untouched; every failure gives non-zero status; the omit flag removes "
         "only the comment. Executed: the real slinky-cli binary in scratch directories with several prior states.",
         "clap tokenisation, File::create truncation, create_dir_all: modelled, validated by running the real binary",
         "Coq proof + real-binary differential runs"),
}


def claimed():
    out = []
    for pid in sorted(P):
        files = glob.glob(os.path.join(VERIF, "coq", "Properties", pid + "*.v"))
        if any(re.search(r"^Theorem\s+\w+", open(f).read(), flags=re.M) for f in files):
            out.append(pid)
    return out


def main():
    only = os.environ.get("CLAIM")
    cl = claimed()
    if only:
        cl = [p for p in cl if p in only.split(",")]
    checks = []
    for pid in cl:
        text, note, tech = P[pid]
        tfiles = sorted(os.path.basename(f) for f in glob.glob(os.path.join(VERIF, "coq", "Properties", pid + "*.v"))
                        if re.search(r"^Theorem\s+\w+", open(f).read(), flags=re.M))
        nthm = sum(len(re.findall(r"^Theorem\s+\w+", open(os.path.join(VERIF, "coq", "Properties", f)).read(), flags=re.M))
                   for f in tfiles)
        text = text + " Theorem files (%d theorems, every one closed under the global context; document-level link theorems and " \
            "refutation lemmas included, see DESIGN.md 8 and 8.1): %s." % (nthm, ", ".join(tfiles))
        checks.append({
            "property_id": pid,
            "quick_cmd": "./check %s --tier quick" % pid,
            "thorough_cmd": "./check %s --tier thorough" % pid,
            "evidence_file": "evidence/%s.json" % pid,
            "replay_cmd_template": "./check %s --replay {path}" % pid,
            "engine": "coq-model",
            "level_claimed": {"category": "proof", "text": text + " " + TIE, "design_ref": "DESIGN.md section 3, %s" % pid},
            "level_note": ("Trusted: Coq 8.16.1 kernel (vm_compute, no native_compute), hand-written model + rs2v + "
                           "correspondence harness, extraction (ExtrOcamlBasic, ExtrOcamlString). " + note).strip(),
            "technique": tech,
        })
    m = {
        "version": 1,
        "setup_cmd": "./check --setup",
        "hooks": {
            "guard": "slinky_verif",
            "enable": "RUSTFLAGS=\"--cfg slinky_verif\" (reserved; no hook is needed: the checks use only slinky's public "
                      "API and the real slinky-cli binary)",
            "baseline_off_cmd": "cd /repo && cargo test --workspace --no-fail-fast --offline",
            "source_commits": [],
            "add_only": True,
        },
        "engines": [
            {"name": "coq-model", "path": "coq/", "serves_properties": cl,
             "kind_free_text": "hand-written Gallina model of slinky (parse, writer, exports, CLI) and of GNU ld's script "
                               "evaluation (LdSem), theorems in coq/Properties, Coq 8.16.1; literal tables regenerated "
                               "from /repo by tools/rs2v.py"},
            {"name": "correspondence", "path": "vlib/ harness/ driver/", "serves_properties": cl,
             "kind_free_text": "differential run of the extracted model and the real library / CLI / GNU ld on seeded "
                               "structured documents; per-property observable projections; monitors on real outputs"},
        ],
        "checks": checks,
        "not_applicable": [{"property_id": pid, "reason": "check under construction: model and correspondence exist, "
                            "its theorems are not committed yet"} for pid in sorted(P) if pid not in cl],
        "notes": "see DESIGN.md; known findings in known_findings.json",
    }
    json.dump(m, open(os.path.join(VERIF, "MANIFEST.json"), "w"), indent=1)
    print("claimed:", " ".join(cl))


if __name__ == "__main__":
    main()
