(* C03Req - "each emitted segment starts at the address the document requests", at DOCUMENT level and
   EXACTLY.  Only statements, each closed by [exact]; see Proofs/C03Req.v, definitions in Spec/C03Req.v.

   What was missing in C03_document_vram (Properties/DocLevel.v, predicate VramChain):
   (a) the start of .seg was constrained only for a segment without address field; for fixed_vram,
       fixed_symbol, follows_segment and vram_class the requested start existed per segment only;
   (b) in the default case the conclusion "exists A, start = align_up (align_up dot sa) A" is a lower
       bound (C03Req_old_formula_is_lower_bound below); "rounded up to the alignment its contents require"
       was not stated.  Likewise A2 for the noload part.

   Here (ReqChain / SegReq, Spec/C03Req.v), for every included segment, in the state at the end of a pass:
   the vma of .seg is [requested_start] read in [header_state ... (alloc_name seg)], the state in which
   LdSem executes the header of .seg:
     fixed_vram v       -> the literal v, nothing added;
     fixed_symbol e     -> the value of the text e there;
     follows_segment n  -> the value of n_VRAM_END there (= the aligned end of the followed segment when it is
                           an EARLIER included segment: C03_document_follows_start);
     vram_class c       -> the value of c_VRAM_CLASS_START there (= its value at the end of the pass when
                           nothing assigns it afterwards: C03_document_class_start);
     none               -> align_up (align_up dot sa) A, dot = the VRAM end of the previous included segment
                           (0 for the first), A = [sec_align] of the input sections .seg RECEIVES: the
                           largest of their alignments and of SUBALIGN, 1 when it receives nothing;
   the vma of .seg.noload is the end of .seg rounded up to [sec_align] of what .seg.noload receives.
   The sections received are exactly those placed in the output section (C03_received_is_placed).

   Hypotheses: those of Properties/DocLevel.v. *)
From Slinky Require Import Model.Types Model.Runtime Model.Style Model.Script Model.Writer Model.LdSem.
From Slinky Require Import Spec.C17 Spec.C04 Spec.C03 Spec.C10 Spec.DocLevel Spec.Fixpoint Spec.DocPartial Spec.C03Req.
From Slinky Require Import Proofs.C18 Proofs.C04 Proofs.C03Req.
From Coq Require Import ZArith Lia.
Local Open Scope string_scope.
Local Open Scope Z_scope.

(* ====================================================================== *)
(* 1. the alignment of an output section                                   *)
(* ====================================================================== *)

(* the alignment LdSem.exec_outsec rounds "." up to (body_align, computed from the input sections the body
   will receive and SUBALIGN) is [sec_align] of [received body remaining] *)
Theorem C03Req_body_align_pinned : forall sub body rem,
  body_align (option_map Z.of_N sub) body rem 1 = sec_align sub (received body rem).
Proof. exact body_align_pinned. Qed.

(* sec_align: 1 when nothing is received; else at least SUBALIGN and the alignment of every received
   section, and equal to 1, to SUBALIGN or to the alignment of a received section *)
Theorem C03Req_sec_align_spec : forall sub us,
  1 <= sec_align sub us /\
  (us = [] -> sec_align sub us = 1) /\
  (us <> [] -> sub_z sub <= sec_align sub us) /\
  (forall u, In u us -> u_align u <= sec_align sub us) /\
  (sec_align sub us = 1 \/ (us <> [] /\ sec_align sub us = sub_z sub) \/
   exists u, In u us /\ sec_align sub us = u_align u).
Proof. exact sec_align_spec. Qed.

(* for ANY script and section name: unless the address of that output section could not be evaluated, the
   placements of the final state are those made before its header, then one placement per input section it
   receives (same markers, same order, all in that output section), then those made after it *)
Theorem C03_received_is_placed : forall env senv ext final script u name,
  let st' := exec_script env senv ext final script (init_state u) in
  let stH := header_state env senv ext final script u name in
  ~ In (LForwardRef name) (l_errors st') ->
  exists new post,
    l_placed st' = (l_placed stH ++ new ++ post)%list /\
    map pl_marker new = map u_marker (received (sec_body name (flat_stmts script)) (l_remaining stH)) /\
    Forall (fun p => pl_outsec p = name) new.
Proof. exact script_received_placed. Qed.

(* ====================================================================== *)
(* 2. one segment (what add_segment emits), any starting state             *)
(* ====================================================================== *)

Theorem C03Req_segment : forall env senv ext final rt stg cfg classes seg ws s ws' st0,
  add_segment rt stg cfg classes seg ws = Ok (s, ws') ->
  should_emit rt (sg_conds seg) = true ->
  let sty := linker_symbols_style stg in
  let name := sg_name seg in
  let st' := run env senv ext final s st0 in
  vram_names_distinct sty name s = true ->
  ~ In (LForwardRef (alloc_name seg)) (l_errors st') ->
  sizes_ok st0 ->
  exists pre body1 mid body2 post o1 o2,
    let O1 := SOutSec (alloc_name seg) (segment_addr sty seg) (Some (segment_rom_start sty name)) false
                      (subalign seg) body1 in
    let O2 := SOutSec (noload_name seg) None None true (subalign seg) body2 in
    s = (pre ++ O1 :: mid ++ O2 :: post)%list /\
    flat_map makes_sec pre = [] /\ flat_map makes_sec mid = [] /\
    let stH := run env senv ext final pre st0 in
    let stN := run env senv ext final (pre ++ O1 :: mid) st0 in
    l_dot stH = align_up (l_dot st0) (align_z (segment_start_align seg)) /\
    requested_start env ext sty seg (sec_align (subalign seg) (received body1 (l_remaining stH))) stH
      = Some (os_vma o1) /\
    l_secs st' = (l_secs st0 ++ [o1; o2])%list /\
    os_name o1 = alloc_name seg /\ os_name o2 = noload_name seg /\
    0 <= os_size o1 /\ 0 <= os_size o2 /\
    l_dot stN = os_vma o1 + os_size o1 /\
    os_vma o2 = align_up (os_vma o1 + os_size o1)
                         (sec_align (subalign seg) (received body2 (l_remaining stN))) /\
    let ve := align_up (os_vma o2 + os_size o2) (align_z (segment_end_align seg)) in
    l_dot st' = ve /\ val st' (segment_vram_end sty name) = Some ve.
Proof. exact segment_req. Qed.

(* ====================================================================== *)
(* 3. the document                                                         *)
(* ====================================================================== *)

(* C03_document_requested_start.  ReqChain (Spec/C03Req.v) started at "." = 0: for the included segments in
   document order, with stH / stN the states at the headers of .seg / .seg.noload and dt the location counter
   before the segment (0, then the VRAM end of the previous one):
     l_dot stH = align_up dt segment_start_align;
     requested_start ... stH = Some (vma of .seg), with A = sec_align subalign (what .seg receives);
     l_dot stN = vma + size of .seg;
     vma of .seg.noload = align_up (vma + size of .seg) (sec_align subalign (what .seg.noload receives));
     X_VRAM_END = align_up (vma + size of .seg.noload) segment_end_align. *)
Theorem C03_document_requested_start : forall env senv ext final d rt w u,
  gen_normal d rt = Ok w -> doc_link_wf d rt = true ->
  Forall (fun x => 0 <= u_size x) u ->
  let sty := linker_symbols_style (doc_settings d) in
  let segs := included rt (doc_segments d) in
  let st' := exec_script env senv ext final (wo_script w) (init_state u) in
  (forall seg, In seg segs -> ~ In (LForwardRef (alloc_name seg)) (l_errors st')) ->
  ReqChain sty env ext (header_state env senv ext final (wo_script w) u)
           (fun n => sec_body n (flat_stmts (wo_script w))) st' 0 segs.
Proof. exact document_requested_start. Qed.

(* the last pass of layout: the previous pass is the second one *)
Theorem C03_document_requested_start_layout : forall d rt w u ext0,
  gen_normal d rt = Ok w -> doc_link_wf d rt = true ->
  Forall (fun x => 0 <= u_size x) u ->
  let sty := linker_symbols_style (doc_settings d) in
  let segs := included rt (doc_segments d) in
  let p1 := exec_script [] [] ext0 false (wo_script w) (init_state u) in
  let p2 := exec_script (l_syms p1) (l_secs p1) (ext0 ++ markers_of p1)%list false (wo_script w) (init_state u) in
  let ext3 := (ext0 ++ markers_of p2)%list in
  let st' := layout (wo_script w) u ext0 in
  (forall seg, In seg segs -> ~ In (LForwardRef (alloc_name seg)) (l_errors st')) ->
  ReqChain sty (l_syms p2) ext3 (header_state (l_syms p2) (l_secs p2) ext3 true (wo_script w) u)
           (fun n => sec_body n (flat_stmts (wo_script w))) st' 0 segs.
Proof. exact document_requested_start_layout. Qed.

(* reading the chain: the segment after [l1]; the location counter before it is [dt] for the first
   segment, else the value of the VRAM end of the segment just before it *)
Theorem C03Req_chain_split : forall sty env ext hs bd st' l1 seg l2 dt,
  ReqChain sty env ext hs bd st' dt (l1 ++ seg :: l2) ->
  exists dt' ve,
    (l1 = [] -> dt' = dt) /\
    (forall l0 p, l1 = (l0 ++ [p])%list -> val st' (segment_vram_end sty (sg_name p)) = Some dt') /\
    SegReq sty env ext (hs (alloc_name seg)) (hs (noload_name seg)) (bd (alloc_name seg))
           (bd (noload_name seg)) st' dt' seg ve /\
    ReqChain sty env ext hs bd st' ve l2.
Proof. exact ReqChain_split. Qed.

Theorem C03Req_chain_in : forall sty env ext hs bd st' segs seg dt,
  ReqChain sty env ext hs bd st' dt segs -> In seg segs ->
  exists dt' ve, SegReq sty env ext (hs (alloc_name seg)) (hs (noload_name seg)) (bd (alloc_name seg))
                        (bd (noload_name seg)) st' dt' seg ve.
Proof. exact ReqChain_in. Qed.

(* ---------- the five kinds, read at the end of the pass ---------- *)

(* fixed_vram: the literal, as written *)
Theorem C03Req_fixed_vram_literal : forall env ext sty seg A stH v,
  sg_fixed_vram seg = Some v -> requested_start env ext sty seg A stH = Some (Z.of_N v).
Proof. exact requested_fixed_vram. Qed.

(* no address field: the old existential with A pinned and "." before the segment named *)
Theorem C03_document_default_start : forall env senv ext final d rt w u l1 seg l2,
  gen_normal d rt = Ok w -> doc_link_wf d rt = true ->
  Forall (fun x => 0 <= u_size x) u ->
  included rt (doc_segments d) = (l1 ++ seg :: l2)%list ->
  sg_fixed_vram seg = None -> sg_fixed_symbol seg = None -> sg_follows_segment seg = None ->
  sg_vram_class seg = None ->
  let sty := linker_symbols_style (doc_settings d) in
  let st' := exec_script env senv ext final (wo_script w) (init_state u) in
  let stH := header_state env senv ext final (wo_script w) u (alloc_name seg) in
  (forall s, In s (included rt (doc_segments d)) -> ~ In (LForwardRef (alloc_name s)) (l_errors st')) ->
  exists o1 dt,
    find_sec (alloc_name seg) (l_secs st') = Some o1 /\
    (l1 = [] -> dt = 0) /\
    (forall l0 p, l1 = (l0 ++ [p])%list -> val st' (segment_vram_end sty (sg_name p)) = Some dt) /\
    os_vma o1 = align_up (align_up dt (align_z (segment_start_align seg)))
                         (sec_align (subalign seg)
                                    (received (sec_body (alloc_name seg) (flat_stmts (wo_script w)))
                                              (l_remaining stH))).
Proof. exact document_default_start. Qed.

Theorem C03_document_default_start_layout : forall d rt w u ext0 l1 seg l2,
  gen_normal d rt = Ok w -> doc_link_wf d rt = true ->
  Forall (fun x => 0 <= u_size x) u ->
  included rt (doc_segments d) = (l1 ++ seg :: l2)%list ->
  sg_fixed_vram seg = None -> sg_fixed_symbol seg = None -> sg_follows_segment seg = None ->
  sg_vram_class seg = None ->
  let sty := linker_symbols_style (doc_settings d) in
  let p1 := exec_script [] [] ext0 false (wo_script w) (init_state u) in
  let p2 := exec_script (l_syms p1) (l_secs p1) (ext0 ++ markers_of p1)%list false (wo_script w) (init_state u) in
  let st' := layout (wo_script w) u ext0 in
  let stH := header_state (l_syms p2) (l_secs p2) (ext0 ++ markers_of p2)%list true (wo_script w) u (alloc_name seg) in
  (forall s, In s (included rt (doc_segments d)) -> ~ In (LForwardRef (alloc_name s)) (l_errors st')) ->
  exists o1 dt,
    find_sec (alloc_name seg) (l_secs st') = Some o1 /\
    (l1 = [] -> dt = 0) /\
    (forall l0 p, l1 = (l0 ++ [p])%list -> val st' (segment_vram_end sty (sg_name p)) = Some dt) /\
    os_vma o1 = align_up (align_up dt (align_z (segment_start_align seg)))
                         (sec_align (subalign seg)
                                    (received (sec_body (alloc_name seg) (flat_stmts (wo_script w)))
                                              (l_remaining stH))).
Proof. exact document_default_start_layout. Qed.

(* the noload part: starts at the end of the allocatable part rounded up to the alignment of what it receives *)
Theorem C03_document_noload_start : forall env senv ext final d rt w u seg,
  gen_normal d rt = Ok w -> doc_link_wf d rt = true ->
  Forall (fun x => 0 <= u_size x) u ->
  In seg (included rt (doc_segments d)) ->
  let st' := exec_script env senv ext final (wo_script w) (init_state u) in
  let stN := header_state env senv ext final (wo_script w) u (noload_name seg) in
  (forall s, In s (included rt (doc_segments d)) -> ~ In (LForwardRef (alloc_name s)) (l_errors st')) ->
  exists o1 o2,
    find_sec (alloc_name seg) (l_secs st') = Some o1 /\
    find_sec (noload_name seg) (l_secs st') = Some o2 /\
    l_dot stN = os_vma o1 + os_size o1 /\
    os_vma o2 = align_up (os_vma o1 + os_size o1)
                         (sec_align (subalign seg)
                                    (received (sec_body (noload_name seg) (flat_stmts (wo_script w)))
                                              (l_remaining stN))).
Proof. exact document_noload_start. Qed.

(* follows_segment, the followed segment [segn] being an included segment written EARLIER in the document:
   .seg starts at the end of .segn.noload rounded up to the segment_end_align of segn, which is the value
   of segn_VRAM_END at the end of the pass *)
Theorem C03_document_follows_start : forall env senv ext final d rt w u la seg lb segn,
  gen_normal d rt = Ok w -> doc_link_wf d rt = true ->
  Forall (fun x => 0 <= u_size x) u ->
  doc_segments d = (la ++ seg :: lb)%list -> should_emit rt (sg_conds seg) = true ->
  In segn (included rt la) ->
  sg_fixed_vram seg = None -> sg_fixed_symbol seg = None -> sg_follows_segment seg = Some (sg_name segn) ->
  let sty := linker_symbols_style (doc_settings d) in
  let st' := exec_script env senv ext final (wo_script w) (init_state u) in
  (forall s, In s (included rt (doc_segments d)) -> ~ In (LForwardRef (alloc_name s)) (l_errors st')) ->
  exists o1 on2,
    find_sec (alloc_name seg) (l_secs st') = Some o1 /\
    find_sec (noload_name segn) (l_secs st') = Some on2 /\
    os_vma o1 = align_up (os_vma on2 + os_size on2) (align_z (segment_end_align segn)) /\
    val st' (segment_vram_end sty (sg_name segn)) = Some (os_vma o1).
Proof. exact document_follows_start. Qed.

Theorem C03_document_follows_start_layout : forall d rt w u ext0 la seg lb segn,
  gen_normal d rt = Ok w -> doc_link_wf d rt = true ->
  Forall (fun x => 0 <= u_size x) u ->
  doc_segments d = (la ++ seg :: lb)%list -> should_emit rt (sg_conds seg) = true ->
  In segn (included rt la) ->
  sg_fixed_vram seg = None -> sg_fixed_symbol seg = None -> sg_follows_segment seg = Some (sg_name segn) ->
  let sty := linker_symbols_style (doc_settings d) in
  let st' := layout (wo_script w) u ext0 in
  (forall s, In s (included rt (doc_segments d)) -> ~ In (LForwardRef (alloc_name s)) (l_errors st')) ->
  exists o1 on2,
    find_sec (alloc_name seg) (l_secs st') = Some o1 /\
    find_sec (noload_name segn) (l_secs st') = Some on2 /\
    os_vma o1 = align_up (os_vma on2 + os_size on2) (align_z (segment_end_align segn)) /\
    val st' (segment_vram_end sty (sg_name segn)) = Some (os_vma o1).
Proof. exact document_follows_start_layout. Qed.

(* vram_class: .seg starts at the value the class start symbol has at its header; when no statement from
   that header on assigns the symbol, that is its value at the end of the pass (the one ClassSummary,
   Properties/DocLevel.v, subtracts from the class end; what the class start statements give it is
   C10_start_value) *)
Theorem C03_document_class_start : forall env senv ext final d rt w u seg c,
  gen_normal d rt = Ok w -> doc_link_wf d rt = true ->
  Forall (fun x => 0 <= u_size x) u ->
  In seg (included rt (doc_segments d)) ->
  sg_fixed_vram seg = None -> sg_fixed_symbol seg = None -> sg_follows_segment seg = None ->
  sg_vram_class seg = Some c ->
  let sty := linker_symbols_style (doc_settings d) in
  let st' := exec_script env senv ext final (wo_script w) (init_state u) in
  (forall s, In s (included rt (doc_segments d)) -> ~ In (LForwardRef (alloc_name s)) (l_errors st')) ->
  exists o1,
    find_sec (alloc_name seg) (l_secs st') = Some o1 /\
    sym_lookup (vram_class_start sty c) (header_state env senv ext final (wo_script w) u (alloc_name seg)) env ext
      = Some (os_vma o1) /\
    (existsb (assigns (vram_class_start sty c)) (from_sec (alloc_name seg) (flat_stmts (wo_script w))) = false ->
     sym_lookup (vram_class_start sty c) st' env ext = Some (os_vma o1)).
Proof. exact document_class_start. Qed.

(* vram_class, for the FIRST included segment of the class (no earlier included segment names it: the class
   start statements are written in front of this segment; [st0] is the state before them): .seg starts at
   the fixed_vram of the class, or the value of its fixed_symbol text in st0, or the largest of the ends -
   in st0 - of the classes it follows (0 at least).  The premise on the statements between the class start
   statements and the header (they assign only __romPos, ".", X_ROM_START, X_VRAM, X_alloc_VRAM:
   C03_prefix_frame) excludes a clash of generated names *)
Theorem C03_document_class_first_member : forall env senv ext final d rt w u la seg lb cn c,
  gen_normal d rt = Ok w -> doc_link_wf d rt = true ->
  Forall (fun x => 0 <= u_size x) u ->
  doc_segments d = (la ++ seg :: lb)%list -> should_emit rt (sg_conds seg) = true ->
  sg_fixed_vram seg = None -> sg_fixed_symbol seg = None -> sg_follows_segment seg = None ->
  sg_vram_class seg = Some cn -> class_get (doc_vram_classes d) cn = Some c ->
  names_class rt cn la = false ->
  let stg := doc_settings d in
  let sty := linker_symbols_style stg in
  let st' := exec_script env senv ext final (wo_script w) (init_state u) in
  existsb (assigns (vram_class_start sty cn))
          (seg_head stg seg ++ sections_kind_start sty cfg_normal seg false) = false ->
  (forall s, In s (included rt (doc_segments d)) -> ~ In (LForwardRef (alloc_name s)) (l_errors st')) ->
  exists o1 st0,
    find_sec (alloc_name seg) (l_secs st') = Some o1 /\
    header_state env senv ext final (wo_script w) u (alloc_name seg) =
      run env senv ext final
          (class_start_stmts stg c cn ++ seg_head stg seg ++ sections_kind_start sty cfg_normal seg false) st0 /\
    (forall v, vc_fixed_vram c = Some v -> os_vma o1 = Z.of_N v) /\
    (forall s v, vc_fixed_vram c = None -> vc_fixed_symbol c = Some s ->
                 eval_raw env ext st0 s = Ok v -> os_vma o1 = v) /\
    (forall es, vc_fixed_vram c = None -> vc_fixed_symbol c = None ->
                Forall2 (fun o e => sym_lookup (vram_class_end sty o) st0 env ext = Some e) (vc_follows_classes c) es ->
                os_vma o1 = fold_left Z.max es 0).
Proof. exact document_class_first_member. Qed.

(* fixed_symbol that is a plain symbol name assigned nowhere in the script: .seg starts at the value the
   symbol has outside the pass (the previous pass, else the objects) *)
Theorem C03_document_plain_symbol_start : forall env senv ext final d rt w u seg s,
  gen_normal d rt = Ok w -> doc_link_wf d rt = true ->
  Forall (fun x => 0 <= u_size x) u ->
  In seg (included rt (doc_segments d)) ->
  sg_fixed_vram seg = None -> sg_fixed_symbol seg = Some s ->
  defined_arg s = None -> split_on " " s = [s] -> parse_num s = None ->
  no_assign s (flat_stmts (wo_script w)) = true ->
  let st' := exec_script env senv ext final (wo_script w) (init_state u) in
  (forall s, In s (included rt (doc_segments d)) -> ~ In (LForwardRef (alloc_name s)) (l_errors st')) ->
  exists o1,
    find_sec (alloc_name seg) (l_secs st') = Some o1 /\ outer_lookup env ext s = Some (os_vma o1).
Proof. exact document_plain_symbol_start. Qed.

(* ====================================================================== *)
(* 4. the VRAM start SYMBOL                                                *)
(* ====================================================================== *)

(* with the side conditions of C03_vram_is_section_start_layout (Properties/C03Fixpoint.v: the script is
   accepted by the static check relative to the outside names R, which the objects define and the script
   does not assign), in the FINAL state of layout: X_VRAM = the vma of .X = the requested start.  No
   hypothesis on errors (an accepted script raises no LForwardRef) *)
Theorem C03_vram_symbol_requested_layout : forall R d rt w u ext0 seg,
  gen_normal d rt = Ok w -> doc_link_wf d rt = true ->
  script_stable R (wo_script w) = true -> outside_ok R (wo_script w) ext0 = true ->
  Forall (fun x => 0 <= u_size x) u ->
  let sty := linker_symbols_style (doc_settings d) in
  let p1 := exec_script [] [] ext0 false (wo_script w) (init_state u) in
  let p2 := exec_script (l_syms p1) (l_secs p1) (ext0 ++ markers_of p1)%list false (wo_script w) (init_state u) in
  let ext3 := (ext0 ++ markers_of p2)%list in
  let st' := layout (wo_script w) u ext0 in
  let stH := header_state (l_syms p2) (l_secs p2) ext3 true (wo_script w) u (alloc_name seg) in
  In seg (included rt (doc_segments d)) ->
  exists o1,
    find_sec (alloc_name seg) (l_secs st') = Some o1 /\
    requested_start (l_syms p2) ext3 sty seg
      (sec_align (subalign seg) (received (sec_body (alloc_name seg) (flat_stmts (wo_script w))) (l_remaining stH)))
      stH = Some (os_vma o1) /\
    val st' (segment_vram_start sty (sg_name seg)) = Some (os_vma o1).
Proof. exact vram_symbol_requested_layout. Qed.

(* ====================================================================== *)
(* 5. the main script of a partial build                                   *)
(* ====================================================================== *)

Theorem C03_partial_requested_start : forall env senv ext final d rt p u,
  gen_partial d rt = Ok p -> doc_link_wf_partial d rt = true ->
  Forall (fun x => 0 <= u_size x) u ->
  let sty := linker_symbols_style (doc_settings d) in
  let segs := included rt (doc_segments d) in
  let script := wo_script (po_main p) in
  let st' := exec_script env senv ext final script (init_state u) in
  (forall seg, In seg segs -> ~ In (LForwardRef (alloc_name seg)) (l_errors st')) ->
  ReqChain sty env ext (header_state env senv ext final script u) (fun n => sec_body n (flat_stmts script)) st' 0 segs.
Proof. exact partial_requested_start. Qed.

Theorem C03_partial_requested_start_layout : forall d rt p u ext0,
  gen_partial d rt = Ok p -> doc_link_wf_partial d rt = true ->
  Forall (fun x => 0 <= u_size x) u ->
  let sty := linker_symbols_style (doc_settings d) in
  let segs := included rt (doc_segments d) in
  let script := wo_script (po_main p) in
  let p1 := exec_script [] [] ext0 false script (init_state u) in
  let p2 := exec_script (l_syms p1) (l_secs p1) (ext0 ++ markers_of p1)%list false script (init_state u) in
  let ext3 := (ext0 ++ markers_of p2)%list in
  let st' := layout script u ext0 in
  (forall seg, In seg segs -> ~ In (LForwardRef (alloc_name seg)) (l_errors st')) ->
  ReqChain sty (l_syms p2) ext3 (header_state (l_syms p2) (l_secs p2) ext3 true script u)
           (fun n => sec_body n (flat_stmts script)) st' 0 segs.
Proof. exact partial_requested_start_layout. Qed.

(* ====================================================================== *)
(* 6. the old formula is weaker                                            *)
(* ====================================================================== *)

(* the new statement implies the old one ... *)
Theorem C03Req_implies_old_formula : forall sty env ext stH stN b1 b2 st' dt seg ve,
  SegReq sty env ext stH stN b1 b2 st' dt seg ve ->
  sg_fixed_vram seg = None -> sg_fixed_symbol seg = None -> sg_follows_segment seg = None ->
  sg_vram_class seg = None ->
  exists o1, find_sec (alloc_name seg) (l_secs st') = Some o1 /\
             os_vma o1 = align_up (align_up dt (align_z (segment_start_align seg)))
                                  (sec_align (subalign seg) (received b1 (l_remaining stH))) /\
             old_default_formula dt (align_z (segment_start_align seg)) (os_vma o1).
Proof. exact SegReq_old_formula. Qed.

(* ... which says exactly "the start is at or after align_up dot sa" *)
Theorem C03Req_old_formula_is_lower_bound : forall dot sa x,
  0 < align_up dot sa -> (old_default_formula dot sa x <-> align_up dot sa <= x).
Proof. exact old_formula_is_lower_bound. Qed.

(* ====================================================================== *)
(* examples                                                                *)
(* ====================================================================== *)

(* fx_doc (Spec/Fixpoint.v): boot fixed_vram 0x80000400; a fixed_symbol "heap_base + 0x100"; b follows a;
   c in class low (fixed_vram 0x80100000); d in class high, which follows low.  It meets the hypotheses *)
Example ex_req_hyps :
  (exists w, gen_normal fx_doc ex_rt = Ok w /\ wo_script w = rq_script) /\
  doc_link_wf fx_doc ex_rt = true /\
  Forall (fun x => 0 <= u_size x) fx_universe /\
  l_errors (layout rq_script fx_universe rq_ext) = [] /\
  script_stable ["heap_base"] rq_script = true /\ outside_ok ["heap_base"] rq_script rq_ext = true /\
  map (fun s => (sg_name s, sg_fixed_vram s, sg_fixed_symbol s, sg_follows_segment s, sg_vram_class s))
      (included ex_rt (doc_segments fx_doc)) =
  [("boot", Some 2147484672%N, None, None, None); ("a", None, Some "heap_base + 0x100", None, None);
   ("b", None, None, Some "a", None); ("c", None, None, None, Some "low"); ("d", None, None, None, Some "high")].
Proof.
  split; [eexists; split; vm_compute; reflexivity|]. split; [vm_compute; reflexivity|].
  split; [repeat constructor; vm_compute; discriminate|].
  vm_compute. repeat split; reflexivity.
Qed.

(* the five requested starts, computed by [requested_start] in the header states of the final pass, are the
   addresses at which the final pass places the five sections, and the values of the five VRAM symbols;
   the class start symbols are not assigned after the headers of .c and .d *)
Example ex_req_five_kinds :
  let p1 := exec_script [] [] rq_ext false rq_script (init_state fx_universe) in
  let p2 := exec_script (l_syms p1) (l_secs p1) (rq_ext ++ markers_of p1)%list false rq_script (init_state fx_universe) in
  let ext3 := (rq_ext ++ markers_of p2)%list in
  let st := layout rq_script fx_universe rq_ext in
  let hs := header_state (l_syms p2) (l_secs p2) ext3 true rq_script fx_universe in
  let inp n := received (sec_body n (flat_stmts rq_script)) (l_remaining (hs n)) in
  let segs := included ex_rt (doc_segments fx_doc) in
  map (fun seg => requested_start (l_syms p2) ext3 Splat seg (sec_align (subalign seg) (inp (alloc_name seg)))
                                  (hs (alloc_name seg))) segs =
  [Some 2147484672; Some (2147500000 + 256); Some 2147500288; Some 2148532224; Some 2148532256] /\
  map (fun seg => option_map os_vma (find_sec (alloc_name seg) (l_secs st))) segs =
  [Some 2147484672; Some 2147500256; Some 2147500288; Some 2148532224; Some 2148532256] /\
  map (fun seg => val st (sg_name seg ++ "_VRAM")) segs =
  [Some 2147484672; Some 2147500256; Some 2147500288; Some 2148532224; Some 2148532256] /\
  val st "a_VRAM_END" = Some 2147500288 /\
  sym_lookup "low_VRAM_CLASS_START" st (l_syms p2) ext3 = Some 2148532224 /\
  sym_lookup "high_VRAM_CLASS_START" st (l_syms p2) ext3 = Some 2148532256 /\
  val st "low_VRAM_CLASS_END" = Some 2148532256 /\
  existsb (assigns "low_VRAM_CLASS_START") (from_sec ".c" (flat_stmts rq_script)) = false /\
  existsb (assigns "high_VRAM_CLASS_START") (from_sec ".d" (flat_stmts rq_script)) = false /\
  (* what each output section receives, and the alignment pinned from it *)
  map (fun n => (n, l_dot (hs n), map u_marker (inp n), sec_align None (inp n)))
      [".boot"; ".boot.noload"; ".b"; ".c.noload"; ".d.noload"] =
  [(".boot", 0, ["boot_text"; "boot_data"], 16); (".boot.noload", 2147484672 + 52, ["boot_bss"], 8);
   (".b", 2147500288, ["b_text"; "b_data"], 4); (".c.noload", 2148532224 + 32, [], 1);
   (".d.noload", 2148532256 + 24, ["d_bss"], 4)].
Proof. vm_compute. repeat split; reflexivity. Qed.

(* the hypotheses of C03_document_class_first_member for the segments c (class low, fixed_vram) and d (class
   high, which follows low) of fx_doc *)
Example ex_req_class_first :
  let segs := doc_segments fx_doc in
  map sg_name (firstn 3 segs) = ["boot"; "a"; "b"] /\ map sg_name (skipn 3 segs) = ["c"; "d"] /\
  names_class ex_rt "low" (firstn 3 segs) = false /\ names_class ex_rt "high" (firstn 4 segs) = false /\
  option_map vc_fixed_vram (class_get (doc_vram_classes fx_doc) "low") = Some (Some 2148532224%N) /\
  option_map vc_follows_classes (class_get (doc_vram_classes fx_doc) "high") = Some ["low"] /\
  forallb (fun x => negb (existsb (assigns (vram_class_start Splat (fst x)))
                                  (seg_head (doc_settings fx_doc) (snd x) ++
                                   sections_kind_start Splat cfg_normal (snd x) false)))
          (combine ["low"; "high"] (skipn 3 segs)) = true.
Proof. vm_compute. repeat split; reflexivity. Qed.

(* three segments placed by default (rq_default_doc, segment_start_align 16): the pinned A.
   boot: "." = 0, receives a .text aligned to 16; c: "." = boot_VRAM_END = 140 -> 144, receives a section
   aligned to 64 -> 192, its noload part receives one aligned to 32: 264 -> 288; e: SUBALIGN 32 but
   receives nothing: A = 1, 300 -> 304; f: SUBALIGN 32 and a section aligned to 4: A = 32, 304 -> 320 *)
Example ex_req_default_pinned :
  let sc := rq_default_script in
  let uu := rq_default_universe in
  let p1 := exec_script [] [] [] false sc (init_state uu) in
  let p2 := exec_script (l_syms p1) (l_secs p1) ([] ++ markers_of p1)%list false sc (init_state uu) in
  let st := layout sc uu [] in
  let hs := header_state (l_syms p2) (l_secs p2) ([] ++ markers_of p2)%list true sc uu in
  let inp n := received (sec_body n (flat_stmts sc)) (l_remaining (hs n)) in
  doc_link_wf rq_default_doc ex_rt = true /\ l_errors st = [] /\
  map (fun seg => (sg_name seg, subalign seg, segment_start_align seg)) (included ex_rt (doc_segments rq_default_doc)) =
  [("boot", None, Some 16%N); ("c", None, Some 16%N); ("e", Some 32%N, Some 16%N); ("f", Some 32%N, Some 16%N)] /\
  map (fun n => val st (n ++ "_VRAM_END")) ["boot"; "c"; "e"; "f"] = [Some 140; Some 300; Some 304; Some 344] /\
  map (fun x => (fst x, l_dot (hs (fst x)), map u_marker (inp (fst x)), sec_align (snd x) (inp (fst x))))
      [(".boot", None); (".boot.noload", None); (".c", None); (".c.noload", None);
       (".e", Some 32%N); (".f", Some 32%N)] =
  [(".boot", 0, ["boot_text"], 16); (".boot.noload", 40, ["boot_bss"], 8);
   (".c", align_up 140 16, ["c_text"; "c_data"], 64); (".c.noload", 192 + 72, ["c_bss"], 32);
   (".e", align_up 300 16, [], 1); (".f", align_up 304 16, ["f_text"], 32)] /\
  map (fun o => (os_name o, os_vma o, os_size o)) (firstn 8 (l_secs st)) =
  [(".boot", align_up (align_up 0 16) 16, 40); (".boot.noload", align_up 40 8, 100);
   (".c", align_up (align_up 140 16) 64, 72); (".c.noload", align_up (192 + 72) 32, 12);
   (".e", align_up (align_up 300 16) 1, 0); (".e.noload", 304, 0);
   (".f", align_up (align_up 304 16) 32, 24); (".f.noload", 344, 0)] /\
  map (fun p => (pl_marker p, pl_outsec p)) (l_placed st) =
  [("boot_text", ".boot"); ("boot_bss", ".boot.noload"); ("c_text", ".c"); ("c_data", ".c");
   ("c_bss", ".c.noload"); ("f_text", ".f")].
Proof. vm_compute. repeat split; reflexivity. Qed.

(* the old existential is weaker: for the segment c above ("." = 140 before it, segment_start_align 16) it
   is satisfied by 1000 (A := 1000) and by 144 (A := 1), although the contents of .c require 64 and the
   link places it at 192; the new statement allows 192 only *)
Example ex_old_formula_weaker :
  old_default_formula 140 16 1000 /\ old_default_formula 140 16 144 /\ old_default_formula 140 16 192 /\
  align_up (align_up 140 16) 64 = 192 /\ 1000 <> 192 /\ 144 <> 192.
Proof.
  split; [exists 1000; reflexivity|]. split; [exists 1; reflexivity|]. split; [exists 64; reflexivity|].
  split; [reflexivity|]. split; discriminate.
Qed.

Print Assumptions C03Req_body_align_pinned.
Print Assumptions C03Req_sec_align_spec.
Print Assumptions C03_received_is_placed.
Print Assumptions C03Req_segment.
Print Assumptions C03_document_requested_start.
Print Assumptions C03_document_requested_start_layout.
Print Assumptions C03Req_chain_split.
Print Assumptions C03Req_chain_in.
Print Assumptions C03_document_default_start.
Print Assumptions C03_document_default_start_layout.
Print Assumptions C03_document_noload_start.
Print Assumptions C03_document_follows_start.
Print Assumptions C03_document_follows_start_layout.
Print Assumptions C03_document_class_start.
Print Assumptions C03_document_class_first_member.
Print Assumptions C03Req_fixed_vram_literal.
Print Assumptions C03_document_plain_symbol_start.
Print Assumptions C03_vram_symbol_requested_layout.
Print Assumptions C03_partial_requested_start.
Print Assumptions C03_partial_requested_start_layout.
Print Assumptions C03Req_implies_old_formula.
Print Assumptions C03Req_old_formula_is_lower_bound.
