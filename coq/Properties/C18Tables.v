(* C18 - translator obligations: single-entry sections *)
From Slinky Require Import Model.Types Model.Generated Model.Style Model.Script Proofs.TablesC18.
Local Open Scope string_scope.

Theorem C18_tables_single_entry : forall ind s,
  render_stmt ind (SSingleEntry s) = [indent_str ind ++ fmt t_sb_write_single_entry_section_0 [s; "0"; s]].
Proof. exact sb_single_entry. Qed.

Print Assumptions C18_tables_single_entry.
