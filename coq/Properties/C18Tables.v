(* C18 - translator obligations: single-entry sections *)
From Slinky Require Import Model.Types Model.Generated Model.Style Model.Script Proofs.Tables.
Local Open Scope string_scope.

Theorem C18_tables_single_entry : forall ind s,
  render_stmt ind (SSingleEntry s) = [indent_str ind ++ fmt (tpl fmt_sb 0) [s; "0"; s]].
Proof. exact sb_single_entry. Qed.

Print Assumptions C18_tables_single_entry.
