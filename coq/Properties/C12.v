(* C12 - Dependency file lists exactly what the script references.
   Only statements, each closed by [exact]; see Proofs/C12.v. *)
From Slinky Require Import Model.Types Model.Runtime Model.Style Model.Script Model.Writer Model.Exports.
From Slinky Require Import Spec.C12 Proofs.C12.

(* the text: optional version comment, "<target>:", one continuation line per recorded path, a blank
   line, then one empty rule per recorded path *)
Theorem C12_text : forall rt w target, deps_text rt w target = deps_spec rt target (wo_paths w).
Proof. exact deps_text_spec. Qed.

(* the invariant of the writer, from any state: the paths shown by the statements it emits are the
   display of a list [L] of paths, and files_paths has been extended by exactly those, each inserted
   unless already present (component-wise comparison) *)
Theorem C12_invariant : forall rt st cfg classes segs ws s ws',
  add_all_segments rt st cfg classes segs ws = Ok (s, ws') ->
  exists L, input_paths s = map display L /\ ws_paths ws' = add_paths L (ws_paths ws).
Proof. exact paths_invariant_add_all. Qed.

(* the ordinary script: the dependency list is the first-occurrence deduplication of what the script
   shows, in script order *)
Theorem C12_exactly : forall d rt w,
  gen_normal d rt = Ok w -> ListsExactly (wo_script w) (wo_paths w).
Proof. exact lists_exactly_normal. Qed.

Example C12_exactly_ex :
  match gen_normal ex_doc ex_rt with
  | Ok w => map (join "/") (wo_paths w) =
            ["build/src/boot.o"; "build/src/lib/libc.a"; "build/src/lib/util.o"; "build/src/a.o"] /\
            List.length (input_paths (wo_script w)) = 20
  | Err _ => False
  end.
Proof. vm_compute. split; reflexivity. Qed.

(* partial mode: the same for the main script and for every sub-script *)
Theorem C12_exactly_partial : forall d rt p,
  gen_partial d rt = Ok p ->
  ListsExactly (wo_script (po_main p)) (wo_paths (po_main p)) /\
  Forall (fun sub => ListsExactly (wo_script (snd sub)) (wo_paths (snd sub))) (po_subs p).
Proof. exact lists_exactly_partial. Qed.

Example C12_exactly_partial_ex :
  match gen_partial ex_doc ex_rt with
  | Ok p => map (join "/") (wo_paths (po_main p)) = ["build/segments/boot.o"; "build/segments/ovl_a.o"] /\
            map (fun s => (fst s, map (join "/") (wo_paths (snd s)))) (po_subs p) =
            [("boot", ["build/src/boot.o"; "build/src/lib/libc.a"; "build/src/lib/util.o"]);
             ("ovl_a", ["build/src/a.o"])]
  | Err _ => False
  end.
Proof. vm_compute. split; reflexivity. Qed.

(* pads, linker offsets and excluded files show no path and record nothing, wherever they are
   expanded (section_order, sub-groups) *)
Theorem C12_inert_files : forall rt sty cfg seg sections f,
  InertFile rt f ->
  forall n stack section base ws s ws',
    emit_sff rt sty cfg seg sections f n stack section base ws = Ok (s, ws') ->
    input_paths s = [] /\ ws' = ws.
Proof. exact emit_sff_inert. Qed.

Example C12_inert_ex :
  InertFile ex_rt (ex_pad ".data" 16%N) /\ InertFile ex_rt (ex_offset ".text" "boot_mid") /\
  InertFile ex_rt (FileInfo "x.o" KObject "" 0%N "" "" [] [] "" ex_excluded KAbsent) /\
  is_ok (emit_sff ex_rt Splat cfg_normal (ex_segment "boot" ex_files_boot None None no_conds)
                  [".text"; ".data"; ".sdata"] (ex_pad ".data" 16%N) 5 [] ".data" "build" ws0) = true.
Proof. unfold InertFile. vm_compute. repeat split; auto. Qed.

(* which files save_other_files writes: the .d iff d_path and target_path are both set *)
Theorem C12_written_iff : forall rt st w writes,
  save_other_files_normal rt st w = Ok writes ->
  exists dw hw, writes = dw ++ hw /\
    match d_path st with
    | Some dp =>
        exists dp', escape_path rt dp = Ok dp' /\
          match target_path st with
          | Some tp => exists tp', escape_path rt tp = Ok tp' /\ dw = [(dp', deps_text rt w tp')]
          | None => dw = []
          end
    | None => dw = []
    end /\
    match symbols_header_path st with
    | Some hp => exists hp', escape_path rt hp = Ok hp' /\ hw = [(hp', header_text rt st w)]
    | None => hw = []
    end.
Proof. exact save_normal_inv. Qed.

(* partial mode: the main writer's files, then, iff d_path is set, one .d per sub-script, named
   <partial_scripts_folder>/<segment>.d, whose target is <base_path>/<partial_build_segments_folder>/<segment>.o *)
Theorem C12_written_partial : forall rt st p writes,
  save_other_files_partial rt st p = Ok writes ->
  exists base pb pbsf ps psf mainw,
    escape_path rt (base_path st) = Ok base /\
    partial_build_segments_folder st = Some pb /\ escape_path rt pb = Ok pbsf /\
    partial_scripts_folder st = Some ps /\ escape_path rt ps = Ok psf /\
    save_other_files_normal rt st (po_main p) = Ok mainw /\
    writes = mainw ++
      match d_path st with
      | Some _ => map (fun s => (push psf (fst s ++ ".d")%string,
                                 deps_text rt (snd s) (push (extend_path base pbsf) (fst s ++ ".o")%string)))
                      (po_subs p)
      | None => []
      end.
Proof. exact save_partial_inv. Qed.

Example C12_written_ex :
  match gen_normal ex_doc ex_rt with
  | Ok w => match save_other_files_normal ex_rt ex_settings w with
            | Ok writes => map fst writes = ["out/game.d"; "include/syms.h"]
            | Err _ => False end
  | Err _ => False
  end /\
  match gen_partial ex_doc ex_rt with
  | Ok p => match save_other_files_partial ex_rt ex_settings p with
            | Ok writes => map fst writes =
                           ["out/game.d"; "include/syms.h"; "ld/partial/boot.d"; "ld/partial/ovl_a.d"]
            | Err _ => False end
  | Err _ => False
  end.
Proof. vm_compute. split; reflexivity. Qed.

Print Assumptions C12_text.
Print Assumptions C12_invariant.
Print Assumptions C12_exactly.
Print Assumptions C12_exactly_partial.
Print Assumptions C12_inert_files.
Print Assumptions C12_written_iff.
Print Assumptions C12_written_partial.
