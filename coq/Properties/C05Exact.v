(* C05Exact - C05 at document level, the exact version:
   "each section's start/end bracket EXACTLY the input sections placed in that group (a linker-offset
   symbol lies between its neighbours)".

   Properties/DocLevel.v (C05_document_groups) states this with GroupChain, where the block of placements
   a group brackets is existential with no lower bound: the empty block always qualifies.  Here
   (Spec/C05Exact.v) the placements of the output section, in placement order, are
   [before ++ mine ++ after] with [before] entirely at or below START, [mine] entirely within
   [START, END], [after] at or above END, and [mine] is what LdSem appended to l_placed while it
   executed the statements between "START = ." and "END = ." ([placed_between], a function of the script
   and the starting state - nothing is left to choose).
   Only statements, each closed by [exact]; see Proofs/C05Exact.v. *)
From Slinky Require Import Model.Types Model.Runtime Model.Style Model.Script Model.Writer Model.LdSem.
From Slinky Require Import Spec.C18 Spec.C04 Spec.C05 Spec.DocLevel Spec.DocPartial Spec.C01Doc Spec.C01Listed Spec.C05Exact.
From Slinky Require Import Proofs.C04 Proofs.C05Exact.
From Coq Require Import Lia ZArith.
Local Open Scope string_scope.
Local Open Scope Z_scope.

(* ====================================================================== *)
(* 1. what placed_between computes                                         *)
(* ====================================================================== *)

(* [split_assign x l = Some (a, s, b)]: [s] is the first statement of [l] that assigns [x] *)
Theorem C05_split_assign_some : forall x l a s b,
  split_assign x l = Some (a, s, b) <->
  l = (a ++ s :: b)%list /\ existsb (assigns x) a = false /\ assigns x s = true.
Proof. exact split_assign_iff. Qed.

(* the shape of the executed statements known - an output section [name] (the first of that name) whose
   body is [P ++ sS :: mid ++ sE :: T], [sS] the first assignment of [X], [sE] the first assignment of
   [Y] after it, the address of the section evaluating to [vma] ([outsec_vma], Proofs/C04.v: the
   computation of LdSem.exec_outsec) - [placed_between] is what executing [mid] appends to l_placed, in
   the state LdSem has reached at that point *)
Theorem C05_placed_between_shape : forall env senv ext final L A name addr at_ nl sub body B P sS mid sE T X Y vma st0 mine,
  L = (A ++ SOutSec name addr at_ nl sub body :: B)%list ->
  ~ In name (flat_map makes_sec A) ->
  body = (P ++ sS :: mid ++ sE :: T)%list ->
  existsb (assigns X) P = false -> assigns X sS = true ->
  existsb (assigns Y) mid = false -> assigns Y sE = true ->
  outsec_vma env senv ext addr sub body (run env senv ext final A st0) = Ok vma ->
  let step := exec_sec_stmt env senv ext final vma (option_map Z.of_N sub) name in
  let ss1 := fold_left step (P ++ [sS]) (SState 0 false (run env senv ext final A st0)) in
  l_placed (s_st (fold_left step mid ss1)) = (l_placed (s_st ss1) ++ mine)%list ->
  placed_between env senv ext final L st0 name X Y = Some mine.
Proof. exact placed_between_value. Qed.

(* ====================================================================== *)
(* 2. the groups of a segment bracket exactly what they placed             *)
(* ====================================================================== *)

(* multi-segment mode; hypotheses of C05_document_groups plus doc_outsecs_fresh (Spec/C01Doc.v: no
   included segment is called like an allow-list entry - otherwise "the placements of .seg" mixes two
   output sections, C01_refuted_allowlist_name).  For every included segment, in the state [st'] at the
   end of the pass (SegmentGroupsExact / GroupChainExact): .seg and .seg.noload exist; going up from
   the start of the output section, each group of alloc_sections (resp. noload_sections) has
   START <= END, SIZE = END - START, starts at or after the END of the previous one, the last one ends at
   or below the end of the output section; and for each group
     placed_in .seg st' = before ++ mine ++ after
   - every placement of [before] is the placement of an input section of the universe (same marker) that
     ENDS (addr + size) at or below START;
   - every placement of [mine] is one that lies, start and end, within [START, END];
   - every placement of [after] STARTS at or above END;
   - [mine] = placed_between ... START END: exactly the placements made while the statements between
     "START = ." and "END = ." were executed (the files of the group and the end alignments).
   Error condition: no LForwardRef for the allocatable section of THIS segment. *)
Theorem C05_document_groups_exact : forall env senv ext final d rt w u seg,
  gen_normal d rt = Ok w -> doc_link_wf d rt = true -> doc_outsecs_fresh d rt = true ->
  Forall (fun x => 0 <= u_size x) u ->
  In seg (included rt (doc_segments d)) ->
  let sty := linker_symbols_style (doc_settings d) in
  let st' := exec_script env senv ext final (wo_script w) (init_state u) in
  ~ In (LForwardRef (alloc_name seg)) (l_errors st') ->
  SegmentGroupsExact env senv ext final sty u (flat_stmts (wo_script w)) st' seg.
Proof. exact document_groups_exact. Qed.

(* the last pass of [layout]: its environment is the symbols and sections of the second pass *)
Theorem C05_document_groups_exact_layout : forall d rt w u ext0 seg,
  gen_normal d rt = Ok w -> doc_link_wf d rt = true -> doc_outsecs_fresh d rt = true ->
  Forall (fun x => 0 <= u_size x) u ->
  In seg (included rt (doc_segments d)) ->
  let sty := linker_symbols_style (doc_settings d) in
  let p1 := exec_script [] [] ext0 false (wo_script w) (init_state u) in
  let p2 := exec_script (l_syms p1) (l_secs p1) (ext0 ++ markers_of p1)%list false (wo_script w) (init_state u) in
  let st' := layout (wo_script w) u ext0 in
  ~ In (LForwardRef (alloc_name seg)) (l_errors st') ->
  SegmentGroupsExact (l_syms p2) (l_secs p2) (ext0 ++ markers_of p2)%list true sty u (flat_stmts (wo_script w)) st' seg.
Proof. exact document_groups_exact_layout. Qed.

(* ====================================================================== *)
(* 3. a linker offset lies between its neighbours                          *)
(* ====================================================================== *)

(* [nl]: the half of the segment (false: .seg with alloc_sections, true: .seg.noload with
   noload_sections; part_name / part_sections, Spec/C01Listed.v); [sec] a section of that half; [sym] any
   symbol other than "." that the executed statements assign exactly once (assigned_once_deep,
   Spec/DocLevel.v) and that is assigned between "START = ." and "END = ." of the group: [m1] what was
   placed between START = . and the assignment of [sym], [m2] what was placed between that assignment and
   END = . (both computed by placed_between).  Then (OffsetBetween): the group placed exactly
   [m1 ++ m2]; [sym] is the linker offset of a linker-offset entry of the segment; its final value [v]
   satisfies START <= v <= END; every placement of [m1] lies within [START, v] - it ENDS at or below v -
   and every placement of [m2] within [v, END] - it STARTS at or above v.
   (The per-statement form is C05_offset_between_neighbours in Properties/C05.v.) *)
Theorem C05_document_offsets_between : forall env senv ext final d rt w u seg nl sec sym m1 m2,
  gen_normal d rt = Ok w -> doc_link_wf d rt = true -> doc_outsecs_fresh d rt = true ->
  Forall (fun x => 0 <= u_size x) u ->
  In seg (included rt (doc_segments d)) ->
  let sty := linker_symbols_style (doc_settings d) in
  let L := flat_stmts (wo_script w) in
  let st' := exec_script env senv ext final (wo_script w) (init_state u) in
  let made := placed_between env senv ext final L (init_state u) (part_name seg nl) in
  ~ In (LForwardRef (alloc_name seg)) (l_errors st') ->
  In sec (part_sections seg nl) -> sym <> "." -> assigned_once_deep sym L = true ->
  made (segment_section_start sty (sg_name seg) sec) sym = Some m1 ->
  made sym (segment_section_end sty (sg_name seg) sec) = Some m2 ->
  OffsetBetween rt sty u st' made seg sec sym m1 m2.
Proof. exact document_offsets_between. Qed.

Theorem C05_document_offsets_between_layout : forall d rt w u ext0 seg nl sec sym m1 m2,
  gen_normal d rt = Ok w -> doc_link_wf d rt = true -> doc_outsecs_fresh d rt = true ->
  Forall (fun x => 0 <= u_size x) u ->
  In seg (included rt (doc_segments d)) ->
  let sty := linker_symbols_style (doc_settings d) in
  let L := flat_stmts (wo_script w) in
  let p1 := exec_script [] [] ext0 false (wo_script w) (init_state u) in
  let p2 := exec_script (l_syms p1) (l_secs p1) (ext0 ++ markers_of p1)%list false (wo_script w) (init_state u) in
  let st' := layout (wo_script w) u ext0 in
  let made := placed_between (l_syms p2) (l_secs p2) (ext0 ++ markers_of p2)%list true L (init_state u) (part_name seg nl) in
  ~ In (LForwardRef (alloc_name seg)) (l_errors st') ->
  In sec (part_sections seg nl) -> sym <> "." -> assigned_once_deep sym L = true ->
  made (segment_section_start sty (sg_name seg) sec) sym = Some m1 ->
  made sym (segment_section_end sty (sg_name seg) sec) = Some m2 ->
  OffsetBetween rt sty u st' made seg sec sym m1 m2.
Proof. exact document_offsets_between_layout. Qed.

(* ====================================================================== *)
(* 4. the main script of a partial build                                   *)
(* ====================================================================== *)

(* same statement for po_main (gen_partial), hypotheses of C05_partial_document_groups
   (Properties/C11DocPartial.v) plus doc_outsecs_fresh.  (The main script lists one partial object per
   segment and no linker-offset entry: there is no counterpart of section 3.) *)
Theorem C05_partial_document_groups_exact : forall env senv ext final d rt p u seg,
  gen_partial d rt = Ok p -> doc_link_wf_partial d rt = true -> doc_outsecs_fresh d rt = true ->
  Forall (fun x => 0 <= u_size x) u ->
  In seg (included rt (doc_segments d)) ->
  let sty := linker_symbols_style (doc_settings d) in
  let st' := exec_script env senv ext final (wo_script (po_main p)) (init_state u) in
  ~ In (LForwardRef (alloc_name seg)) (l_errors st') ->
  SegmentGroupsExact env senv ext final sty u (flat_stmts (wo_script (po_main p))) st' seg.
Proof. exact partial_groups_exact. Qed.

Theorem C05_partial_document_groups_exact_layout : forall d rt p u ext0 seg,
  gen_partial d rt = Ok p -> doc_link_wf_partial d rt = true -> doc_outsecs_fresh d rt = true ->
  Forall (fun x => 0 <= u_size x) u ->
  In seg (included rt (doc_segments d)) ->
  let sty := linker_symbols_style (doc_settings d) in
  let script := wo_script (po_main p) in
  let p1 := exec_script [] [] ext0 false script (init_state u) in
  let p2 := exec_script (l_syms p1) (l_secs p1) (ext0 ++ markers_of p1)%list false script (init_state u) in
  let st' := layout script u ext0 in
  ~ In (LForwardRef (alloc_name seg)) (l_errors st') ->
  SegmentGroupsExact (l_syms p2) (l_secs p2) (ext0 ++ markers_of p2)%list true sty u (flat_stmts script) st' seg.
Proof. exact partial_groups_exact_layout. Qed.

(* ====================================================================== *)
(* examples: dl_doc / dl_universe (Spec/DocLevel.v)                        *)
(* ====================================================================== *)

Definition ex5_ext : list (string * Z) := [("main", 5)].
Definition ex5_p1 : lstate := exec_script [] [] ex5_ext false dl_script (init_state dl_universe).
Definition ex5_p2 : lstate :=
  exec_script (l_syms ex5_p1) (l_secs ex5_p1) (ex5_ext ++ markers_of ex5_p1)%list false dl_script (init_state dl_universe).
Definition ex5_st : lstate := layout dl_script dl_universe ex5_ext.
(* placed_between for the last pass of that layout *)
Definition ex5_made : string -> string -> string -> option (list placement) :=
  placed_between (l_syms ex5_p2) (l_secs ex5_p2) (ex5_ext ++ markers_of ex5_p2)%list true
                 (flat_stmts dl_script) (init_state dl_universe).
Definition ex5_seg_b : segment :=
  ex_segment "ovl_b" [ex_obj "b.o"; ex_offset ".data" "b_mid"] (Some "overlay") None no_conds.

(* the hypotheses hold for the sample document and the segment ovl_b *)
Example C05_exact_hypotheses :
  doc_link_wf dl_doc ex_rt = true /\ doc_outsecs_fresh dl_doc ex_rt = true /\
  (exists w, gen_normal dl_doc ex_rt = Ok w /\ wo_script w = dl_script) /\
  Forall (fun x => 0 <= u_size x) dl_universe /\
  In ex5_seg_b (included ex_rt (doc_segments dl_doc)) /\
  l_errors ex5_st = [].
Proof.
  split; [vm_compute; reflexivity|]. split; [vm_compute; reflexivity|].
  split; [eexists; split; vm_compute; reflexivity|].
  split; [repeat constructor; vm_compute; discriminate|].
  split; [|vm_compute; reflexivity].
  vm_compute. right. right. left. reflexivity.
Qed.

(* the groups of .ovl_b (sections .text, .data, .sdata): b_text (48 bytes) at 2148532224, b_data (16
   bytes) at 2148532272.  What each group placed is NOT empty for .text and .data:
     .text  [2148532224, 2148532272]  before = []               mine = [b_text]  after = [b_data]
     .data  [2148532272, 2148532288]  before = [b_text]         mine = [b_data]  after = []
     .sdata [2148532288, 2148532288]  before = [b_text; b_data] mine = []        after = []       *)
Example C05_exact_example :
  placed_in ".ovl_b" ex5_st =
    [Placement "b_text" 2148532224 ".ovl_b"; Placement "b_data" 2148532272 ".ovl_b"] /\
  (val ex5_st "ovl_b_TEXT_START", val ex5_st "ovl_b_TEXT_END") = (Some 2148532224, Some 2148532272) /\
  (val ex5_st "ovl_b_DATA_START", val ex5_st "ovl_b_DATA_END") = (Some 2148532272, Some 2148532288) /\
  (val ex5_st "ovl_b_SDATA_START", val ex5_st "ovl_b_SDATA_END") = (Some 2148532288, Some 2148532288) /\
  ex5_made ".ovl_b" "ovl_b_TEXT_START" "ovl_b_TEXT_END" = Some [Placement "b_text" 2148532224 ".ovl_b"] /\
  ex5_made ".ovl_b" "ovl_b_DATA_START" "ovl_b_DATA_END" = Some [Placement "b_data" 2148532272 ".ovl_b"] /\
  ex5_made ".ovl_b" "ovl_b_SDATA_START" "ovl_b_SDATA_END" = Some [].
Proof. vm_compute. repeat split; reflexivity. Qed.

(* the theorem applied: SegmentGroupsExact for ovl_b in the last pass of the layout (the style is Splat) *)
Definition ex5_sty : style := linker_symbols_style (doc_settings dl_doc).

Example C05_exact_instance :
  ex5_sty = Splat /\
  exists w, gen_normal dl_doc ex_rt = Ok w /\
    let p1 := exec_script [] [] ex5_ext false (wo_script w) (init_state dl_universe) in
    let p2 := exec_script (l_syms p1) (l_secs p1) (ex5_ext ++ markers_of p1)%list false (wo_script w) (init_state dl_universe) in
    let st' := layout (wo_script w) dl_universe ex5_ext in
    l_errors st' = [] /\
    SegmentGroupsExact (l_syms p2) (l_secs p2) (ex5_ext ++ markers_of p2)%list true ex5_sty dl_universe
                       (flat_stmts (wo_script w)) st' ex5_seg_b.
Proof.
  split; [reflexivity|].
  eexists. split; [vm_compute; reflexivity|]. cbv zeta.
  match goal with |- l_errors (layout (wo_script ?w) _ _) = _ /\ _ =>
    assert (Hg : gen_normal dl_doc ex_rt = Ok w) by (vm_compute; reflexivity);
    assert (Herr : l_errors (layout (wo_script w) dl_universe ex5_ext) = []) by (vm_compute; reflexivity);
    split; [exact Herr|];
    apply (C05_document_groups_exact_layout dl_doc ex_rt w dl_universe ex5_ext ex5_seg_b Hg)
  end.
  - vm_compute; reflexivity.
  - vm_compute; reflexivity.
  - repeat constructor; vm_compute; discriminate.
  - vm_compute. right. right. left. reflexivity.
  - rewrite Herr. intros [].
Qed.

(* the new predicate is not satisfiable trivially: for the group .data of ovl_b (START = 2148532272,
   END = 2148532288) NO split of the placements of .ovl_b with [mine := []] meets the position clauses
   alone - b_data occupies [2148532272, 2148532288), so it neither ends at or below START nor starts at
   or above END - and the execution clause rejects [] as well.  (GroupChain accepts new := [] for every
   group.) *)
Example C05_exact_not_trivial :
  ~ (exists before after,
       placed_in ".ovl_b" ex5_st = (before ++ [] ++ after)%list /\
       Forall (ends_at_or_below dl_universe 2148532272) before /\
       Forall (starts_at_or_above 2148532288) after) /\
  ex5_made ".ovl_b" "ovl_b_DATA_START" "ovl_b_DATA_END" <> Some [].
Proof.
  split.
  - intros (before & after & E & Fb & Fa).
    assert (Hps : placed_in ".ovl_b" ex5_st =
                  [Placement "b_text" 2148532224 ".ovl_b"; Placement "b_data" 2148532272 ".ovl_b"])
      by (vm_compute; reflexivity).
    rewrite Hps in E. cbn [app] in E.
    destruct before as [|a [|b [|c before]]]; cbn [app] in E.
    + subst after. apply Forall_inv in Fa. unfold starts_at_or_above in Fa. cbn [pl_addr] in Fa. lia.
    + inversion E; subst. apply Forall_inv in Fa. unfold starts_at_or_above in Fa. cbn [pl_addr] in Fa. lia.
    + inversion E; subst. apply Forall_inv_tail in Fb. apply Forall_inv in Fb. destruct Fb as [x0 [Hx [Hm Hle]]].
      cbn [pl_marker pl_addr] in Hm, Hle. unfold dl_universe in Hx. cbn [In] in Hx.
      repeat (destruct Hx as [Hx|Hx]; [subst x0; cbn [u_marker u_size] in Hm, Hle; try discriminate Hm; try lia|]).
      contradiction.
    + inversion E.
  - vm_compute. discriminate.
Qed.

(* the linker offset b_mid of ovl_b (entry after b.o in the group .data): m1 = [b_data], m2 = [];
   the hypotheses of C05_document_offsets_between hold ... *)
Example C05_offsets_between_hypotheses :
  In ".data" (part_sections ex5_seg_b false) /\
  assigned_once_deep "b_mid_OFFSET" (flat_stmts dl_script) = true /\
  ex5_made ".ovl_b" "ovl_b_DATA_START" "b_mid_OFFSET" = Some [Placement "b_data" 2148532272 ".ovl_b"] /\
  ex5_made ".ovl_b" "b_mid_OFFSET" "ovl_b_DATA_END" = Some [] /\
  (val ex5_st "ovl_b_DATA_START", val ex5_st "b_mid_OFFSET", val ex5_st "ovl_b_DATA_END") =
    (Some 2148532272, Some 2148532288, Some 2148532288).
Proof.
  split; [vm_compute; right; left; reflexivity|].
  split; [vm_compute; reflexivity|]. split; [vm_compute; reflexivity|]. split; vm_compute; reflexivity.
Qed.

(* ... and the theorem applied: START = 2148532272 <= b_mid_OFFSET = 2148532288 <= END = 2148532288,
   b_data within [START, b_mid_OFFSET], nothing placed after the offset *)
Example C05_offsets_between_instance :
  exists w, gen_normal dl_doc ex_rt = Ok w /\
    let L := flat_stmts (wo_script w) in
    let p1 := exec_script [] [] ex5_ext false (wo_script w) (init_state dl_universe) in
    let p2 := exec_script (l_syms p1) (l_secs p1) (ex5_ext ++ markers_of p1)%list false (wo_script w) (init_state dl_universe) in
    let st' := layout (wo_script w) dl_universe ex5_ext in
    let made := placed_between (l_syms p2) (l_secs p2) (ex5_ext ++ markers_of p2)%list true L (init_state dl_universe)
                               (part_name ex5_seg_b false) in
    OffsetBetween ex_rt ex5_sty dl_universe st' made ex5_seg_b ".data" "b_mid_OFFSET"
                  [Placement "b_data" 2148532272 ".ovl_b"] [].
Proof.
  eexists. split; [vm_compute; reflexivity|]. cbv zeta.
  match goal with |- OffsetBetween _ _ _ (layout (wo_script ?w) _ _) _ _ _ _ _ _ =>
    assert (Hg : gen_normal dl_doc ex_rt = Ok w) by (vm_compute; reflexivity);
    assert (Herr : l_errors (layout (wo_script w) dl_universe ex5_ext) = []) by (vm_compute; reflexivity);
    apply (C05_document_offsets_between_layout dl_doc ex_rt w dl_universe ex5_ext ex5_seg_b false ".data"
             "b_mid_OFFSET" [Placement "b_data" 2148532272 ".ovl_b"] [] Hg)
  end.
  - vm_compute; reflexivity.
  - vm_compute; reflexivity.
  - repeat constructor; vm_compute; discriminate.
  - vm_compute. right. right. left. reflexivity.
  - rewrite Herr. intros [].
  - vm_compute. right. left. reflexivity.
  - discriminate.
  - vm_compute; reflexivity.
  - vm_compute; reflexivity.
  - vm_compute; reflexivity.
Qed.

(* the main script of the partial build of the same document (dl_main_script, dl_universe_partial:
   Spec/DocPartial.v): the hypotheses hold and the group .data of ovl_b placed the .data of the partial
   object ovl_b.o *)
Example C05_partial_exact_example :
  doc_link_wf_partial dl_doc ex_rt = true /\
  (exists p, gen_partial dl_doc ex_rt = Ok p /\ wo_script (po_main p) = dl_main_script) /\
  let p1 := exec_script [] [] ex5_ext false dl_main_script (init_state dl_universe_partial) in
  let p2 := exec_script (l_syms p1) (l_secs p1) (ex5_ext ++ markers_of p1)%list false dl_main_script
                        (init_state dl_universe_partial) in
  let st' := layout dl_main_script dl_universe_partial ex5_ext in
  l_errors st' = [] /\
  placed_in ".ovl_b" st' = [Placement "b_text" 2148532224 ".ovl_b"; Placement "b_data" 2148532272 ".ovl_b"] /\
  (val st' "ovl_b_DATA_START", val st' "ovl_b_DATA_END") = (Some 2148532272, Some 2148532288) /\
  placed_between (l_syms p2) (l_secs p2) (ex5_ext ++ markers_of p2)%list true (flat_stmts dl_main_script)
                 (init_state dl_universe_partial) ".ovl_b" "ovl_b_DATA_START" "ovl_b_DATA_END" =
    Some [Placement "b_data" 2148532272 ".ovl_b"].
Proof.
  split; [vm_compute; reflexivity|]. split; [eexists; split; vm_compute; reflexivity|].
  vm_compute. repeat split; reflexivity.
Qed.

Print Assumptions C05_split_assign_some.
Print Assumptions C05_placed_between_shape.
Print Assumptions C05_document_groups_exact.
Print Assumptions C05_document_groups_exact_layout.
Print Assumptions C05_document_offsets_between.
Print Assumptions C05_document_offsets_between_layout.
Print Assumptions C05_partial_document_groups_exact.
Print Assumptions C05_partial_document_groups_exact_layout.
Print Assumptions C05_exact_hypotheses.
Print Assumptions C05_exact_example.
Print Assumptions C05_exact_instance.
Print Assumptions C05_exact_not_trivial.
Print Assumptions C05_offsets_between_hypotheses.
Print Assumptions C05_offsets_between_instance.
Print Assumptions C05_partial_exact_example.
