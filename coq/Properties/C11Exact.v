(* C11Exact - the main script of a partial build against the ordinary script of the same document, EXACTLY
   (property C11: "same address requests, alignments, symbols").  Only statements, each closed by [exact];
   definitions in Spec/C11Exact.v, proofs in Proofs/C11Exact.v.

   Properties/C11DocPartial.v (C11_main_statement_by_statement) relates the two scripts by [stmts_rel],
   whose body relation only counts definitions per symbol and lists the UPDATED symbols: the n of
   ALIGN(sym, n), the operand of MAX, the section of "__romPos += SIZEOF(sec)" are not compared
   (ex_old_relation_misses_alignment).  Here the relation is [stmts_rel_exact]:
   - outside the output sections: the SAME statement at the same position (C11_exact_positions);
   - an output section meets an output section with the same name, address expression, AT symbol, NOLOAD
     flag and SUBALIGN, whose body is the same FILL followed, per section of the half, by a group
         ordinary:  pre ++ files ++ post          main:  pre ++ [input of the partial object] ++ post
     with the same [pre] and [post] (alignments with their values, _gp, start / end / size symbols, blank),
     free of inputs and pads, and [files] made of inputs, pads and linker-offset definitions only
     (C11_exact_body: the main body's inputs are exactly one `partial object(section)` per group, and the
     main body without them is the ordinary body with file statements deleted).
   Unlike C11_main_skeleton (Properties/C11.v) there is no side condition on the paths. *)
From Slinky Require Import Model.Types Model.Runtime Model.Style Model.Script Model.Writer Model.LdSem.
From Slinky Require Import Spec.C17 Spec.C04 Spec.C03 Spec.C05 Spec.C10 Spec.C11 Spec.DocLevel Spec.DocWf
                           Spec.DocPartial Spec.C11Exact Spec.DocWitness.
From Slinky Require Import Proofs.C11Exact.
Local Open Scope string_scope.

(* ====================================================================== *)
(* 1. the theorem                                                          *)
(* ====================================================================== *)

(* Both scripts are "version; SECTIONS { B }; tail" with the same version comment and the same tail; the
   bodies B (ordinary) and Bm (main) are related position by position by stmts_rel_exact, the output
   sections met being, in order, the allocatable and the noload section of every included segment, each
   described by its partial object as shown (escaped base_path / escaped folder/<name>.o), the segment's
   wildcard flag, the sections of the half and the names of the segment's linker_offset entries
   ([doc_infos]). *)
Theorem C11_main_exact : forall d rt w p,
  gen_normal d rt = Ok w -> gen_partial d rt = Ok p -> single_segment_mode (doc_settings d) = false ->
  exists folder B Bm,
    partial_build_segments_folder (doc_settings d) = Some folder /\
    wo_script w = (version_stmts rt ++ [SSections B] ++ tail_stmts rt d)%list /\
    wo_script (po_main p) = (version_stmts rt ++ [SSections Bm] ++ tail_stmts rt d)%list /\
    stmts_rel_exact (linker_symbols_style (doc_settings d)) B Bm (doc_infos d rt folder).
Proof. exact main_exact. Qed.

(* the same on what LdSem executes (the SECTIONS body spliced in): the whole scripts, position by position *)
Theorem C11_main_exact_flat : forall d rt w p,
  gen_normal d rt = Ok w -> gen_partial d rt = Ok p -> single_segment_mode (doc_settings d) = false ->
  exists folder,
    partial_build_segments_folder (doc_settings d) = Some folder /\
    stmts_rel_exact (linker_symbols_style (doc_settings d))
                    (flat_stmts (wo_script w)) (flat_stmts (wo_script (po_main p))) (doc_infos d rt folder).
Proof. exact main_exact_flat. Qed.

(* one segment, without the side condition of C11_main_skeleton *)
Theorem C11_segment_exact : forall rt st classes seg p ws s ws' wsm sm wsm',
  should_emit rt (sg_conds seg) = true ->
  ws_emitted wsm = ws_emitted ws ->
  add_segment rt st cfg_normal classes seg ws = Ok (s, ws') ->
  add_segment rt st cfg_main_partial classes (clone_with_new_files seg [new_object p]) wsm = Ok (sm, wsm') ->
  stmts_rel_exact (linker_symbols_style st) s sm [seg_info rt st p seg false; seg_info rt st p seg true] /\
  ws_emitted wsm' = ws_emitted ws'.
Proof. exact add_segment_exact. Qed.

(* ====================================================================== *)
(* 2. what the relation says                                               *)
(* ====================================================================== *)

(* same length, same output-section headers, one description per output section *)
Theorem C11_exact_shape : forall sty l lm infos, stmts_rel_exact sty l lm infos ->
  List.length l = List.length lm /\ headers l = headers lm /\
  List.length infos = List.length (filter is_outsec l).
Proof. exact stmts_rel_exact_shape. Qed.

(* a statement of the ordinary list that is not an output section is the statement of the main list at
   the same position: every ALIGN with its value, every MAX with its operand, every
   "__romPos += SIZEOF(sec)" with its section, every assignment with its expression *)
Theorem C11_exact_positions : forall sty l lm infos, stmts_rel_exact sty l lm infos ->
  forall n s, nth_error l n = Some s -> is_outsec s = false -> nth_error lm n = Some s.
Proof. exact stmts_rel_exact_nth. Qed.

(* an output section meets, at the same position, an output section with the same header *)
Theorem C11_exact_positions_outsec : forall sty l lm infos, stmts_rel_exact sty l lm infos ->
  forall n name addr at_ noload sub b, nth_error l n = Some (SOutSec name addr at_ noload sub b) ->
  exists bm i, nth_error lm n = Some (SOutSec name addr at_ noload sub bm) /\ In i infos /\ body_exact sty i b bm.
Proof. exact stmts_rel_exact_nth_outsec. Qed.

(* the bodies: the inputs of the main body are exactly one per section of the half - the partial object,
   never KEEP, no archive member, at that section, with the segment's wildcard flag; the main body without
   its inputs contains no input and no pad, and is the ordinary body from which only inputs, pads and
   linker-offset definitions (of the segment's linker_offset entries) were deleted - so every alignment
   of the ordinary body is there, in order, with its value *)
Theorem C11_exact_body : forall sty i b bm, body_exact sty i b bm ->
  filter is_input bm = map (main_input i) (si_secs i) /\
  forallb frame_stmt (filter (fun s => negb (is_input s)) bm) = true /\
  removed (group_stmt sty (fun n => In n (si_offs i))) b (filter (fun s => negb (is_input s)) bm).
Proof. exact body_exact_facts. Qed.

(* the exact relation implies the relation of Properties/C11DocPartial.v *)
Theorem C11_exact_implies_old : forall sty l lm infos,
  stmts_rel_exact sty l lm infos -> exists offs, stmts_rel l lm offs.
Proof. exact stmts_rel_exact_old. Qed.

(* ====================================================================== *)
(* examples                                                                *)
(* ====================================================================== *)

(* the OLD relation holds of two output sections that align to 8 and to 16; the exact one does not *)
Example ex_old_relation_misses_alignment :
  stmts_rel [ex_align_ordinary] [ex_align_main] [] /\
  forall sty infos, ~ stmts_rel_exact sty [ex_align_ordinary] [ex_align_main] infos.
Proof. split; [exact ex_align_old | exact ex_align_not_exact]. Qed.

(* the hypotheses of C11_main_exact on dl_doc (Spec/DocLevel.v), and its descriptions: three included
   segments, two output sections each *)
Example ex_main_exact_dl_doc :
  is_ok (gen_normal dl_doc ex_rt) = true /\ is_ok (gen_partial dl_doc ex_rt) = true /\
  single_segment_mode (doc_settings dl_doc) = false /\
  partial_build_segments_folder (doc_settings dl_doc) = Some "segments" /\
  map info_tuple (doc_infos dl_doc ex_rt "segments") =
    [("build/segments/boot.o", true, [".text"; ".data"; ".sdata"], ["boot_mid"]);
     ("build/segments/boot.o", true, [".bss"], ["boot_mid"]);
     ("build/segments/ovl_a.o", true, [".text"; ".data"; ".sdata"], []);
     ("build/segments/ovl_a.o", true, [".bss"], []);
     ("build/segments/ovl_b.o", true, [".text"; ".data"; ".sdata"], ["b_mid"]);
     ("build/segments/ovl_b.o", true, [".bss"], ["b_mid"])].
Proof. vm_compute. repeat split; reflexivity. Qed.

(* on dl_doc the top-level ALIGN / MAX / += statements, with their operands, are the same list *)
Example ex_main_exact_dl_doc_updates :
  match gen_normal dl_doc ex_rt, gen_partial dl_doc ex_rt with
  | Ok w, Ok p =>
      let upd s := match s with SAlign _ _ | SMaxSelf _ _ | SRomAdd _ => true | _ => false end in
      filter upd (flat_stmts (wo_script w)) = filter upd (flat_stmts (wo_script (po_main p))) /\
      filter upd (flat_stmts (wo_script w)) =
        [SAlign "__romPos" 16; SAlign "." 16; SRomAdd ".boot";
         SAlign "__romPos" 16; SAlign "." 16; SRomAdd ".ovl_a"; SMaxSelf "overlay_VRAM_CLASS_END" "ovl_a_VRAM_END";
         SAlign "__romPos" 16; SAlign "." 16; SRomAdd ".ovl_b"; SMaxSelf "overlay_VRAM_CLASS_END" "ovl_b_VRAM_END"]
  | _, _ => False
  end.
Proof. vm_compute. split; reflexivity. Qed.

(* on the parsed witness document (Spec/DocWitness.v), whose boot segment has per-section alignments: the
   hypotheses hold; inside the output section .boot the alignments are the same list in both scripts, and
   the inputs of the main body are the partial object once per section *)
Example ex_main_exact_wit_doc :
  is_ok (gen_normal wit_doc wit_rt) = true /\ is_ok (gen_partial wit_doc wit_rt) = true /\
  single_segment_mode (doc_settings wit_doc) = false /\
  match gen_normal wit_doc wit_rt, gen_partial wit_doc wit_rt with
  | Ok w, Ok p =>
      let b := body_of ".boot" (flat_stmts (wo_script w)) in
      let bm := body_of ".boot" (flat_stmts (wo_script (po_main p))) in
      filter is_align b = filter is_align bm /\
      filter is_align bm = [SAlign "." 4; SAlign "." 8; SAlign "." 4; SAlign "." 4; SAlign "." 4] /\
      filter is_input bm = map (fun sec => SInput false "build/us/segments/boot.o" None sec true)
                               [".text"; ".data"; ".rodata"; ".sdata"] /\
      List.length (filter is_input b) = 16%nat
  | _, _ => False
  end /\
  nth_error (map info_tuple (doc_infos wit_doc wit_rt "segments")) 6 =
    Some ("build/us/segments/ovl_b.o", false, [".text"; ".data"], ["b_mid"]).
Proof. vm_compute. repeat split; reflexivity. Qed.

Print Assumptions C11_main_exact.
Print Assumptions C11_main_exact_flat.
Print Assumptions C11_segment_exact.
Print Assumptions C11_exact_shape.
Print Assumptions C11_exact_positions.
Print Assumptions C11_exact_positions_outsec.
Print Assumptions C11_exact_body.
Print Assumptions C11_exact_implies_old.
