(* C19 - translator obligations for ALL format! templates of script_buffer.rs and linker_writer.rs (the concrete syntax of
   the produced script): the arity of every template and of every use, a route through the model for every template
   constant of Model/Generated.v, and the three shapes no lemma covered before (the /DISCARD/ pattern lines, the header
   of the (NOLOAD) output section with the four address forms, the symbols around the alloc / noload parts).
   Only statements, each closed by [exact]; definitions ([all_templates], [fmt_strict], [kind_word], [seg_suffix],
   [noload_word], [subalign_text], [header_addr_text]) and proofs: Proofs/TablesAll.v.

   Literal texts of the model with NO template constant to compare with (plain string literals in the Rust):
   "/DISCARD/ :", the wildcard discard line, " (NOLOAD) :", " (NOLOAD)", "SECTIONS", "{", "}", "__romPos", "0x0", "_gp" as a symbol
   name, ".", "0x00000000", ".noload", "noload", "alloc", "KEEP(", ")", "*", "0".
   Template constants with no counterpart in the model: none. *)
From Slinky Require Import Model.Types Model.Generated Model.Runtime Model.Style Model.Script Model.Writer.
From Slinky Require Import Proofs.TablesAll.
Local Open Scope string_scope.

(* (a) [fmt] (tolerant) is the strict reading of format! exactly when pieces = arguments + 1 *)
Theorem C19_tables_fmt_strict :
  (forall pieces args : list string,
     List.length pieces = S (List.length args) -> fmt_strict pieces args = Some (fmt pieces args)) /\
  (forall (pieces args : list string) (s : string),
     fmt_strict pieces args = Some s -> List.length pieces = S (List.length args) /\ fmt pieces args = s).
Proof. exact tables_fmt_strict. Qed.

(* (a) every template has one piece more than specs; every use passes
   exactly [length spec] arguments (hence [fmt] = [fmt_strict] there) *)
Theorem C19_tables_arity :
  (* 1. every template constant: one piece more than holes; the specs *)
  Forall (fun ts => List.length (fst ts) = List.length (snd ts) + 1) all_templates /\
  map snd all_templates =
  [ [""; ""; ""]; [""; ""]; [""; ""]; [""; ""]; [""; ""]; [""; ""; ":X"]; [""; ""; ""]; [""; ""]; [""]; [""]; [""];
    [""; ""; ""]; [""]; [":08X"]; [""; ""]; [""]; [":08X"]; [""]; [""]; [":08X"]; [":08X"]; [""; ""]; [""; ""];
    [""; ""]; [":X"]; [""; ""]; [":08X"]; [""]; [""]; [""]; [""]; [""]; [""; ""; ""; ""; ""];
    [""; ""; ""; ""; ""; ""]; [":X"]; [":08X"]; [""; ""]; [""]; [":08X"] ]%list /\
  (forall pieces spec args : list string,
     In (pieces, spec) all_templates -> List.length args = List.length spec ->
     fmt_strict pieces args = Some (fmt pieces args)) /\
  (* 2. every use: the equation, and as many arguments as the template has holes.  script_buffer.rs *)
  (forall ind s,
     render_stmt ind (SSingleEntry s) = [indent_str ind ++ fmt t_sb_write_single_entry_section_0 [s; "0"; s]] /\
     List.length [s; "0"; s] = List.length t_sb_write_single_entry_section_0_spec) /\
  (forall ind r sym e,
     render_stmt ind (SAssign true true r sym e) =
     [indent_str ind ++ fmt t_sb_write_symbol_assignment_0 [sym; render_expr e]] /\
     List.length [sym; render_expr e] = List.length t_sb_write_symbol_assignment_0_spec) /\
  (forall ind r sym e,
     render_stmt ind (SAssign true false r sym e) =
     [indent_str ind ++ fmt t_sb_write_symbol_assignment_1 [sym; render_expr e]] /\
     List.length [sym; render_expr e] = List.length t_sb_write_symbol_assignment_1_spec) /\
  (forall ind r sym e,
     render_stmt ind (SAssign false true r sym e) =
     [indent_str ind ++ fmt t_sb_write_symbol_assignment_2 [sym; render_expr e]] /\
     List.length [sym; render_expr e] = List.length t_sb_write_symbol_assignment_2_spec) /\
  (forall ind r sym e,
     render_stmt ind (SAssign false false r sym e) =
     [indent_str ind ++ fmt t_sb_write_symbol_assignment_3 [sym; render_expr e]] /\
     List.length [sym; render_expr e] = List.length t_sb_write_symbol_assignment_3_spec) /\
  (forall ind sym n,
     render_stmt ind (SAlign sym n) = [indent_str ind ++ fmt t_sb_align_symbol_0 [sym; sym; hex_of_N n]] /\
     List.length [sym; sym; hex_of_N n] = List.length t_sb_align_symbol_0_spec) /\
  (forall ind sym other,
     render_stmt ind (SMaxSelf sym other) = [indent_str ind ++ fmt t_sb_write_symbol_max_self_0 [sym; sym; other]] /\
     List.length [sym; sym; other] = List.length t_sb_write_symbol_max_self_0_spec) /\
  (forall ind c m,
     render_stmt ind (SAssert c m) = [indent_str ind ++ fmt t_sb_write_assert_0 [c; m]] /\
     List.length [c; m] = List.length t_sb_write_assert_0_spec) /\
  (forall ind n,
     render_stmt ind (SExtern n) = [indent_str ind ++ fmt t_sb_write_required_symbol_0 [n]] /\
     List.length [n] = List.length t_sb_write_required_symbol_0_spec) /\
  (forall n,
     "DEFINED(" ++ n ++ ")" = fmt t_sb_write_required_symbol_1 [n] /\
     List.length [n] = List.length t_sb_write_required_symbol_1_spec) /\
  (forall n,
     required_msg n = fmt t_sb_write_required_symbol_2 [n] /\
     List.length [n] = List.length t_sb_write_required_symbol_2_spec) /\
  (* linker_writer.rs *)
  (forall ind,
     render_stmt ind (SComment version_comment_text) =
     [indent_str ind ++ fmt t_lw_new_0 [dec_of_N version_major; dec_of_N version_minor; dec_of_N version_patch]] /\
     List.length [dec_of_N version_major; dec_of_N version_minor; dec_of_N version_patch] =
     List.length t_lw_new_0_spec) /\
  (forall ind e,
     render_stmt ind (SEntry e) = [indent_str ind ++ fmt t_lw_add_entry_0 [e]] /\
     List.length [e] = List.length t_lw_add_entry_0_spec) /\
  (forall ind v,
     render_stmt ind (SAssign false false false "_gp" (EHex8 v)) =
     [indent_str ind ++ fmt t_lw_begin_sections_0 [hex8_of_N v]] /\
     List.length [hex8_of_N v] = List.length t_lw_begin_sections_0_spec) /\
  (forall a b,
     render_expr (ESub a b) = fmt t_lw_end_sections_0 [a; b] /\
     List.length [a; b] = List.length t_lw_end_sections_0_spec) /\
  (forall ind pats wild,
     render_stmt ind (SDiscard pats wild) =
     ([(indent_str ind ++ "/DISCARD/ :")%string; (indent_str ind ++ "{")%string] ++
      map (fun p => (indent_str (S ind) ++ fmt t_lw_end_sections_1 [p])%string) pats ++
      (if wild then [(indent_str (S ind) ++ "*(*);")%string] else []) ++
      [(indent_str ind ++ "}")%string])%list /\
     (forall p : string, List.length [p] = List.length t_lw_end_sections_1_spec)) /\
  (forall v,
     render_expr (EHex8 v) = fmt t_lw_add_segment_0 [hex8_of_N v] /\
     List.length [hex8_of_N v] = List.length t_lw_add_segment_0_spec) /\
  (forall name,
     render_expr (EAddr ("." ++ name)) = fmt t_lw_add_segment_1 [name] /\
     List.length [name] = List.length t_lw_add_segment_1_spec) /\
  (forall ind name,
     render_stmt ind (SRomAdd ("." ++ name)) = [indent_str ind ++ fmt t_lw_add_segment_2 [name]] /\
     List.length [name] = List.length t_lw_add_segment_2_spec) /\
  (forall ind v,
     render_stmt ind (SAssign false false false "_gp" (EHex8 v)) =
     [indent_str ind ++ fmt t_lw_add_single_segment_0 [hex8_of_N v]] /\
     List.length [hex8_of_N v] = List.length t_lw_add_single_segment_0_spec) /\
  (forall ind v,
     render_stmt ind (SAssign false false false "." (EHex8 v)) =
     [indent_str ind ++ fmt t_lw_add_single_segment_1 [hex8_of_N v]] /\
     List.length [hex8_of_N v] = List.length t_lw_add_single_segment_1_spec) /\
  (forall a b,
     render_expr (EAbsSub a b) = fmt t_lw_write_sym_end_size_0 [a; b] /\
     List.length [a; b] = List.length t_lw_write_sym_end_size_0_spec) /\
  (forall seg noload,
     kind_name seg noload = fmt t_lw_write_sections_kind_start_0 [sg_name seg; kind_word noload] /\
     List.length [sg_name seg; kind_word noload] = List.length t_lw_write_sections_kind_start_0_spec) /\
  (forall seg noload,
     kind_name seg noload = fmt t_lw_write_sections_kind_end_0 [sg_name seg; kind_word noload] /\
     List.length [sg_name seg; kind_word noload] = List.length t_lw_write_sections_kind_end_0_spec) /\
  (forall off,
     render_expr (EDotPlus off) = fmt t_lw_write_section_symbol_start_0 [hex_of_i32 off] /\
     List.length [hex_of_i32 off] = List.length t_lw_write_section_symbol_start_0_spec) /\
  (forall seg noload,
     "." ++ sg_name seg ++ seg_suffix noload = fmt t_lw_write_segment_start_0 [sg_name seg; seg_suffix noload] /\
     List.length [sg_name seg; seg_suffix noload] = List.length t_lw_write_segment_start_0_spec) /\
  (forall v,
     " " ++ render_expr (EHex8 v) = fmt t_lw_write_segment_start_1 [hex8_of_N v] /\
     List.length [hex8_of_N v] = List.length t_lw_write_segment_start_1_spec) /\
  (forall s,
     " " ++ render_expr (ERaw s) = fmt t_lw_write_segment_start_2 [s] /\
     List.length [s] = List.length t_lw_write_segment_start_2_spec) /\
  (forall sty f,
     " " ++ render_expr (ESym (segment_vram_end sty f)) = fmt t_lw_write_segment_start_3 [segment_vram_end sty f] /\
     List.length [segment_vram_end sty f] = List.length t_lw_write_segment_start_3_spec) /\
  (forall sty c,
     " " ++ render_expr (ESym (vram_class_start sty c)) = fmt t_lw_write_segment_start_4 [vram_class_start sty c] /\
     List.length [vram_class_start sty c] = List.length t_lw_write_segment_start_4_spec) /\
  (forall name addr rom sub,
     render_header ("." ++ name) addr (Some rom) false sub =
     fmt t_lw_write_segment_start_0 [name; ""] ++
     match addr with Some e => " " ++ render_expr e | None => "" end ++
     fmt t_lw_write_segment_start_5 [rom] ++
     subalign_text t_lw_write_segment_start_6 sub /\
     List.length [name; ""] = List.length t_lw_write_segment_start_0_spec /\
     List.length [rom] = List.length t_lw_write_segment_start_5_spec /\
     (forall n, List.length [dec_of_N n] = List.length t_lw_write_segment_start_6_spec)) /\
  (forall ind keep path sect wild,
     render_stmt ind (SInput keep path None sect wild) =
     [indent_str ind ++
      fmt t_lw_emit_file_0
          [if keep then "KEEP(" else ""; path; sect; if wild then "*" else ""; if keep then ")" else ""]] /\
     List.length [if keep then "KEEP(" else ""; path; sect; if wild then "*" else ""; if keep then ")" else ""] =
     List.length t_lw_emit_file_0_spec) /\
  (forall ind keep path sub sect wild,
     render_stmt ind (SInput keep path (Some sub) sect wild) =
     [indent_str ind ++
      fmt t_lw_emit_file_1
          [if keep then "KEEP(" else ""; path; sub; sect; if wild then "*" else ""; if keep then ")" else ""]] /\
     List.length [if keep then "KEEP(" else ""; path; sub; sect; if wild then "*" else ""; if keep then ")" else ""] =
     List.length t_lw_emit_file_1_spec) /\
  (forall ind n,
     render_stmt ind (SDotAdd n) = [indent_str ind ++ fmt t_lw_emit_file_2 [hex_of_N n]] /\
     List.length [hex_of_N n] = List.length t_lw_emit_file_2_spec) /\
  (forall ind n,
     render_stmt ind (SFill n) = [indent_str ind ++ fmt t_lw_write_segment_0 [hex8_of_N n]] /\
     List.length [hex8_of_N n] = List.length t_lw_write_segment_0_spec) /\
  (forall sect noload sub,
     render_header sect None None noload sub =
     fmt t_lw_write_single_segment_0 [sect; noload_word noload] ++
     subalign_text t_lw_write_single_segment_1 sub /\
     List.length [sect; noload_word noload] = List.length t_lw_write_single_segment_0_spec /\
     (forall n, List.length [dec_of_N n] = List.length t_lw_write_single_segment_1_spec)) /\
  (forall ind n,
     render_stmt ind (SFill n) = [indent_str ind ++ fmt t_lw_write_single_segment_2 [hex8_of_N n]] /\
     List.length [hex8_of_N n] = List.length t_lw_write_single_segment_2_spec).
Proof. exact tables_arity. Qed.

(* (b)+(c) a route through the model for every template constant, in source order *)
Theorem C19_tables_coverage :
  (* t_sb_write_single_entry_section_0: end_sections, the allow lists *)
  (forall ind l,
     flat_map (render_stmt ind) (map SSingleEntry l) =
     map (fun s => indent_str ind ++ fmt t_sb_write_single_entry_section_0 [s; "0"; s]) l) /\
  (* t_sb_write_symbol_assignment_0 .. _3: every assignment, user's or writer's *)
  (forall ind p h r sym e,
     render_stmt ind (SAssign p h r sym e) =
     [indent_str ind ++
      fmt (match p, h with
           | true, true => t_sb_write_symbol_assignment_0
           | true, false => t_sb_write_symbol_assignment_1
           | false, true => t_sb_write_symbol_assignment_2
           | false, false => t_sb_write_symbol_assignment_3
           end) [sym; render_expr e]]) /\
  (forall ind sym e,
     render_stmt ind (linker_symbol sym e) =
     [indent_str ind ++ fmt t_sb_write_symbol_assignment_3 [sym; render_expr e]]) /\
  (* t_sb_align_symbol_0 *)
  (forall ind sym n,
     render_stmt ind (SAlign sym n) = [indent_str ind ++ fmt t_sb_align_symbol_0 [sym; sym; hex_of_N n]]) /\
  (forall ind a,
     flat_map (render_stmt ind) (opt_align a) =
     match a with
     | Some n => [indent_str ind ++ fmt t_sb_align_symbol_0 ["."; "."; hex_of_N n]]
     | None => []
     end) /\
  (* t_sb_write_symbol_max_self_0 *)
  (forall ind sym other,
     render_stmt ind (SMaxSelf sym other) = [indent_str ind ++ fmt t_sb_write_symbol_max_self_0 [sym; sym; other]]) /\
  (* t_sb_write_assert_0 *)
  (forall ind c m, render_stmt ind (SAssert c m) = [indent_str ind ++ fmt t_sb_write_assert_0 [c; m]]) /\
  (* t_sb_write_required_symbol_0, _1, _2: the writer builds condition and message *)
  (forall rt l,
     required_stmts rt l =
     match l with
     | [] => []
     | _ :: _ =>
         SBlank ::
         flat_map (fun r => if should_emit rt (rq_conds r)
                            then [SExtern (rq_name r);
                                  SAssert (fmt t_sb_write_required_symbol_1 [rq_name r])
                                          (fmt t_sb_write_required_symbol_2 [rq_name r])]
                            else []) l
     end) /\
  (forall ind n,
     flat_map (render_stmt ind) [SExtern n; SAssert ("DEFINED(" ++ n ++ ")") (required_msg n)] =
     [indent_str ind ++ fmt t_sb_write_required_symbol_0 [n];
      indent_str ind ++ fmt t_sb_write_assert_0 [fmt t_sb_write_required_symbol_1 [n];
                                                 fmt t_sb_write_required_symbol_2 [n]]]) /\
  (* t_lw_new_0 *)
  (forall rt ind,
     flat_map (render_stmt ind) (version_stmts rt) =
     if rt_emit_version_comment rt
     then [indent_str ind ++
           fmt t_lw_new_0 [dec_of_N version_major; dec_of_N version_minor; dec_of_N version_patch]; ""]
     else []) /\
  (* t_lw_add_entry_0 *)
  (forall ind e,
     flat_map (render_stmt ind) (entry_stmts e) =
     match e with
     | Some s => [""; indent_str ind ++ fmt t_lw_add_entry_0 [s]]
     | None => []
     end) /\
  (* t_lw_begin_sections_0 *)
  (forall st ind,
     flat_map (render_stmt ind) (hardcoded_gp_stmts st) =
     match hardcoded_gp_value st with
     | Some v => [indent_str ind ++ fmt t_lw_begin_sections_0 [hex8_of_N v]]
     | None => []
     end) /\
  (* t_lw_end_sections_0: the size of a class *)
  (forall ind size end_ start,
     render_stmt ind (linker_symbol size (ESub end_ start)) =
     [indent_str ind ++ fmt t_sb_write_symbol_assignment_3 [size; fmt t_lw_end_sections_0 [end_; start]]]) /\
  (* t_lw_end_sections_1: the pattern lines of /DISCARD/ *)
  (forall ind pats wild,
     render_stmt ind (SDiscard pats wild) =
     ([(indent_str ind ++ "/DISCARD/ :")%string; (indent_str ind ++ "{")%string] ++
      map (fun p => (indent_str (S ind) ++ fmt t_lw_end_sections_1 [p])%string) pats ++
      (if wild then [(indent_str (S ind) ++ "*(*);")%string] else []) ++
      [(indent_str ind ++ "}")%string])%list) /\
  (* t_lw_add_segment_0: a class with a fixed address *)
  (forall ind sym v,
     render_stmt ind (linker_symbol sym (EHex8 v)) =
     [indent_str ind ++ fmt t_sb_write_symbol_assignment_3 [sym; fmt t_lw_add_segment_0 [hex8_of_N v]]]) /\
  (* t_lw_add_segment_1: the start of a segment, ADDR of its output section *)
  (forall ind sym name,
     render_stmt ind (linker_symbol sym (EAddr ("." ++ name))) =
     [indent_str ind ++ fmt t_sb_write_symbol_assignment_3 [sym; fmt t_lw_add_segment_1 [name]]]) /\
  (* t_lw_add_segment_2 *)
  (forall ind name,
     render_stmt ind (SRomAdd ("." ++ name)) = [indent_str ind ++ fmt t_lw_add_segment_2 [name]]) /\
  (* t_lw_add_single_segment_0 *)
  (forall st ind,
     flat_map (render_stmt ind) (hardcoded_gp_stmts st) =
     match hardcoded_gp_value st with
     | Some v => [indent_str ind ++ fmt t_lw_add_single_segment_0 [hex8_of_N v]]
     | None => []
     end) /\
  (* t_lw_add_single_segment_1 *)
  (forall ind v,
     render_stmt ind (SAssign false false false "." (EHex8 v)) =
     [indent_str ind ++ fmt t_lw_add_single_segment_1 [hex8_of_N v]]) /\
  (* t_lw_write_sym_end_size_0 *)
  (forall ind start end_ size value,
     flat_map (render_stmt ind) (sym_end_size start end_ size value) =
     [indent_str ind ++ fmt t_sb_write_symbol_assignment_3 [end_; render_expr value];
      indent_str ind ++ fmt t_sb_write_symbol_assignment_3 [size; fmt t_lw_write_sym_end_size_0 [end_; start]]]) /\
  (* t_lw_write_sections_kind_start_0 *)
  (forall sty cfg seg noload,
     sections_kind_start sty cfg seg noload =
     if kind_syms cfg
     then [SAssign false false true
                   (segment_vram_start sty (fmt t_lw_write_sections_kind_start_0 [sg_name seg; kind_word noload]))
                   EDot;
           SBlank]
     else []) /\
  (* t_lw_write_sections_kind_end_0 *)
  (forall sty cfg seg noload,
     sections_kind_end sty cfg seg noload =
     if kind_syms cfg
     then let k := fmt t_lw_write_sections_kind_end_0 [sg_name seg; kind_word noload] in
          [SBlank;
           SAssign false false true (segment_vram_end sty k) EDot;
           SAssign false false true (segment_vram_size sty k)
                   (EAbsSub (segment_vram_end sty k) (segment_vram_start sty k))]
     else []) /\
  (* t_lw_write_section_symbol_start_0 *)
  (forall ind p h off,
     render_stmt ind (SAssign p h false "_gp" (EDotPlus off)) =
     [indent_str ind ++
      fmt (match p, h with
           | true, true => t_sb_write_symbol_assignment_0
           | true, false => t_sb_write_symbol_assignment_1
           | false, true => t_sb_write_symbol_assignment_2
           | false, false => t_sb_write_symbol_assignment_3
           end) ["_gp"; fmt t_lw_write_section_symbol_start_0 [hex_of_i32 off]]]) /\
  (* t_lw_write_segment_start_0 .. _6: the header exactly as write_segment asks for it *)
  (forall sty seg noload,
     render_header ("." ++ sg_name seg ++ seg_suffix noload)
                   (if noload then None else segment_addr sty seg)
                   (if noload then None else Some (segment_rom_start sty (sg_name seg)))
                   noload (subalign seg) =
     fmt t_lw_write_segment_start_0 [sg_name seg; seg_suffix noload] ++
     (if noload then " (NOLOAD) :"
      else match sg_fixed_vram seg, sg_fixed_symbol seg, sg_follows_segment seg, sg_vram_class seg with
           | Some v, _, _, _ => fmt t_lw_write_segment_start_1 [hex8_of_N v]
           | None, Some s, _, _ => fmt t_lw_write_segment_start_2 [s]
           | None, None, Some f, _ => fmt t_lw_write_segment_start_3 [segment_vram_end sty f]
           | None, None, None, Some c => fmt t_lw_write_segment_start_4 [vram_class_start sty c]
           | None, None, None, None => ""
           end ++ fmt t_lw_write_segment_start_5 [segment_rom_start sty (sg_name seg)]) ++
     match subalign seg with Some n => fmt t_lw_write_segment_start_6 [dec_of_N n] | None => "" end) /\
  (* t_lw_emit_file_0, _1, _2 *)
  (forall ind keep path sect wild,
     render_stmt ind (SInput keep path None sect wild) =
     [indent_str ind ++
      fmt t_lw_emit_file_0
          [if keep then "KEEP(" else ""; path; sect; if wild then "*" else ""; if keep then ")" else ""]]) /\
  (forall ind keep path sub sect wild,
     render_stmt ind (SInput keep path (Some sub) sect wild) =
     [indent_str ind ++
      fmt t_lw_emit_file_1
          [if keep then "KEEP(" else ""; path; sub; sect; if wild then "*" else ""; if keep then ")" else ""]]) /\
  (forall ind n, render_stmt ind (SDotAdd n) = [indent_str ind ++ fmt t_lw_emit_file_2 [hex_of_N n]]) /\
  (* t_lw_write_segment_0 *)
  (forall ind seg,
     flat_map (render_stmt ind) (opt_fill seg) =
     match fill_value seg with
     | Some v => [indent_str ind ++ fmt t_lw_write_segment_0 [hex8_of_N v]]
     | None => []
     end) /\
  (* t_lw_write_single_segment_0, _1: the header exactly as single_groups asks for it *)
  (forall sect noload sub,
     render_header sect None None noload sub =
     fmt t_lw_write_single_segment_0 [sect; if noload then " (NOLOAD)" else ""] ++
     match sub with Some n => fmt t_lw_write_single_segment_1 [dec_of_N n] | None => "" end) /\
  (* t_lw_write_single_segment_2 *)
  (forall ind seg,
     flat_map (render_stmt ind) (opt_fill seg) =
     match fill_value seg with
     | Some v => [indent_str ind ++ fmt t_lw_write_single_segment_2 [hex8_of_N v]]
     | None => []
     end).
Proof. exact tables_coverage. Qed.

(* (b) the /DISCARD/ block *)
Theorem C19_tables_discard :
  (forall ind pats wild,
     render_stmt ind (SDiscard pats wild) =
     ([(indent_str ind ++ "/DISCARD/ :")%string; (indent_str ind ++ "{")%string] ++
      map (fun p => (indent_str (S ind) ++ fmt t_lw_end_sections_1 [p])%string) pats ++
      (if wild then [(indent_str (S ind) ++ "*(*);")%string] else []) ++
      [(indent_str ind ++ "}")%string])%list) /\
  (forall p : string, List.length [p] = List.length t_lw_end_sections_1_spec) /\
  List.length t_lw_end_sections_1 = List.length t_lw_end_sections_1_spec + 1 /\
  t_lw_end_sections_1_spec = [""] /\
  "*(*);" = fmt t_lw_end_sections_1 ["*"].
Proof. exact tables_discard. Qed.

(* (b) the header of the output sections of the multi-segment script *)
Theorem C19_tables_noload_header :
  (* the (NOLOAD) output section: name with the ".noload" suffix, no address, no AT, SUBALIGN if any *)
  (forall name sub,
     render_header ("." ++ name ++ ".noload") None None true sub =
     fmt t_lw_write_segment_start_0 [name; ".noload"] ++ " (NOLOAD) :" ++
     match sub with Some n => fmt t_lw_write_segment_start_6 [dec_of_N n] | None => "" end) /\
  (* the four forms of the address of the allocated one *)
  (forall v, " " ++ render_expr (EHex8 v) = fmt t_lw_write_segment_start_1 [hex8_of_N v]) /\
  (forall s, " " ++ render_expr (ERaw s) = fmt t_lw_write_segment_start_2 [s]) /\
  (forall sty f,
     " " ++ render_expr (ESym (segment_vram_end sty f)) = fmt t_lw_write_segment_start_3 [segment_vram_end sty f]) /\
  (forall sty c,
     " " ++ render_expr (ESym (vram_class_start sty c)) = fmt t_lw_write_segment_start_4 [vram_class_start sty c]) /\
  (forall sty seg,
     match segment_addr sty seg with Some e => " " ++ render_expr e | None => "" end =
     match sg_fixed_vram seg, sg_fixed_symbol seg, sg_follows_segment seg, sg_vram_class seg with
     | Some v, _, _, _ => fmt t_lw_write_segment_start_1 [hex8_of_N v]
     | None, Some s, _, _ => fmt t_lw_write_segment_start_2 [s]
     | None, None, Some f, _ => fmt t_lw_write_segment_start_3 [segment_vram_end sty f]
     | None, None, None, Some c => fmt t_lw_write_segment_start_4 [vram_class_start sty c]
     | None, None, None, None => ""
     end) /\
  (* the specs of the seven pieces *)
  t_lw_write_segment_start_0_spec = [""; ""] /\ t_lw_write_segment_start_1_spec = [":08X"] /\
  t_lw_write_segment_start_2_spec = [""] /\ t_lw_write_segment_start_3_spec = [""] /\
  t_lw_write_segment_start_4_spec = [""] /\ t_lw_write_segment_start_5_spec = [""] /\
  t_lw_write_segment_start_6_spec = [""] /\
  (* write_segment (Model/Writer.v): its statements are the kind symbols around ONE output section, whose first line
     is the indentation and [segment_header_text] = the templates glued as in tables_coverage *)
  (forall rt st cfg seg sections noload ws o,
     write_segment rt st cfg seg sections noload ws = Ok o ->
     exists body,
       fst o =
       (sections_kind_start (linker_symbols_style st) cfg seg noload ++
        [SOutSec ("." ++ sg_name seg ++ seg_suffix noload)%string
                 (if noload then None else segment_addr (linker_symbols_style st) seg)
                 (if noload then None else Some (segment_rom_start (linker_symbols_style st) (sg_name seg)))
                 noload (subalign seg) body] ++
        sections_kind_end (linker_symbols_style st) cfg seg noload)%list /\
       forall ind, exists rest,
         render_stmt ind
           (SOutSec ("." ++ sg_name seg ++ seg_suffix noload)
                    (if noload then None else segment_addr (linker_symbols_style st) seg)
                    (if noload then None else Some (segment_rom_start (linker_symbols_style st) (sg_name seg)))
                    noload (subalign seg) body) =
         (indent_str ind ++
          fmt t_lw_write_segment_start_0 [sg_name seg; seg_suffix noload] ++
          (if noload then " (NOLOAD) :"
           else header_addr_text (linker_symbols_style st) seg ++
                fmt t_lw_write_segment_start_5 [segment_rom_start (linker_symbols_style st) (sg_name seg)]) ++
          match subalign seg with Some n => fmt t_lw_write_segment_start_6 [dec_of_N n] | None => "" end) :: rest).
Proof. exact tables_noload_header. Qed.

(* (b)+(c) the symbols around the alloc / noload part of a segment *)
Theorem C19_tables_kind_symbols :
  (forall seg noload,
     kind_name seg noload = fmt t_lw_write_sections_kind_start_0 [sg_name seg; if noload then "noload" else "alloc"] /\
     kind_name seg noload = fmt t_lw_write_sections_kind_end_0 [sg_name seg; if noload then "noload" else "alloc"]) /\
  t_lw_write_sections_kind_start_0_spec = [""; ""] /\
  t_lw_write_sections_kind_end_0_spec = [""; ""] /\
  (forall sty cfg seg noload,
     sections_kind_start sty cfg seg noload =
     if kind_syms cfg
     then [SAssign false false true
                   (segment_vram_start sty (fmt t_lw_write_sections_kind_start_0 [sg_name seg; kind_word noload]))
                   EDot;
           SBlank]
     else []) /\
  (forall sty cfg seg noload,
     sections_kind_end sty cfg seg noload =
     if kind_syms cfg
     then let k := fmt t_lw_write_sections_kind_end_0 [sg_name seg; kind_word noload] in
          [SBlank;
           SAssign false false true (segment_vram_end sty k) EDot;
           SAssign false false true (segment_vram_size sty k)
                   (EAbsSub (segment_vram_end sty k) (segment_vram_start sty k))]
     else []) /\
  (* their lines *)
  (forall sty cfg seg ind,
     kind_syms cfg = true ->
     forall noload,
       let k0 := fmt t_lw_write_sections_kind_start_0 [sg_name seg; kind_word noload] in
       let k1 := fmt t_lw_write_sections_kind_end_0 [sg_name seg; kind_word noload] in
       flat_map (render_stmt ind) (sections_kind_start sty cfg seg noload) =
       [indent_str ind ++ fmt t_sb_write_symbol_assignment_3 [segment_vram_start sty k0; "."]; ""] /\
       flat_map (render_stmt ind) (sections_kind_end sty cfg seg noload) =
       [""; indent_str ind ++ fmt t_sb_write_symbol_assignment_3 [segment_vram_end sty k1; "."];
        indent_str ind ++ fmt t_sb_write_symbol_assignment_3
          [segment_vram_size sty k1;
           fmt t_lw_write_sym_end_size_0 [segment_vram_end sty k1; segment_vram_start sty k1]]]).
Proof. exact tables_kind_symbols. Qed.

(* what (a) is about *)
Example C19_tables_fmt_tolerates_mismatch :
  fmt t_sb_write_symbol_max_self_0 ["a"] = "a = MAX(, );" /\
  fmt_strict t_sb_write_symbol_max_self_0 ["a"] = None /\
  fmt t_lw_add_entry_0 ["a"; "b"] = "ENTRY(a);" /\
  fmt_strict t_lw_add_entry_0 ["a"; "b"] = None /\
  fmt_strict t_sb_write_symbol_max_self_0 ["a"; "a"; "b"] = Some "a = MAX(a, b);".
Proof. repeat split; reflexivity. Qed.

(* the obligations are not vacuous: with one character of a template changed the equation is FALSE (so no proof, by
   [reflexivity] or otherwise, exists).  The ';' of the /DISCARD/ pattern line dropped: *)
Example C19_tables_perturbed_discard :
  t_lw_end_sections_1_perturbed = ["*("; ")"] /\
  t_lw_end_sections_1_perturbed <> t_lw_end_sections_1 /\
  render_stmt 1 (SDiscard [".reginfo"] true) <>
  ([(indent_str 1 ++ "/DISCARD/ :")%string; (indent_str 1 ++ "{")%string] ++
   map (fun p => (indent_str 2 ++ fmt t_lw_end_sections_1_perturbed [p])%string) [".reginfo"] ++
   [(indent_str 2 ++ "*(*);")%string] ++ [(indent_str 1 ++ "}")%string])%list.
Proof. split; [reflexivity|]. split; vm_compute; discriminate. Qed.

(* ... for every pattern and indentation *)
Example C19_tables_perturbed_discard_all : forall ind p,
  indent_str ind ++ "*(" ++ p ++ ");" <> indent_str ind ++ fmt t_lw_end_sections_1_perturbed [p].
Proof. exact perturbed_discard_fails_all. Qed.

(* the '_' of the kind name changed to '.': false for every segment *)
Example C19_tables_perturbed_kind :
  t_lw_write_sections_kind_start_0_perturbed = [""; "."; ""] /\
  t_lw_write_sections_kind_start_0_perturbed <> t_lw_write_sections_kind_start_0 /\
  forall seg noload,
    kind_name seg noload <> fmt t_lw_write_sections_kind_start_0_perturbed [sg_name seg; kind_word noload].
Proof. split; [reflexivity|]. split; [vm_compute; discriminate | exact perturbed_kind_fails]. Qed.

(* the 'x' of the fixed address in the header in upper case: false for every address *)
Example C19_tables_perturbed_addr :
  t_lw_write_segment_start_1_perturbed = [" 0X"; ""] /\
  t_lw_write_segment_start_1_perturbed <> t_lw_write_segment_start_1 /\
  forall v, " " ++ render_expr (EHex8 v) <> fmt t_lw_write_segment_start_1_perturbed [hex8_of_N v].
Proof. split; [reflexivity|]. split; [vm_compute; discriminate | exact perturbed_addr_fails]. Qed.

(* a hole removed from a template: the arity law fails, the strict reading refuses the use, the line differs *)
Example C19_tables_perturbed_arity :
  t_sb_write_symbol_max_self_0_perturbed = [""; " = MAX("; ");"] /\
  List.length t_sb_write_symbol_max_self_0_perturbed <> List.length t_sb_write_symbol_max_self_0_spec + 1 /\
  fmt_strict t_sb_write_symbol_max_self_0_perturbed ["a"; "a"; "b"] = None /\
  render_stmt 0 (SMaxSelf "a" "b") <> [indent_str 0 ++ fmt t_sb_write_symbol_max_self_0_perturbed ["a"; "a"; "b"]].
Proof. split; [reflexivity|]. repeat split; vm_compute; discriminate. Qed.

Print Assumptions C19_tables_fmt_strict.
Print Assumptions C19_tables_arity.
Print Assumptions C19_tables_coverage.
Print Assumptions C19_tables_discard.
Print Assumptions C19_tables_noload_header.
Print Assumptions C19_tables_kind_symbols.
Print Assumptions C19_tables_fmt_tolerates_mismatch.
Print Assumptions C19_tables_perturbed_discard.
Print Assumptions C19_tables_perturbed_discard_all.
Print Assumptions C19_tables_perturbed_kind.
Print Assumptions C19_tables_perturbed_addr.
Print Assumptions C19_tables_perturbed_arity.
