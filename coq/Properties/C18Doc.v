(* C18Doc - the link-level half of C18 over a whole generated document:
   "Every input section named in sections_allowlist or sections_allowlist_extra survives linking, in an
   output section of that name; every section named in sections_denylist and, with
   discard_wildcard_section, every input section not placed by a segment is discarded; without the
   wildcard and with an empty denylist no discard block is emitted.  The discard block follows all
   segments and allowlisted sections, so no section that a segment places or the allowlists name is ever
   discarded."
   Only statements, each closed by [exact]; see Proofs/C18Doc.v, definitions in Spec/C17Doc.v.
   Both modes of the generator (multi-segment and single-segment); no condition on the document beyond
   [gen_normal d rt = Ok w].  The script is "version; SECTIONS { pre; tail of SECTIONS }; tail"
   ([SplitAtTail d rt w pre ws]: [pre] holds no allow-list entry and no discard block, at any depth);
   "after the segments" is the state [run env senv ext final pre (init_state u)] of the SAME pass - for
   the last pass of [layout]: [last_pass (wo_script w) u ext0 pre].  Conclusions are about
   [exec_script env senv ext final (wo_script w) (init_state u)] for EVERY pass, and about [layout]. *)
From Slinky Require Import Model.Types Model.Runtime Model.Style Model.Script Model.Writer Model.LdSem.
From Slinky Require Import Spec.C18 Spec.C17 Spec.C04 Spec.C12 Spec.DocLevel Spec.C01Doc Spec.C17Doc.
From Slinky Require Import Proofs.C18Doc.
From Coq Require Import ZArith.
Local Open Scope string_scope.
Local Open Scope Z_scope.

(* ====================================================================== *)
(* 0. where the tail of SECTIONS starts                                    *)
(* ====================================================================== *)

Theorem C18_document_split : forall d rt w,
  gen_normal d rt = Ok w -> exists pre ws, SplitAtTail d rt w pre ws.
Proof. exact split_exists. Qed.

(* multi-segment mode: [pre] is begin_sections followed by the statements of the segments *)
Theorem C18_document_split_multi : forall d rt w,
  gen_normal d rt = Ok w -> single_segment_mode (doc_settings d) = false ->
  SplitAtTail d rt w (multi_pre d rt) (multi_ws d rt).
Proof. exact split_multi. Qed.

Example C18_document_split_ex :
  (exists w, gen_normal dl_doc ex_rt = Ok w) /\ single_segment_mode (doc_settings dl_doc) = false /\
  List.length (multi_pre dl_doc ex_rt) = 82%nat.
Proof. split; [eexists; vm_compute; reflexivity|]. split; vm_compute; reflexivity. Qed.

(* the last pass of layout is a pass *)
Theorem C18_layout_last_pass : forall script u ext0,
  layout script u ext0 = last_pass script u ext0 (flat_stmts script).
Proof. exact layout_last_pass. Qed.

(* ====================================================================== *)
(* the whole outcome of the tail                                           *)
(* ====================================================================== *)

(* TailOutcome (Spec/C17Doc.v): of the input sections still unplaced after the segments, in link order,
   the allow-listed ones are placed in an output section of their name (each gets a placement, every new
   placement is one of these), the others are discarded when named by the deny list or when the
   wildcard is on, and stay unplaced otherwise; the placements made by the segments are untouched;
   nothing had been discarded before the tail *)
Theorem C18_document_tail_outcome : forall env senv ext final d rt w pre ws u,
  SplitAtTail d rt w pre ws ->
  let st_seg := run env senv ext final pre (init_state u) in
  let st' := exec_script env senv ext final (wo_script w) (init_state u) in
  TailOutcome (doc_settings d) st_seg st' /\ l_discarded st_seg = [].
Proof. exact document_tail. Qed.

Theorem C18_document_tail_outcome_layout : forall d rt w pre ws u ext0,
  SplitAtTail d rt w pre ws ->
  TailOutcome (doc_settings d) (last_pass (wo_script w) u ext0 pre) (layout (wo_script w) u ext0) /\
  l_discarded (last_pass (wo_script w) u ext0 pre) = [].
Proof. exact document_tail_layout. Qed.

(* ====================================================================== *)
(* 1. allow-listed sections survive                                        *)
(* ====================================================================== *)

(* an input section still unplaced after the segments' statements whose name is an entry of
   sections_allowlist ++ sections_allowlist_extra has, in the final state, a placement in the output
   section of its name; it is no longer waiting; with pairwise different markers it is not discarded *)
Theorem C18_document_allowlisted_survive : forall env senv ext final d rt w pre ws u x,
  SplitAtTail d rt w pre ws ->
  let st_seg := run env senv ext final pre (init_state u) in
  let st' := exec_script env senv ext final (wo_script w) (init_state u) in
  In x (l_remaining st_seg) -> In (u_name x) (aux_section_names (doc_settings d)) ->
  (exists p, In p (l_placed st') /\ placed_by_name x p) /\
  ~ In x (l_remaining st') /\
  (NoDup (map u_marker u) -> ~ In (u_marker x) (l_discarded st')).
Proof. exact document_allowlisted_survive. Qed.

Theorem C18_document_allowlisted_survive_layout : forall d rt w pre ws u ext0 x,
  SplitAtTail d rt w pre ws ->
  let st' := layout (wo_script w) u ext0 in
  In x (l_remaining (last_pass (wo_script w) u ext0 pre)) -> In (u_name x) (aux_section_names (doc_settings d)) ->
  (exists p, In p (l_placed st') /\ placed_by_name x p) /\
  ~ In x (l_remaining st') /\
  (NoDup (map u_marker u) -> ~ In (u_marker x) (l_discarded st')).
Proof. exact document_allowlisted_survive_layout. Qed.

(* boot.o(.mdebug) is still unplaced after the segments of dl_doc, and .mdebug is allow-listed *)
Example C18_document_allowlisted_survive_ex :
  let x := USec "build/src/boot.o" None ".mdebug" 20 4 false "boot_mdebug" in
  map u_marker (l_remaining (last_pass dl_script dl_universe_discard [("main", 5)] (multi_pre dl_doc ex_rt))) =
    ["boot_mdebug"; "boot_reginfo"; "a_comment"; "stray_mdebug"; "stray_text"] /\
  In x (l_remaining (last_pass dl_script dl_universe_discard [("main", 5)] (multi_pre dl_doc ex_rt))) /\
  In (u_name x) (aux_section_names (doc_settings dl_doc)) /\
  NoDup (map u_marker dl_universe_discard).
Proof.
  split; [vm_compute; reflexivity|]. split; [vm_compute; tauto|]. split; [vm_compute; tauto|].
  repeat constructor; simpl; intuition discriminate.
Qed.

(* document side: an input section of an object file that NO statement of the script names (C12: the
   input paths of the script are the recorded dependency paths) is still unplaced after the segments *)
Theorem C18_document_unnamed_file_waits : forall env senv ext final d rt w pre ws u x,
  SplitAtTail d rt w pre ws -> In x u -> ~ In (u_path x) (input_paths (wo_script w)) ->
  In x (l_remaining (run env senv ext final pre (init_state u))).
Proof. exact document_unnamed_file_waits. Qed.

(* hence, with an allow-listed name, it survives: no split needed in the statement *)
Theorem C18_document_allowlisted_survive_file : forall env senv ext final d rt w u x,
  gen_normal d rt = Ok w ->
  let st' := exec_script env senv ext final (wo_script w) (init_state u) in
  In x u -> ~ In (u_path x) (input_paths (wo_script w)) ->
  In (u_name x) (aux_section_names (doc_settings d)) ->
  (exists p, In p (l_placed st') /\ placed_by_name x p) /\
  ~ In x (l_remaining st') /\
  (NoDup (map u_marker u) -> ~ In (u_marker x) (l_discarded st')).
Proof. exact document_allowlisted_survive_file. Qed.

Theorem C18_document_allowlisted_survive_file_layout : forall d rt w u ext0 x,
  gen_normal d rt = Ok w ->
  let st' := layout (wo_script w) u ext0 in
  In x u -> ~ In (u_path x) (input_paths (wo_script w)) ->
  In (u_name x) (aux_section_names (doc_settings d)) ->
  (exists p, In p (l_placed st') /\ placed_by_name x p) /\
  ~ In x (l_remaining st') /\
  (NoDup (map u_marker u) -> ~ In (u_marker x) (l_discarded st')).
Proof. exact document_allowlisted_survive_file_layout. Qed.

Example C18_document_allowlisted_survive_file_ex :
  let x := USec "build/src/stray.o" None ".mdebug" 12 4 false "stray_mdebug" in
  In x dl_universe_discard /\ ~ In (u_path x) (input_paths dl_script) /\
  In (u_name x) (aux_section_names (doc_settings dl_doc)).
Proof.
  split; [vm_compute; tauto|]. split; [|vm_compute; tauto].
  vm_compute. intuition discriminate.
Qed.

(* ====================================================================== *)
(* 2. denied sections and, with the wildcard, all unplaced sections are discarded *)
(* ====================================================================== *)

(* an input section still unplaced after the segments, whose name no allow list names: if the deny list
   names it, or if the wildcard is on, its marker is in l_discarded of the final state and it is no
   longer waiting *)
Theorem C18_document_denied_discarded : forall env senv ext final d rt w pre ws u x,
  SplitAtTail d rt w pre ws ->
  let stg := doc_settings d in
  let st_seg := run env senv ext final pre (init_state u) in
  let st' := exec_script env senv ext final (wo_script w) (init_state u) in
  In x (l_remaining st_seg) -> ~ In (u_name x) (aux_section_names stg) ->
  (In (u_name x) (sections_denylist stg) \/ discard_wildcard_section stg = true) ->
  In (u_marker x) (l_discarded st') /\ ~ In x (l_remaining st').
Proof. exact document_denied_discarded. Qed.

Theorem C18_document_denied_discarded_layout : forall d rt w pre ws u ext0 x,
  SplitAtTail d rt w pre ws ->
  let stg := doc_settings d in
  let st' := layout (wo_script w) u ext0 in
  In x (l_remaining (last_pass (wo_script w) u ext0 pre)) -> ~ In (u_name x) (aux_section_names stg) ->
  (In (u_name x) (sections_denylist stg) \/ discard_wildcard_section stg = true) ->
  In (u_marker x) (l_discarded st') /\ ~ In x (l_remaining st').
Proof. exact document_denied_discarded_layout. Qed.

(* boot.o(.reginfo) is named by the deny list; a.o(.comment) is taken by the wildcard *)
Example C18_document_denied_discarded_ex :
  let x := USec "build/src/boot.o" None ".reginfo" 24 4 false "boot_reginfo" in
  let y := USec "build/src/a.o" None ".comment" 7 1 false "a_comment" in
  let R := l_remaining (last_pass dl_script dl_universe_discard [("main", 5)] (multi_pre dl_doc ex_rt)) in
  In x R /\ ~ In (u_name x) (aux_section_names (doc_settings dl_doc)) /\
  In (u_name x) (sections_denylist (doc_settings dl_doc)) /\
  In y R /\ ~ In (u_name y) (aux_section_names (doc_settings dl_doc)) /\
  discard_wildcard_section (doc_settings dl_doc) = true.
Proof. vm_compute. intuition discriminate. Qed.

(* exactly: the discarded markers of the final state are those of the input sections still unplaced
   after the segments, not allow-listed, that the deny list names or the wildcard takes - in link order *)
Theorem C18_document_discarded_exactly : forall env senv ext final d rt w pre ws u,
  SplitAtTail d rt w pre ws ->
  let stg := doc_settings d in
  let st_seg := run env senv ext final pre (init_state u) in
  let st' := exec_script env senv ext final (wo_script w) (init_state u) in
  l_discarded st' =
  map u_marker (filter (fun x => negb (allow_listed stg x) && discard_hits stg x) (l_remaining st_seg)).
Proof. exact document_discarded_exactly. Qed.

Theorem C18_document_discarded_exactly_layout : forall d rt w pre ws u ext0,
  SplitAtTail d rt w pre ws ->
  let stg := doc_settings d in
  l_discarded (layout (wo_script w) u ext0) =
  map u_marker (filter (fun x => negb (allow_listed stg x) && discard_hits stg x)
                       (l_remaining (last_pass (wo_script w) u ext0 pre))).
Proof. exact document_discarded_exactly_layout. Qed.

(* the converse of C18_document_denied_discarded *)
Theorem C18_document_discarded_only : forall env senv ext final d rt w pre ws u m,
  SplitAtTail d rt w pre ws ->
  let stg := doc_settings d in
  let st_seg := run env senv ext final pre (init_state u) in
  let st' := exec_script env senv ext final (wo_script w) (init_state u) in
  In m (l_discarded st') ->
  exists x, In x (l_remaining st_seg) /\ u_marker x = m /\ ~ In (u_name x) (aux_section_names stg) /\
            (In (u_name x) (sections_denylist stg) \/ discard_wildcard_section stg = true).
Proof. exact document_discarded_only. Qed.

(* ====================================================================== *)
(* 3. nothing placed is discarded; no discard block, nothing discarded     *)
(* ====================================================================== *)

(* every placement of the final state was made by the segments' statements or is the placement of an
   allow-listed section by its allow-list entry *)
Theorem C18_document_placed_by : forall env senv ext final d rt w pre ws u,
  SplitAtTail d rt w pre ws ->
  let stg := doc_settings d in
  let st_seg := run env senv ext final pre (init_state u) in
  let st' := exec_script env senv ext final (wo_script w) (init_state u) in
  exists pls, l_placed st' = (l_placed st_seg ++ pls)%list /\
    Forall (fun p => exists x, In x (l_remaining st_seg) /\ allow_listed stg x = true /\ placed_by_name x p) pls.
Proof. exact document_placed_by. Qed.

(* and, the markers of the universe being pairwise different, none of the placed input sections is
   discarded or still waiting *)
Theorem C18_document_placed_never_discarded : forall env senv ext final d rt w u m,
  gen_normal d rt = Ok w -> NoDup (map u_marker u) ->
  let st' := exec_script env senv ext final (wo_script w) (init_state u) in
  In m (map pl_marker (l_placed st')) -> ~ In m (l_discarded st') /\ ~ In m (map u_marker (l_remaining st')).
Proof. exact document_placed_never_discarded. Qed.

Theorem C18_document_placed_never_discarded_layout : forall d rt w u ext0 m,
  gen_normal d rt = Ok w -> NoDup (map u_marker u) ->
  let st' := layout (wo_script w) u ext0 in
  In m (map pl_marker (l_placed st')) -> ~ In m (l_discarded st') /\ ~ In m (map u_marker (l_remaining st')).
Proof. exact document_placed_never_discarded_layout. Qed.

(* without the wildcard and with an empty deny list nothing is discarded, whatever the objects hold *)
Theorem C18_document_no_discard_block : forall env senv ext final d rt w u,
  gen_normal d rt = Ok w ->
  discard_wildcard_section (doc_settings d) = false -> sections_denylist (doc_settings d) = [] ->
  l_discarded (exec_script env senv ext final (wo_script w) (init_state u)) = [].
Proof. exact document_no_discard_block. Qed.

Theorem C18_document_no_discard_block_layout : forall d rt w u ext0,
  gen_normal d rt = Ok w ->
  discard_wildcard_section (doc_settings d) = false -> sections_denylist (doc_settings d) = [] ->
  l_discarded (layout (wo_script w) u ext0) = [].
Proof. exact document_no_discard_block_layout. Qed.

(* nodiscard_doc (Spec/C17Doc.v): dl_doc with the wildcard switched off and the deny list emptied *)
Example C18_document_no_discard_block_ex :
  discard_wildcard_section (doc_settings nodiscard_doc) = false /\
  sections_denylist (doc_settings nodiscard_doc) = [] /\
  match gen_normal nodiscard_doc ex_rt with
  | Ok w => let st := layout (wo_script w) dl_universe_discard [("main", 5)] in
            l_discarded st = [] /\
            map u_marker (l_remaining st) = ["boot_reginfo"; "a_comment"; "stray_text"]
  | Err _ => False
  end.
Proof. vm_compute. repeat split; reflexivity. Qed.

(* the whole outcome on the sample: the two .mdebug sections placed in .mdebug, the denied and the
   unplaced ones discarded, nothing left *)
Example C18_document_ex :
  let st := layout dl_script dl_universe_discard [("main", 5)] in
  l_errors st = [] /\ l_remaining st = [] /\
  l_discarded st = ["boot_reginfo"; "a_comment"; "stray_text"] /\
  map (fun p => (pl_marker p, pl_outsec p)) (skipn 8 (l_placed st)) =
  [("boot_mdebug", ".mdebug"); ("stray_mdebug", ".mdebug")].
Proof. vm_compute. repeat split; reflexivity. Qed.

Print Assumptions C18_document_split.
Print Assumptions C18_document_split_multi.
Print Assumptions C18_layout_last_pass.
Print Assumptions C18_document_tail_outcome.
Print Assumptions C18_document_tail_outcome_layout.
Print Assumptions C18_document_allowlisted_survive.
Print Assumptions C18_document_allowlisted_survive_layout.
Print Assumptions C18_document_unnamed_file_waits.
Print Assumptions C18_document_allowlisted_survive_file.
Print Assumptions C18_document_allowlisted_survive_file_layout.
Print Assumptions C18_document_denied_discarded.
Print Assumptions C18_document_denied_discarded_layout.
Print Assumptions C18_document_discarded_exactly.
Print Assumptions C18_document_discarded_exactly_layout.
Print Assumptions C18_document_discarded_only.
Print Assumptions C18_document_placed_by.
Print Assumptions C18_document_placed_never_discarded.
Print Assumptions C18_document_placed_never_discarded_layout.
Print Assumptions C18_document_no_discard_block.
Print Assumptions C18_document_no_discard_block_layout.
