(* C02DocPartial - the link-level half of C02 (Properties/C02Doc.v) for the MAIN script of a partial
   build (gen_partial, po_main): ROM positions never decrease in segment order; the addresses of the
   placed input sections never decrease within a segment; and the C01 statement it goes through (every
   placement lies inside its segment).  Only statements, each closed by [exact]; see
   Proofs/C02DocPartial.v.
   Hypotheses as in Properties/C11DocPartial.v: the generator succeeds, [doc_link_wf_partial d rt]
   (implied by the ordinary [doc_link_wf], C11_partial_wf_of_ordinary), no negative size in the object
   universe (here: the input sections of the partial objects), no LForwardRef for the allocatable
   section of an included segment; for the placements also [doc_outsecs_fresh d rt] (Spec/C01Doc.v). *)
From Slinky Require Import Model.Types Model.Runtime Model.Style Model.Script Model.Writer Model.LdSem.
From Slinky Require Import Spec.C18 Spec.C04 Spec.C09 Spec.DocLevel Spec.DocWf Spec.DocPartial Spec.C01Doc.
From Slinky Require Import Proofs.C02DocPartial.
From Coq Require Import ZArith.
Local Open Scope string_scope.
Local Open Scope Z_scope.

(* 0 <= ROM_START(s_1) <= ROM_END(s_1) <= ROM_START(s_2) <= ... <= ROM_END(s_n) = __romPos *)
Theorem C02_partial_document_rom_monotone : forall env senv ext final d rt p u,
  gen_partial d rt = Ok p -> doc_link_wf_partial d rt = true ->
  Forall (fun x => 0 <= u_size x) u ->
  let sty := linker_symbols_style (doc_settings d) in
  let segs := included rt (doc_segments d) in
  let st' := exec_script env senv ext final (wo_script (po_main p)) (init_state u) in
  (forall seg, In seg segs -> ~ In (LForwardRef (alloc_name seg)) (l_errors st')) ->
  RomMonotone sty st' 0 segs.
Proof. exact partial_rom_monotone. Qed.

Theorem C02_partial_document_rom_monotone_layout : forall d rt p u ext0,
  gen_partial d rt = Ok p -> doc_link_wf_partial d rt = true ->
  Forall (fun x => 0 <= u_size x) u ->
  let sty := linker_symbols_style (doc_settings d) in
  let segs := included rt (doc_segments d) in
  let st' := layout (wo_script (po_main p)) u ext0 in
  (forall seg, In seg segs -> ~ In (LForwardRef (alloc_name seg)) (l_errors st')) ->
  RomMonotone sty st' 0 segs.
Proof. exact partial_rom_monotone_layout. Qed.

(* the placements of .seg, in placement order, have non-decreasing addresses; so have those of
   .seg.noload; everything placed in .seg.noload is at or after everything placed in .seg *)
Theorem C02_partial_document_vram_order_within_segment : forall env senv ext final d rt p u seg,
  gen_partial d rt = Ok p -> doc_link_wf_partial d rt = true -> doc_outsecs_fresh d rt = true ->
  Forall (fun x => 0 <= u_size x) u ->
  In seg (included rt (doc_segments d)) ->
  let st' := exec_script env senv ext final (wo_script (po_main p)) (init_state u) in
  (forall s, In s (included rt (doc_segments d)) -> ~ In (LForwardRef (alloc_name s)) (l_errors st')) ->
  VramOrderWithin st' seg.
Proof. exact partial_vram_order. Qed.

Theorem C02_partial_document_vram_order_within_segment_layout : forall d rt p u ext0 seg,
  gen_partial d rt = Ok p -> doc_link_wf_partial d rt = true -> doc_outsecs_fresh d rt = true ->
  Forall (fun x => 0 <= u_size x) u ->
  In seg (included rt (doc_segments d)) ->
  let st' := layout (wo_script (po_main p)) u ext0 in
  (forall s, In s (included rt (doc_segments d)) -> ~ In (LForwardRef (alloc_name s)) (l_errors st')) ->
  VramOrderWithin st' seg.
Proof. exact partial_vram_order_layout. Qed.

(* the order inside each of the two output sections needs the error condition for THIS segment only *)
Theorem C02_partial_document_vram_order_sections : forall env senv ext final d rt p u seg,
  gen_partial d rt = Ok p -> doc_link_wf_partial d rt = true -> doc_outsecs_fresh d rt = true ->
  Forall (fun x => 0 <= u_size x) u ->
  In seg (included rt (doc_segments d)) ->
  let st' := exec_script env senv ext final (wo_script (po_main p)) (init_state u) in
  ~ In (LForwardRef (alloc_name seg)) (l_errors st') ->
  nondecreasing (map pl_addr (placed_in (alloc_name seg) st')) /\
  nondecreasing (map pl_addr (placed_in (noload_name seg) st')).
Proof. exact partial_vram_order_sections. Qed.

(* C01 for the main script: both output sections of the segment exist, in order, below VRAM_END, and
   every placement lies inside its output section *)
Theorem C01_partial_document_in_segment_range : forall env senv ext final d rt p u seg,
  gen_partial d rt = Ok p -> doc_link_wf_partial d rt = true -> doc_outsecs_fresh d rt = true ->
  Forall (fun x => 0 <= u_size x) u ->
  In seg (included rt (doc_segments d)) ->
  let sty := linker_symbols_style (doc_settings d) in
  let st' := exec_script env senv ext final (wo_script (po_main p)) (init_state u) in
  (forall s, In s (included rt (doc_segments d)) -> ~ In (LForwardRef (alloc_name s)) (l_errors st')) ->
  InSegmentRange sty u st' seg.
Proof. exact partial_in_segment_range. Qed.

Theorem C01_partial_document_in_segment_range_layout : forall d rt p u ext0 seg,
  gen_partial d rt = Ok p -> doc_link_wf_partial d rt = true -> doc_outsecs_fresh d rt = true ->
  Forall (fun x => 0 <= u_size x) u ->
  In seg (included rt (doc_segments d)) ->
  let sty := linker_symbols_style (doc_settings d) in
  let st' := layout (wo_script (po_main p)) u ext0 in
  (forall s, In s (included rt (doc_segments d)) -> ~ In (LForwardRef (alloc_name s)) (l_errors st')) ->
  InSegmentRange sty u st' seg.
Proof. exact partial_in_segment_range_layout. Qed.

(* ---------- examples ---------- *)

(* dl_doc (Spec/DocLevel.v) in partial mode, linked over its partial objects (Spec/DocPartial.v) *)
Example ex_c02_partial_hypotheses :
  doc_link_wf_partial dl_doc ex_rt = true /\ doc_outsecs_fresh dl_doc ex_rt = true /\
  (exists p, gen_partial dl_doc ex_rt = Ok p /\ wo_script (po_main p) = dl_main_script) /\
  map sg_name (included ex_rt (doc_segments dl_doc)) = ["boot"; "ovl_a"; "ovl_b"] /\
  Forall (fun x => 0 <= u_size x) dl_universe_partial /\
  l_errors (layout dl_main_script dl_universe_partial [("main", 5)]) = [].
Proof.
  split; [vm_compute; reflexivity|]. split; [vm_compute; reflexivity|].
  split; [eexists; split; vm_compute; reflexivity|]. split; [vm_compute; reflexivity|].
  split; [repeat constructor; vm_compute; discriminate | vm_compute; reflexivity].
Qed.

Example ex_c02_partial_link :
  let st := layout dl_main_script dl_universe_partial [("main", 5)] in
  map (val st) ["boot_ROM_START"; "boot_ROM_END"; "ovl_a_ROM_START"; "ovl_a_ROM_END";
                "ovl_b_ROM_START"; "ovl_b_ROM_END"; "__romPos"] =
    [Some 0; Some 68; Some 80; Some 104; Some 112; Some 176; Some 176] /\
  map (fun p => (pl_marker p, pl_addr p)) (placed_in ".boot" st) = [("boot_text", 0); ("boot_data", 40)] /\
  map (fun p => (pl_marker p, pl_addr p)) (placed_in ".boot.noload" st) = [("boot_bss", 72)] /\
  map (fun p => (pl_marker p, pl_addr p)) (placed_in ".ovl_b" st) =
    [("b_text", 2148532224); ("b_data", 2148532272)] /\
  map (fun p => (pl_marker p, pl_addr p)) (placed_in ".ovl_b.noload" st) = [("b_bss", 2148532288)].
Proof. vm_compute. repeat split; reflexivity. Qed.

Print Assumptions C02_partial_document_rom_monotone.
Print Assumptions C02_partial_document_rom_monotone_layout.
Print Assumptions C02_partial_document_vram_order_within_segment.
Print Assumptions C02_partial_document_vram_order_within_segment_layout.
Print Assumptions C02_partial_document_vram_order_sections.
Print Assumptions C01_partial_document_in_segment_range.
Print Assumptions C01_partial_document_in_segment_range_layout.
