(* C18, link level - what the linker does with the allow-list entries and the /DISCARD/ block.
   Only statements, each closed by [exact]; see Proofs/C18Link.v.  For every previous-pass environment
   [env]/[senv], object symbols [ext], kind of pass [final] and state. *)
From Slinky Require Import Model.Types Model.Runtime Model.Style Model.Script Model.Writer Model.LdSem.
From Slinky Require Import Spec.C17 Spec.C04 Proofs.C18Link.
From Coq Require Import ZArith Permutation.
Local Open Scope string_scope.
Local Open Scope Z_scope.

(* C18_allow_placed: "sect 0 : { *(sect); }" places exactly the still-unplaced input sections named
   sect, of every file, in an output section named sect at address 0, and they are unplaced no more *)
Theorem C18_allow_placed : forall env senv ext final st sect,
  let st' := exec_top_stmt env senv ext final st (SSingleEntry sect) in
  let chosen := filter (named sect) (l_remaining st) in
  l_remaining st' = filter (fun u => negb (named sect u)) (l_remaining st) /\
  (exists pls, l_placed st' = (l_placed st ++ pls)%list /\ map pl_marker pls = map u_marker chosen /\
               Forall (fun p => pl_outsec p = sect) pls) /\
  (exists o, l_secs st' = (l_secs st ++ [o])%list /\ os_name o = sect /\ os_vma o = 0 /\ os_noload o = false) /\
  l_discarded st' = l_discarded st /\ l_syms st' = l_syms st /\ l_errors st' = l_errors st.
Proof. exact allow_placed. Qed.

(* C18_discard: the /DISCARD/ block moves to the discarded exactly the still-unplaced sections whose
   name is one of the patterns - all of them when the wildcard is present; nothing already placed is
   touched; with the wildcard nothing stays unplaced *)
Theorem C18_discard : forall env senv ext final st pats wild,
  let st' := exec_top_stmt env senv ext final st (SDiscard pats wild) in
  l_discarded st' = (l_discarded st ++ map u_marker (filter (hit pats wild) (l_remaining st)))%list /\
  l_remaining st' = filter (fun u => negb (hit pats wild u)) (l_remaining st) /\
  l_placed st' = l_placed st /\ l_secs st' = l_secs st /\ l_syms st' = l_syms st /\
  (wild = true -> l_remaining st' = []).
Proof. exact discard. Qed.

(* one statement, whatever it is: nothing leaves l_placed; l_discarded only receives markers of
   sections that were still unplaced at that moment; the markers of the input sections are only moved
   between placed / discarded / unplaced (a permutation) *)
Theorem C18_statement_moves : forall env senv ext final st s,
  Permutation (accounted (exec_top_stmt env senv ext final st s)) (accounted st) /\
  (exists new, l_placed (exec_top_stmt env senv ext final st s) = (l_placed st ++ new)%list) /\
  (exists f, l_discarded (exec_top_stmt env senv ext final st s) =
             (l_discarded st ++ map u_marker (filter f (l_remaining st)))%list).
Proof. exact top_accounted. Qed.

(* a whole script *)
Theorem C18_script_moves : forall env senv ext final script st,
  Permutation (accounted (exec_script env senv ext final script st)) (accounted st) /\
  (exists new, l_placed (exec_script env senv ext final script st) = (l_placed st ++ new)%list) /\
  (exists new, l_discarded (exec_script env senv ext final script st) = (l_discarded st ++ new)%list).
Proof. exact script_accounted. Qed.

(* what is still unplaced only shrinks *)
Theorem C18_remaining_shrinks : forall env senv ext final script st,
  exists f, l_remaining (exec_script env senv ext final script st) = filter f (l_remaining st).
Proof. exact script_remaining. Qed.

(* C18_placed_never_discarded: in a pass over input sections with distinct markers every section is
   in exactly one place at the end; in particular a section placed by a segment or by an allow-list
   entry - which precede the discard block (C18_tail_last) - is never discarded *)
Theorem C18_placed_never_discarded : forall env senv ext final script u,
  NoDup (map u_marker u) ->
  let st' := exec_script env senv ext final script (init_state u) in
  Permutation (accounted st') (map u_marker u) /\
  (forall m, In m (map pl_marker (l_placed st')) -> ~ In m (l_discarded st')) /\
  (forall m, In m (map pl_marker (l_placed st')) -> ~ In m (map u_marker (l_remaining st'))).
Proof. exact placed_never_discarded. Qed.

(* the sample document, with a .mdebug section (allow-listed), a .reginfo section (denied) and a
   .comment section (caught by the wildcard) in the objects *)
Example ex_link_discard :
  let st := layout ex_script ex_universe_discard [("main", 5)] in
  l_errors st = [] /\ l_remaining st = [] /\
  l_discarded st = ["boot_reginfo"; "a_comment"] /\
  map (fun p => (pl_marker p, pl_outsec p)) (l_placed st) =
  [("boot_text", ".boot"); ("a_text", ".ovl_a"); ("boot_mdebug", ".mdebug"); ("a_mdebug", ".mdebug")] /\
  NoDup (map u_marker ex_universe_discard).
Proof.
  vm_compute. repeat split; try reflexivity. repeat constructor; simpl; intuition discriminate.
Qed.

Print Assumptions C18_allow_placed.
Print Assumptions C18_discard.
Print Assumptions C18_statement_moves.
Print Assumptions C18_script_moves.
Print Assumptions C18_remaining_shrinks.
Print Assumptions C18_placed_never_discarded.
