(* C01Listed - the bridge between the generator half and the link half of C01:
   "When the script is linked with GNU ld, every such input section [= every configured section of an
   included object or archive entry] ends up inside its segment's address range and none is discarded
   or left as an orphan."
   Properties/C01.v and C06More.v say which input statements the script contains; Properties/C01Doc.v says
   that whatever is placed in .seg / .seg.noload lies inside the segment.  Here: an input section that a
   listed statement selects IS placed there - provided no earlier statement takes it first (GNU ld gives
   an input section to the first statement that matches it; LdSem: the statement filters l_remaining).
   Only statements, each closed by [exact]; see Proofs/C01Listed.v, definitions in Spec/C01Listed.v. *)
From Slinky Require Import Model.Types Model.Runtime Model.Style Model.Script Model.Writer Model.LdSem.
From Slinky Require Import Spec.C18 Spec.C04 Spec.C09 Spec.C01 Spec.DocLevel Spec.C01Doc Spec.C01Listed.
From Slinky Require Import Proofs.C01Listed.
From Coq Require Import ZArith Permutation.
Local Open Scope string_scope.
Local Open Scope Z_scope.

(* ====================================================================== *)
(* 1. one input statement                                                  *)
(* ====================================================================== *)

(* the test LdSem applies, [sel false path member sect wild x], spelled out: same path; an object
   statement takes sections of objects, an archive statement those of the named member (or of any member
   for the member "*"); the section name is [sect], or - with the wildcard flag - starts with [sect] *)
Theorem C01_input_matches_sel : forall path member sect wild x,
  sel false path member sect wild x = true <-> input_matches path member sect wild x.
Proof. exact input_matches_sel. Qed.

(* executing [SInput kp path member sect wild] inside the output section [outsec]: every waiting input
   section that the statement matches gets a placement in [outsec] and stops waiting; those it does not
   match keep waiting; every new placement is in [outsec] and belongs to a waiting section that
   matched; nothing is discarded, no placement is removed, no error is recorded *)
Theorem C01_input_captures : forall env senv ext final vma sub outsec ss kp path member sect wild,
  let ss' := exec_sec_stmt env senv ext final vma sub outsec ss (SInput kp path member sect wild) in
  let st := s_st ss in
  let st' := s_st ss' in
  (forall x, In x (l_remaining st) -> input_matches path member sect wild x ->
             placed_at st' x outsec /\ ~ In x (l_remaining st')) /\
  (forall x, In x (l_remaining st) -> ~ input_matches path member sect wild x -> In x (l_remaining st')) /\
  (forall p, In p (l_placed st') ->
             In p (l_placed st) \/
             (pl_outsec p = outsec /\
              exists x, In x (l_remaining st) /\ input_matches path member sect wild x /\
                        pl_marker p = u_marker x)) /\
  incl (l_placed st) (l_placed st') /\
  incl (l_remaining st') (l_remaining st) /\
  l_discarded st' = l_discarded st /\ l_errors st' = l_errors st.
Proof. exact input_captures. Qed.

Example C01_input_captures_example :
  let ss' := exec_sec_stmt [] [] [] true 2148532224 None ".ovl_b" (SState 0 false (init_state dl_universe))
                           (SInput false "build/src/b.o" None ".data" true) in
  map (fun p => (pl_marker p, pl_addr p, pl_outsec p)) (l_placed (s_st ss')) = [("b_data", 2148532224, ".ovl_b")] /\
  map u_marker (l_remaining (s_st ss')) = ["boot_text"; "boot_data"; "boot_bss"; "a_text"; "a_bss"; "b_text"; "b_bss"].
Proof. vm_compute. split; reflexivity. Qed.

(* ====================================================================== *)
(* 2. a whole script: the first matching statement gets the section        *)
(* ====================================================================== *)

(* [script_claims script]: the statements that take input sections, in execution order - the input
   statements of every output section (CInput outsec ...), the allow-list entries (CEntry), the
   /DISCARD/ block (CDiscard).  [first_claim cs x]: the first of them that matches [x]; spelled out: *)
Theorem C01_first_claim_some : forall cs x c,
  first_claim cs x = Some c <->
  exists pre post, cs = (pre ++ c :: post)%list /\ (forall c', In c' pre -> claim_matches c' x = false) /\
                   claim_matches c x = true.
Proof. exact first_claim_some. Qed.

Theorem C01_first_claim_none : forall cs x,
  first_claim cs x = None <-> forall c, In c cs -> claim_matches c x = false.
Proof. exact first_claim_none. Qed.

(* any script, from any state, any pass: an input section [x] that is waiting
   - keeps waiting when no statement matches it;
   - otherwise is taken by the first statement [c] that matches it ([captured]: placed in the output
     section that contains [c] - or discarded when [c] is the /DISCARD/ block - and no longer waiting),
     unless [c] is an input statement of an output section whose address expression could not be
     evaluated ([claim_failed]: LdSem records LForwardRef for that section and skips its body) *)
Theorem C01_script_first_match : forall env senv ext final script st x,
  In x (l_remaining st) ->
  let st' := exec_script env senv ext final script st in
  match first_claim (script_claims script) x with
  | None => In x (l_remaining st')
  | Some c => claim_failed st' c \/ captured st' x c
  end.
Proof. exact script_first_match. Qed.

Theorem C01_script_first_match_layout : forall script u ext0 x,
  In x u ->
  let st' := layout script u ext0 in
  match first_claim (script_claims script) x with
  | None => In x (l_remaining st')
  | Some c => claim_failed st' c \/ captured st' x c
  end.
Proof. exact script_first_match_layout. Qed.

(* with pairwise different markers the output section is unique *)
Theorem C01_placed_once : forall env senv ext final script st x o o',
  NoDup (all_markers st) ->
  let st' := exec_script env senv ext final script st in
  placed_at st' x o -> placed_at st' x o' -> o = o'.
Proof. exact placed_once. Qed.

(* the statement that gets each input section of the sample universe *)
Example C01_script_first_match_example :
  map (fun x => (u_marker x, first_claim (script_claims dl_script) x)) dl_universe =
  [("boot_text", Some (CInput ".boot" "build/src/boot.o" None ".text" true));
   ("boot_data", Some (CInput ".boot" "build/src/boot.o" None ".data" true));
   ("boot_bss", Some (CInput ".boot.noload" "build/src/boot.o" None ".bss" true));
   ("a_text", Some (CInput ".ovl_a" "build/src/a.o" None ".text" true));
   ("a_bss", Some (CInput ".ovl_a.noload" "build/src/a.o" None ".bss" true));
   ("b_text", Some (CInput ".ovl_b" "build/src/b.o" None ".text" true));
   ("b_data", Some (CInput ".ovl_b" "build/src/b.o" None ".data" true));
   ("b_bss", Some (CInput ".ovl_b.noload" "build/src/b.o" None ".bss" true))] /\
  map (fun p => (pl_marker p, pl_outsec p)) (l_placed (layout dl_script dl_universe [("main", 5)])) =
  [("boot_text", ".boot"); ("boot_data", ".boot"); ("boot_bss", ".boot.noload"); ("a_text", ".ovl_a");
   ("a_bss", ".ovl_a.noload"); ("b_text", ".ovl_b"); ("b_data", ".ovl_b"); ("b_bss", ".ovl_b.noload")].
Proof. vm_compute. split; reflexivity. Qed.

(* ====================================================================== *)
(* 3. generated scripts: what the claims are, which sections can fail      *)
(* ====================================================================== *)

(* multi-segment mode.  The claims of the generated script are [A ++ tail_claims]: first those of the
   segments, then one per allow-list entry and the /DISCARD/ block.  [A] is exactly what the document
   lists: every element is the statement of an included segment [s], a half [nl] (false: .s with
   alloc_sections, true: .s.noload with noload_sections), a leaf of the file list of [s] and a section it
   reaches from a section of that half ([listed] / [leaf_reaches]: the vocabulary of C01_nothing_unlisted
   and C06_included_leaf_normal, plus the output section); conversely each such statement is in [A] *)
Theorem C01_document_claims : forall rt d w,
  gen_normal d rt = Ok w -> single_segment_mode (doc_settings d) = false ->
  exists A, script_claims (wo_script w) = (A ++ tail_claims (doc_settings d))%list /\
    (forall c, In c A -> exists s nl, In s (included rt (doc_segments d)) /\ listed rt d s nl c) /\
    (forall s nl lf bc p k, In s (included rt (doc_segments d)) -> leaf_reaches rt d s nl lf bc p k ->
                            In (leaf_claim s nl lf bc p k) A).
Proof. exact document_claims. Qed.

(* [leaf_reaches] from the hypotheses of C06_included_leaf_normal: [seg_base] (Proofs/C06More.v), a leaf
   of an entry of the segment, a configured section of the half, [reach_via] with any sort key *)
Theorem C01_leaf_reaches_intro : forall rt d seg nl b c0 lf bc chain section sections k p,
  Proofs.C06More.seg_base rt cfg_normal seg (base_path (doc_settings d)) b -> In c0 (sg_files seg) ->
  In (lf, bc, chain) (leaves rt b c0) -> In section (part_sections seg nl) ->
  reach_via cfg_normal seg sections chain section k -> escape_path rt (fi_path lf) = Ok p ->
  leaf_reaches rt d seg nl lf bc p k.
Proof. exact leaf_reaches_intro. Qed.

(* LForwardRef can only be recorded for "." (an assignment to the location counter that cannot be
   evaluated) and for the allocatable output section of an included segment *)
Theorem C01_document_forward_refs : forall env senv ext final d rt w st n,
  gen_normal d rt = Ok w -> single_segment_mode (doc_settings d) = false ->
  In (LForwardRef n) (l_errors (exec_script env senv ext final (wo_script w) st)) ->
  In (LForwardRef n) (l_errors st) \/ n = "." \/
  exists seg, In seg (included rt (doc_segments d)) /\ n = alloc_name seg.
Proof. exact document_forward_refs. Qed.

(* ... so the noload output section of an included segment never fails *)
Theorem C01_noload_never_fails : forall env senv ext final d rt w u seg,
  gen_normal d rt = Ok w -> doc_link_wf d rt = true -> In seg (included rt (doc_segments d)) ->
  ~ In (LForwardRef (noload_name seg)) (l_errors (exec_script env senv ext final (wo_script w) (init_state u))).
Proof. exact noload_never_fails. Qed.

(* ====================================================================== *)
(* 4. a listed input section is placed in its segment                      *)
(* ====================================================================== *)

(* multi-segment mode; [seg] an included segment; (lf, bc) a leaf of its file list with escaped path [p];
   [k] a section it reaches from a configured section of half [nl]; [x] an input section of the universe
   that the statement of the leaf for [k] selects (path display (push bc p), member, name [k] - or, with
   wildcard_sections, a name that starts with [k]).  If the first statement of the script that matches
   [x] is in the output section of that half ([first_goes]; e.g. it is the statement itself: nothing
   earlier matches) and that output section did not fail, then at the end of the pass [x] is placed in
   .seg (nl = false) / .seg.noload (nl = true) and is no longer waiting *)
Theorem C01_document_listed_placed : forall env senv ext final d rt w u seg nl lf bc p k x,
  gen_normal d rt = Ok w -> single_segment_mode (doc_settings d) = false ->
  In seg (included rt (doc_segments d)) -> leaf_reaches rt d seg nl lf bc p k ->
  In x u -> input_matches (display (push bc p)) (member_of lf) k (wildcard_sections seg) x ->
  first_goes (wo_script w) x (eq (part_name seg nl)) ->
  let st' := exec_script env senv ext final (wo_script w) (init_state u) in
  ~ In (LForwardRef (part_name seg nl)) (l_errors st') ->
  placed_at st' x (part_name seg nl) /\ ~ In x (l_remaining st').
Proof. exact document_listed_placed. Qed.

Theorem C01_document_listed_placed_layout : forall d rt w u ext0 seg nl lf bc p k x,
  gen_normal d rt = Ok w -> single_segment_mode (doc_settings d) = false ->
  In seg (included rt (doc_segments d)) -> leaf_reaches rt d seg nl lf bc p k ->
  In x u -> input_matches (display (push bc p)) (member_of lf) k (wildcard_sections seg) x ->
  first_goes (wo_script w) x (eq (part_name seg nl)) ->
  let st' := layout (wo_script w) u ext0 in
  ~ In (LForwardRef (part_name seg nl)) (l_errors st') ->
  placed_at st' x (part_name seg nl) /\ ~ In x (l_remaining st').
Proof. exact document_listed_placed_layout. Qed.

(* the same for any set [P] of acceptable output sections *)
Theorem C01_document_listed_placed_gen : forall env senv ext final d rt w u seg nl lf bc p k x (P : string -> Prop),
  gen_normal d rt = Ok w -> single_segment_mode (doc_settings d) = false ->
  In seg (included rt (doc_segments d)) -> leaf_reaches rt d seg nl lf bc p k ->
  In x u -> input_matches (display (push bc p)) (member_of lf) k (wildcard_sections seg) x ->
  first_goes (wo_script w) x P ->
  let st' := exec_script env senv ext final (wo_script w) (init_state u) in
  (forall o, P o -> ~ In (LForwardRef o) (l_errors st')) ->
  exists o, P o /\ placed_at st' x o /\ ~ In x (l_remaining st').
Proof. exact document_listed_placed_gen. Qed.

(* what is placed is, with pairwise different markers, neither discarded nor waiting *)
Theorem C01_placed_exclusive : forall env senv ext final script u x o,
  NoDup (map u_marker u) ->
  let st' := exec_script env senv ext final script (init_state u) in
  placed_at st' x o ->
  ~ In (u_marker x) (l_discarded st') /\ ~ In (u_marker x) (map u_marker (l_remaining st')).
Proof. exact placed_exclusive. Qed.

(* "ends up inside its segment's address range": hypotheses of C01_document_in_segment_range (doc_link_wf,
   doc_outsecs_fresh, sizes >= 0, no LForwardRef for the allocatable sections) and pairwise different
   markers; it is enough that the first statement matching [x] is in ONE OF the two output sections of
   [seg].  Then [InsideSegment]: the placement of [x] is in .seg or .seg.noload, at an address [a] with
   start(.seg) <= a and a + size(x) <= VRAM_END(seg); [x] is neither waiting nor discarded *)
Theorem C01_document_listed_in_segment : forall env senv ext final d rt w u seg nl lf bc p k x,
  gen_normal d rt = Ok w -> doc_link_wf d rt = true -> doc_outsecs_fresh d rt = true ->
  Forall (fun y => 0 <= u_size y) u -> NoDup (map u_marker u) ->
  In seg (included rt (doc_segments d)) -> leaf_reaches rt d seg nl lf bc p k ->
  In x u -> input_matches (display (push bc p)) (member_of lf) k (wildcard_sections seg) x ->
  first_goes (wo_script w) x (seg_outsec seg) ->
  let sty := linker_symbols_style (doc_settings d) in
  let st' := exec_script env senv ext final (wo_script w) (init_state u) in
  (forall s, In s (included rt (doc_segments d)) -> ~ In (LForwardRef (alloc_name s)) (l_errors st')) ->
  InsideSegment sty st' seg x /\
  ~ In x (l_remaining st') /\ ~ In (u_marker x) (map u_marker (l_remaining st')) /\
  ~ In (u_marker x) (l_discarded st').
Proof. exact document_listed_in_segment. Qed.

Theorem C01_document_listed_in_segment_layout : forall d rt w u ext0 seg nl lf bc p k x,
  gen_normal d rt = Ok w -> doc_link_wf d rt = true -> doc_outsecs_fresh d rt = true ->
  Forall (fun y => 0 <= u_size y) u -> NoDup (map u_marker u) ->
  In seg (included rt (doc_segments d)) -> leaf_reaches rt d seg nl lf bc p k ->
  In x u -> input_matches (display (push bc p)) (member_of lf) k (wildcard_sections seg) x ->
  first_goes (wo_script w) x (seg_outsec seg) ->
  let sty := linker_symbols_style (doc_settings d) in
  let st' := layout (wo_script w) u ext0 in
  (forall s, In s (included rt (doc_segments d)) -> ~ In (LForwardRef (alloc_name s)) (l_errors st')) ->
  InsideSegment sty st' seg x /\
  ~ In x (l_remaining st') /\ ~ In (u_marker x) (map u_marker (l_remaining st')) /\
  ~ In (u_marker x) (l_discarded st').
Proof. exact document_listed_in_segment_layout. Qed.

(* the sample document: segment ovl_b, its object b.o, the sections .data (allocatable half) and .bss
   (noload half); b_data and b_bss of the universe meet the hypotheses *)
Example C01_listed_hypotheses_example :
  doc_link_wf dl_doc ex_rt = true /\ doc_outsecs_fresh dl_doc ex_rt = true /\
  single_segment_mode (doc_settings dl_doc) = false /\
  In dl_seg_b (included ex_rt (doc_segments dl_doc)) /\
  leaf_reaches ex_rt dl_doc dl_seg_b false (ex_obj "b.o") "build/src" "b.o" ".data" /\
  leaf_reaches ex_rt dl_doc dl_seg_b true (ex_obj "b.o") "build/src" "b.o" ".bss" /\
  In dl_b_data dl_universe /\ In dl_b_bss dl_universe /\
  input_matches (display (push "build/src" "b.o")) (member_of (ex_obj "b.o")) ".data" (wildcard_sections dl_seg_b) dl_b_data /\
  input_matches (display (push "build/src" "b.o")) (member_of (ex_obj "b.o")) ".bss" (wildcard_sections dl_seg_b) dl_b_bss /\
  exists w, gen_normal dl_doc ex_rt = Ok w /\
    first_goes (wo_script w) dl_b_data (eq (part_name dl_seg_b false)) /\
    first_goes (wo_script w) dl_b_bss (eq (part_name dl_seg_b true)) /\
    first_goes (wo_script w) dl_b_data (seg_outsec dl_seg_b) /\
    l_errors (layout (wo_script w) dl_universe [("main", 5)]) = [].
Proof.
  split; [vm_compute; reflexivity|]. split; [vm_compute; reflexivity|]. split; [reflexivity|].
  split; [right; right; left; reflexivity|].
  split; [exact (proj1 ex_leaf_reaches)|]. split; [exact (proj2 ex_leaf_reaches)|].
  split; [vm_compute; tauto|]. split; [vm_compute; tauto|].
  split; [apply input_matches_sel; reflexivity|]. split; [apply input_matches_sel; reflexivity|].
  eexists. split; [vm_compute; reflexivity|].
  split; [|split; [|split]]; try (intros c Hc; vm_compute in Hc; inversion Hc; subst c; eexists; split; [reflexivity|]).
  - reflexivity.
  - reflexivity.
  - left. reflexivity.
  - vm_compute. reflexivity.
Qed.

(* ... and the outcome: b_data (16 bytes) at 2148532272 in .ovl_b = [2148532224, +64), VRAM_END 2148532292 *)
Example C01_listed_link_example :
  let st := layout dl_script dl_universe [("main", 5)] in
  filter (fun p => String.eqb (pl_marker p) "b_data") (l_placed st) = [Placement "b_data" 2148532272 ".ovl_b"] /\
  filter (fun p => String.eqb (pl_marker p) "b_bss") (l_placed st) = [Placement "b_bss" 2148532288 ".ovl_b.noload"] /\
  option_map (fun o => (os_vma o, os_size o)) (find_sec ".ovl_b" (l_secs st)) = Some (2148532224, 64) /\
  val st "ovl_b_VRAM_END" = Some 2148532292 /\ l_remaining st = []%list /\ l_discarded st = []%list.
Proof. vm_compute. repeat split; reflexivity. Qed.

(* ====================================================================== *)
(* 5. document-side conditions for "no earlier statement takes it"         *)
(* ====================================================================== *)

(* [matching_leaves_in rt d x P]: every (included segment, half, leaf, reached section) of the document
   whose statement would select [x] belongs to an output section in [P].  When at least one of them
   does select [x], the first statement of the script that matches [x] is in [P] (in particular it is not
   an allow-list entry or the /DISCARD/ block: those come after all segments) *)
Theorem C01_first_goes_of_leaves : forall d rt w x (P : string -> Prop),
  gen_normal d rt = Ok w -> single_segment_mode (doc_settings d) = false ->
  matching_leaves_in rt d x P ->
  (exists s nl lf bc p k, In s (included rt (doc_segments d)) /\ leaf_reaches rt d s nl lf bc p k /\
                          input_matches (display (push bc p)) (member_of lf) k (wildcard_sections s) x) ->
  first_goes (wo_script w) x P.
Proof. exact first_goes_of_leaves. Qed.

(* simpler: the file of [x] (its path as the script spells it) is listed by [seg] only ... *)
Theorem C01_matching_of_path_only : forall rt d x seg,
  path_only_in rt d x seg -> matching_leaves_in rt d x (seg_outsec seg).
Proof. exact silent_of_path_only. Qed.

(* ... and no section that a leaf with that file reaches in the OTHER half of [seg] selects the name of
   [x] (exact names: is equal to it; wildcard_sections: is a prefix of it) *)
Theorem C01_matching_of_half : forall rt d x seg nl,
  path_only_in rt d x seg -> half_silent rt d x seg (negb nl) ->
  matching_leaves_in rt d x (eq (part_name seg nl)).
Proof. exact silent_of_half. Qed.

(* put together *)
Theorem C01_document_path_only_in_segment : forall env senv ext final d rt w u seg nl lf bc p k x,
  gen_normal d rt = Ok w -> doc_link_wf d rt = true -> doc_outsecs_fresh d rt = true ->
  Forall (fun y => 0 <= u_size y) u -> NoDup (map u_marker u) ->
  In seg (included rt (doc_segments d)) -> leaf_reaches rt d seg nl lf bc p k ->
  In x u -> input_matches (display (push bc p)) (member_of lf) k (wildcard_sections seg) x ->
  path_only_in rt d x seg ->
  let sty := linker_symbols_style (doc_settings d) in
  let st' := exec_script env senv ext final (wo_script w) (init_state u) in
  (forall s, In s (included rt (doc_segments d)) -> ~ In (LForwardRef (alloc_name s)) (l_errors st')) ->
  InsideSegment sty st' seg x /\
  ~ In x (l_remaining st') /\ ~ In (u_marker x) (map u_marker (l_remaining st')) /\
  ~ In (u_marker x) (l_discarded st').
Proof. exact document_path_only_in_segment. Qed.

Theorem C01_document_path_only_placed : forall env senv ext final d rt w u seg nl lf bc p k x,
  gen_normal d rt = Ok w -> single_segment_mode (doc_settings d) = false ->
  In seg (included rt (doc_segments d)) -> leaf_reaches rt d seg nl lf bc p k ->
  In x u -> input_matches (display (push bc p)) (member_of lf) k (wildcard_sections seg) x ->
  path_only_in rt d x seg -> half_silent rt d x seg (negb nl) ->
  let st' := exec_script env senv ext final (wo_script w) (init_state u) in
  ~ In (LForwardRef (part_name seg nl)) (l_errors st') ->
  placed_at st' x (part_name seg nl) /\ ~ In x (l_remaining st').
Proof. exact document_path_only_placed. Qed.

(* a document without section_order / sub-groups: what is reached is the configured section itself *)
Theorem C01_reach_via_plain : forall cfg seg sections chain a b,
  Forall (fun f => fi_section_order f = []) chain -> sections_subgroups seg = [] ->
  reach_via cfg seg sections chain a b -> b = a.
Proof. exact reach_via_plain. Qed.

(* the sample document meets the two conditions for b_data: build/src/b.o is listed by ovl_b only, and
   .bss (the noload half of ovl_b) is not a prefix of .data *)
Example C01_path_only_example :
  path_only_in ex_rt dl_doc dl_b_data dl_seg_b /\ half_silent ex_rt dl_doc dl_b_data dl_seg_b (negb false).
Proof. split; [exact ex_path_only | exact ex_half_silent]. Qed.

(* ====================================================================== *)
(* KNOWN FINDINGS: the condition on earlier statements is needed           *)
(* ====================================================================== *)

(* the literal reading - every listed input section is placed in the output section of its half, no
   condition - is FALSE of the model.  Prefix capture (cap_doc: wildcard_sections, alloc_sections
   [.text, .data], noload_sections [.data.noinit, .bss]): .data.noinit of a.o is taken by the statement
   for .data of the allocatable half and ends up in .main, not in .main.noload *)
Theorem C01_refuted_prefix_capture :
  exists w, gen_normal cap_doc ex_rt = Ok w /\
    first_claim (script_claims (wo_script w)) cap_noinit = Some (CInput ".main" "build/src/a.o" None ".data" true) /\
    let st := layout (wo_script w) cap_universe [] in
    l_errors st = [] /\
    map (fun p => (pl_marker p, pl_addr p, pl_outsec p)) (l_placed st) =
      [("a_text", 0, ".main"); ("a_data", 16, ".main"); ("a_noinit", 24, ".main"); ("a_bss", 56, ".main.noload")].
Proof. exact refuted_prefix_capture. Qed.

Theorem C01_refuted_unconditional : ~ listed_placed_unconditional.
Proof. exact refuted_unconditional. Qed.

(* (it is still inside the segment: the weaker hypothesis of C01_document_listed_in_segment holds) *)
Example C01_prefix_capture_inside_segment :
  exists w, gen_normal cap_doc ex_rt = Ok w /\ first_goes (wo_script w) cap_noinit (seg_outsec cap_seg).
Proof.
  eexists. split; [vm_compute; reflexivity|]. intros c Hc. vm_compute in Hc. inversion Hc; subst c.
  eexists. split; [reflexivity|]. left. reflexivity.
Qed.

(* "ends up inside its segment" is FALSE too when one object is listed by two segments (twice_doc): the
   first segment takes every section of a.o; a_text is at 0 in .one, outside [16, 24] of segment two,
   which lists it as well *)
Theorem C01_refuted_listed_twice :
  exists w, gen_normal twice_doc ex_rt = Ok w /\
    first_claim (script_claims (wo_script w)) twice_a_text = Some (CInput ".one" "build/src/a.o" None ".text" false) /\
    let st := layout (wo_script w) twice_universe [] in
    l_errors st = [] /\
    map (fun p => (pl_marker p, pl_addr p, pl_outsec p)) (l_placed st) = [("a_text", 0, ".one"); ("b_text", 16, ".two")] /\
    option_map os_vma (find_sec ".two" (l_secs st)) = Some 16 /\ val st "two_VRAM_END" = Some 24.
Proof. exact refuted_listed_twice. Qed.

Theorem C01_refuted_in_segment_unconditional : ~ listed_in_segment_unconditional.
Proof. exact refuted_in_segment_unconditional. Qed.

Print Assumptions C01_input_matches_sel.
Print Assumptions C01_input_captures.
Print Assumptions C01_first_claim_some.
Print Assumptions C01_first_claim_none.
Print Assumptions C01_script_first_match.
Print Assumptions C01_script_first_match_layout.
Print Assumptions C01_placed_once.
Print Assumptions C01_document_claims.
Print Assumptions C01_leaf_reaches_intro.
Print Assumptions C01_document_forward_refs.
Print Assumptions C01_noload_never_fails.
Print Assumptions C01_document_listed_placed.
Print Assumptions C01_document_listed_placed_layout.
Print Assumptions C01_document_listed_placed_gen.
Print Assumptions C01_placed_exclusive.
Print Assumptions C01_document_listed_in_segment.
Print Assumptions C01_document_listed_in_segment_layout.
Print Assumptions C01_first_goes_of_leaves.
Print Assumptions C01_matching_of_path_only.
Print Assumptions C01_matching_of_half.
Print Assumptions C01_document_path_only_in_segment.
Print Assumptions C01_document_path_only_placed.
Print Assumptions C01_reach_via_plain.
Print Assumptions C01_refuted_prefix_capture.
Print Assumptions C01_refuted_unconditional.
Print Assumptions C01_refuted_listed_twice.
Print Assumptions C01_refuted_in_segment_unconditional.
Print Assumptions C01_input_captures_example.
Print Assumptions C01_script_first_match_example.
Print Assumptions C01_listed_hypotheses_example.
Print Assumptions C01_listed_link_example.
Print Assumptions C01_path_only_example.
Print Assumptions C01_prefix_capture_inside_segment.
