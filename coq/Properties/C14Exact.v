(* C14Exact - C14 (KEEP wrapping follows nearest-ancestor keep_sections inheritance) with the statement
   tied to ITS OWN entry.

   The audit found that C14_keep_flag_tree (Properties/C14.v) concludes
       exists g, below g f /\ objlike g /\ s = SInput (keeps (fi_keep g) k) path member k wild
   with [g] and [path] unrelated, so a wrong line - plain.o wrapped in KEEP( ) because ANOTHER entry of
   the tree is kept - satisfies it (C14_old_statement_too_weak below).  Here every input statement is
   the statement OF a specific leaf [g] of the tree ([leaves], Spec/C01.v): its path is g's escaped path
   under the directory accumulated from the groups above g, its member is g's, and its flag is
   [keeps (fi_keep g) sect] for THAT g; conversely every leaf and every section it reaches has that
   statement.  At document level [fi_keep g] is the nearest explicit value written on the entry, its
   enclosing groups, its segment and the segment's vram class (the resolution happens at parse time:
   C14_document_parse), stated through positions in the tree ([effective_keep_of], Spec/Strengthen.v).
   Only statements, each closed by [exact]; proofs in Proofs/Strengthen.v (part A). *)
From Slinky Require Import Model.Types Model.Parse Model.Runtime Model.Style Model.Script Model.Writer.
From Slinky Require Import Spec.C01 Spec.C14 Spec.Strengthen Proofs.C14 Proofs.Strengthen.
Local Open Scope string_scope.

(* ---------- the rule ---------- *)

(* the flag is set iff the entry's (effective) value is `true` or a list containing the section *)
Theorem C14_keep_flag_iff : forall k sect, keeps k sect = true <-> keep_says k sect.
Proof. exact keeps_says. Qed.

(* ---------- emission, one entry (groups at any depth) ---------- *)

(* every input statement emitted for the tree [f] under [base] is the statement of a leaf (g, bg, chain)
   of [f]: an included object / archive entry at or below f, with
   [statement_of_leaf]: escape_path rt (fi_path g) = Ok p, path = display (push bg p), member = member_of g,
   wild = wildcard_sections seg and keep = keeps (fi_keep g) sect;
   and [sect] is reached from [section] through the chain of entries above g.  No hypothesis. *)
Theorem C14_keep_flag_exact :
  forall rt sty cfg seg sections f n stack section base ws o keep path member sect wild,
  emit_sff rt sty cfg seg sections f n stack section base ws = Ok o ->
  In (SInput keep path member sect wild) (fst o) ->
  exists g bg chain,
    In (g, bg, chain) (leaves rt base f) /\ below g f /\ objlike g /\
    statement_of_leaf rt seg g bg keep path member sect wild /\
    reach_via cfg seg sections chain section sect.
Proof. exact keep_flag_exact. Qed.

(* conversely every leaf of the tree and every section reached through its chain has its statement,
   with its own flag, among the statements emitted *)
Theorem C14_keep_flag_exact_conv :
  forall rt sty cfg seg sections f n stack section base ws o g bg chain sect,
  emit_sff rt sty cfg seg sections f n stack section base ws = Ok o ->
  In (g, bg, chain) (leaves rt base f) -> reach_via cfg seg sections chain section sect ->
  exists p, escape_path rt (fi_path g) = Ok p /\
            In (SInput (keeps (fi_keep g) sect) (display (push bg p)) (member_of g) sect (wildcard_sections seg))
               (fst o).
Proof. exact keep_flag_exact_conv. Qed.

(* the group of one section of a segment ([segment_base]: the escaped base path followed, unless the
   script references partial objects, by the segment's escaped dir) *)
Theorem C14_section_exact :
  forall rt sty cfg seg sections bp section ws o keep path member sect wild,
  emit_section rt sty cfg seg sections bp section ws = Ok o ->
  In (SInput keep path member sect wild) (fst o) ->
  exists b c0 g bg chain,
    segment_base rt cfg seg bp b /\ In c0 (sg_files seg) /\ In (g, bg, chain) (leaves rt b c0) /\
    statement_of_leaf rt seg g bg keep path member sect wild /\
    reach_via cfg seg sections chain section sect.
Proof. exact section_keep_exact. Qed.

(* ---------- the old statement was too weak ---------- *)

(* the tree: a group with plain.o (nothing written) and kept.o (keep_sections: true).  What is emitted: *)
Example C14_counterexample_emitted :
  emit_sff kx_rt Splat cfg_normal kx_seg [".text"] kx_group (chain_fuel kx_seg) [] ".text" "build" ws0 =
  Ok ([SInput false "build/lib/plain.o" None ".text" false; SInput true "build/lib/kept.o" None ".text" false],
      WState [["build"; "lib"; "plain.o"]; ["build"; "lib"; "kept.o"]] []).
Proof. exact kx_emitted. Qed.

(* the WRONG line KEEP(build/lib/plain.o(.text)) has the shape the old conclusion asks of a statement
   (take g := kept.o), and does not have the new one; the two right lines do *)
Example C14_old_statement_too_weak :
  kx_wrong = SInput true "build/lib/plain.o" None ".text" false /\
  old_keep_flag_shape kx_group kx_wrong /\
  ~ exact_keep_flag_shape kx_rt kx_seg "build" kx_group kx_wrong.
Proof. split; [reflexivity|]. split; [exact kx_old_shape | exact kx_not_exact]. Qed.

Example C14_right_lines_exact :
  exact_keep_flag_shape kx_rt kx_seg "build" kx_group (SInput false "build/lib/plain.o" None ".text" false) /\
  exact_keep_flag_shape kx_rt kx_seg "build" kx_group (SInput true "build/lib/kept.o" None ".text" false).
Proof. exact kx_right_exact. Qed.

(* ---------- whole documents ---------- *)

(* the flag of any entry of a parsed document: [effective_keep_of] - the entry sits at position [pos] of
   the j-th file of the segment, and [fi_keep g] is [nearest] of the values WRITTEN on the serial entry at
   that position, on the groups enclosing it (innermost first), on the segment and on its vram class *)
Theorem C14_document_effective_keep : forall sd d i ss seg c0 pos g,
  parse sd = Ok d -> nth_error (doc_segments d) i = Some seg -> nth_error (serial_segments sd) i = Some ss ->
  In c0 (sg_files seg) -> entry_at c0 pos = Some g -> effective_keep_of sd ss seg c0 g.
Proof. exact document_effective_keep. Qed.

(* the ordinary script (multi-segment and single-segment mode): every input statement anywhere in it is
   [doc_statement_exact]: the statement of a leaf g of an entry c0 of segment number i of the document -
   path, member, wildcard of THAT leaf - whose flag is the rule applied to the nearest explicit value
   among g, its groups, the segment and the class, and the statement's own section *)
Theorem C14_document_exact : forall sd d rt w keep path member sect wild,
  parse sd = Ok d -> gen_normal d rt = Ok w ->
  In (SInput keep path member sect wild) (flat_map deep_inputs (wo_script w)) ->
  exists seg, In seg (doc_segments d) /\ doc_statement_exact sd d rt cfg_normal seg keep path member sect wild.
Proof. exact document_exact. Qed.

(* the per-segment scripts of a partial build *)
Theorem C14_document_exact_partial : forall sd d rt p name w keep path member sect wild,
  parse sd = Ok d -> gen_partial d rt = Ok p -> In (name, w) (po_subs p) ->
  In (SInput keep path member sect wild) (flat_map deep_inputs (wo_script w)) ->
  exists seg, In seg (doc_segments d) /\ should_emit rt (sg_conds seg) = true /\ name = sg_name seg /\
              doc_statement_exact sd d rt cfg_sub_partial seg keep path member sect wild.
Proof. exact document_exact_sub. Qed.

(* the main script of a partial build names one partial object per segment: nothing is wrapped *)
Theorem C14_document_main_unkept : forall d rt p,
  gen_partial d rt = Ok p -> forall x, In x (flat_map deep_inputs (wo_script (po_main p))) ->
  exists path member k wild, x = SInput false path member k wild.
Proof. exact document_main_unkept. Qed.

(* the converse at document level: every leaf of a written segment and every section it reaches from a
   configured section has its statement, with its own flag, in the script *)
Theorem C14_document_exact_conv : forall d rt w seg b c0 g bg chain sect section sections,
  gen_normal d rt = Ok w -> In seg (doc_segments d) ->
  (single_segment_mode (doc_settings d) = true \/ should_emit rt (sg_conds seg) = true) ->
  segment_base rt cfg_normal seg (base_path (doc_settings d)) b ->
  In c0 (sg_files seg) -> In (g, bg, chain) (leaves rt b c0) ->
  In section (alloc_sections seg ++ noload_sections seg) ->
  reach_via cfg_normal seg sections chain section sect ->
  exists p, escape_path rt (fi_path g) = Ok p /\
            In (SInput (keeps (fi_keep g) sect) (display (push bg p)) (member_of g) sect (wildcard_sections seg))
               (flat_map deep_inputs (wo_script w)).
Proof. exact document_exact_conv. Qed.

Theorem C14_document_exact_conv_partial : forall d rt po seg b c0 g bg chain sect section sections,
  gen_partial d rt = Ok po -> In seg (doc_segments d) -> should_emit rt (sg_conds seg) = true ->
  segment_base rt cfg_sub_partial seg (base_path (doc_settings d)) b ->
  In c0 (sg_files seg) -> In (g, bg, chain) (leaves rt b c0) ->
  In section (alloc_sections seg ++ noload_sections seg) ->
  reach_via cfg_sub_partial seg sections chain section sect ->
  exists w p, In (sg_name seg, w) (po_subs po) /\ escape_path rt (fi_path g) = Ok p /\
            In (SInput (keeps (fi_keep g) sect) (display (push bg p)) (member_of g) sect (wildcard_sections seg))
               (flat_map deep_inputs (wo_script w)).
Proof. exact document_exact_conv_sub. Qed.

(* ---------- examples: the sample document of Properties/C14.v ---------- *)

(* hypotheses of C14_document_exact / _partial: the document parses and generates; the third input
   statement of the script is the KEEP-wrapped statement of g2.o for .data *)
Example C14_ex_exact_hyps :
  is_ok (parse Proofs.C14.ex_doc) = true /\
  match parse Proofs.C14.ex_doc with
  | Ok d => is_ok (gen_normal d Proofs.C14.ex_rt) = true /\ is_ok (gen_partial d Proofs.C14.ex_rt) = true
  | Err _ => False
  end /\
  firstn 4 kx_doc_inputs =
  [SInput false "a1.o" None ".data" true; SInput true "g1.o" None ".data" true;
   SInput true "g2.o" None ".data" true; SInput false "g2b.o" None ".data" true].
Proof. vm_compute. repeat split; reflexivity. Qed.

(* ... and these are the witnesses of its [effective_keep_of]: g2.o is at position [1; 0] of the second
   file of segment "a"; written there, innermost first: nothing on g2.o, [.data] on the inner group, true
   on the outer group, nothing on the segment, [.rodata] on the class; the nearest is [.data], which is
   what the parsed entry carries, so .data is kept and .rodata is not *)
Example C14_ex_effective_keep :
  match parse Proofs.C14.ex_doc, serial_segments Proofs.C14.ex_doc with
  | Ok d, ss :: _ =>
      match doc_segments d with
      | seg :: _ =>
          match nth_error (sg_files seg) 1, nth_error (serial_files ss) 1 with
          | Some c0, Some fs0 =>
              option_map (fun g => (fi_path g, fi_keep g)) (entry_at c0 [1; 0]) = Some ("g2.o", KWhich [".data"]) /\
              written_chain fs0 [1; 0] (written_above Proofs.C14.ex_doc ss) =
                Some [KAbsent; KWhich [".data"]; KAll true; KAbsent; KWhich [".rodata"]] /\
              nearest [KAbsent; KWhich [".data"]; KAll true; KAbsent; KWhich [".rodata"]] = KWhich [".data"] /\
              keeps (KWhich [".data"]) ".data" = true /\ keeps (KWhich [".data"]) ".rodata" = false
          | _, _ => False
          end
      | [] => False
      end
  | _, _ => False
  end.
Proof. vm_compute. repeat split; reflexivity. Qed.

(* hypotheses of C14_keep_flag_exact_conv on the counterexample tree: kept.o is a leaf, .text reaches .text *)
Example C14_ex_conv_hyps :
  In (kx_kept, "build/lib", [kx_group; kx_kept]) (leaves kx_rt "build" kx_group) /\
  reach_via cfg_normal kx_seg [".text"] [kx_group; kx_kept] ".text" ".text".
Proof.
  split; [vm_compute; right; left; reflexivity|].
  exists ".text". split; [apply Reach_here; left; reflexivity|].
  exists ".text". split; [apply Reach_here; left; reflexivity | reflexivity].
Qed.

Print Assumptions C14_keep_flag_iff.
Print Assumptions C14_keep_flag_exact.
Print Assumptions C14_keep_flag_exact_conv.
Print Assumptions C14_section_exact.
Print Assumptions C14_document_effective_keep.
Print Assumptions C14_document_exact.
Print Assumptions C14_document_exact_partial.
Print Assumptions C14_document_main_unkept.
Print Assumptions C14_document_exact_conv.
Print Assumptions C14_document_exact_conv_partial.
