(* C03Fixpoint - the VRAM symbol of a segment is the start of its output section in the FINAL state of the
   link: the last pass of LdSem.layout is a fixpoint for everything that determines the output sections.
   Only statements, each closed by [exact]; see Proofs/Fixpoint.v, definitions in Spec/Fixpoint.v.

   Background.  For each segment slinky writes "X_VRAM = ADDR(.X);" before the output section .X, so
   LdSem reads ADDR(.X) from the sections of the PREVIOUS pass; C03_document_vram_layout
   (Properties/DocLevel.v) therefore says "X_VRAM = vma of .X in pass 2".  Here: pass 2 and the final pass
   compute the same sections, hence "X_VRAM = vma of .X in the final state".

   Side conditions (both boolean, computed from the generated script; see the examples):
   * [script_stable R script]: the static check [chk_list] (Spec/Fixpoint.v) accepts the script.  It threads
     the set of symbols assigned so far IN THE CURRENT PASS from expressions reading only such symbols (or
     the outside names [R]) and the set of output sections created so far, and demands that every
     output-section address, ". =" assignment and load address (AT) reads only those - every read that
     determines a section is BACKWARD or outside.  It excludes: a fixed_symbol / follows_segment / class
     start that reads a symbol the script defines LATER (or never in this pass), a class that follows a
     class whose end is not yet known, "__romPos += SIZEOF(.X)" for a section not created in this pass.
     The lines "X_VRAM = ADDR(.X)" and what depends on them are allowed: they only make X_VRAM unknown.
   * [outside_ok R script ext0]: each outside name of [R] is defined by the objects [ext0] and is assigned
     nowhere in the script.  It excludes: a name that is only the MARKER of an input section (its value is
     a result of the previous pass), and an object symbol that the script itself redefines.
   Without them the statement is false of the model: C03_vram_is_section_start_statement_false.
   No hypothesis on l_errors is needed: an accepted script never raises LForwardRef. *)
From Slinky Require Import Model.Types Model.Runtime Model.Style Model.Script Model.Writer Model.LdSem.
From Slinky Require Import Spec.C18 Spec.C04 Spec.C03 Spec.DocLevel Spec.Fixpoint.
From Slinky Require Import Proofs.Fixpoint.
From Coq Require Import ZArith.
Local Open Scope string_scope.
Local Open Scope Z_scope.

(* ====================================================================== *)
(* 1. two passes over an accepted script                                   *)
(* ====================================================================== *)

(* ANY two passes (previous-pass symbols env_i, previous-pass sections senv_i, object symbols ext_i, kind
   of pass f_i) over a script accepted relative to [R], started on the same object universe, whose
   outside lookups (env_i then ext_i) give the names of [R] the same value: they end with the same
   location counter, output sections (name, vma, size, lma, flags), placements, unplaced and discarded
   input sections ([geom]); the symbols the check keeps ([stable_syms]) have the same value in both; and
   neither pass raises LForwardRef. *)
Theorem Fixpoint_passes_agree :
  forall env1 senv1 ext1 f1 env2 senv2 ext2 f2 R script u,
  script_stable R script = true -> agree_on R env1 ext1 env2 ext2 ->
  let st1 := exec_script env1 senv1 ext1 f1 script (init_state u) in
  let st2 := exec_script env2 senv2 ext2 f2 script (init_state u) in
  geom st1 = geom st2 /\
  (forall x, In x (stable_syms R script) ->
             exists v, sym_lookup x st1 env1 ext1 = Some v /\ sym_lookup x st2 env2 ext2 = Some v) /\
  (forall n, ~ In (LForwardRef n) (l_errors st1)) /\ (forall n, ~ In (LForwardRef n) (l_errors st2)).
Proof. exact passes_agree. Qed.

(* the step behind it: one statement list, two states related by [sim] (same geometry, the names of K
   have the same value, the sections of S exist, no LForwardRef so far) *)
Theorem Fixpoint_run_sim :
  forall env1 senv1 ext1 f1 env2 senv2 ext2 f2 l K S K' S' st1 st2,
  chk_list K S l = Some (K', S') ->
  sim env1 ext1 env2 ext2 K S st1 st2 ->
  sim env1 ext1 env2 ext2 K' S' (run env1 senv1 ext1 f1 l st1) (run env2 senv2 ext2 f2 l st2).
Proof. exact run_sim. Qed.

(* the last pass of [layout] reproduces the second one *)
Theorem Fixpoint_layout : forall R script u ext0,
  script_stable R script = true -> outside_ok R script ext0 = true ->
  let p1 := exec_script [] [] ext0 false script (init_state u) in
  let ext2 := (ext0 ++ markers_of p1)%list in
  let p2 := exec_script (l_syms p1) (l_secs p1) ext2 false script (init_state u) in
  let ext3 := (ext0 ++ markers_of p2)%list in
  let st' := layout script u ext0 in
  geom p2 = geom st' /\
  (forall x, In x (stable_syms R script) ->
             exists v, sym_lookup x p2 (l_syms p1) ext2 = Some v /\ sym_lookup x st' (l_syms p2) ext3 = Some v) /\
  (forall n, ~ In (LForwardRef n) (l_errors p2)) /\ (forall n, ~ In (LForwardRef n) (l_errors st')).
Proof. exact layout_fixpoint. Qed.

(* ====================================================================== *)
(* 2. C03: the VRAM symbol is the start of the section in the final state   *)
(* ====================================================================== *)

(* the target statement; [R] is any list of outside names making the two side conditions true
   ([] when no fixed_symbol reads an object symbol) *)
Theorem C03_vram_is_section_start_layout : forall R d rt w u ext0 seg o,
  gen_normal d rt = Ok w -> doc_link_wf d rt = true ->
  script_stable R (wo_script w) = true -> outside_ok R (wo_script w) ext0 = true ->
  Forall (fun x => 0 <= u_size x) u ->
  let sty := linker_symbols_style (doc_settings d) in
  let st' := layout (wo_script w) u ext0 in
  In seg (included rt (doc_segments d)) ->
  find_sec (alloc_name seg) (l_secs st') = Some o ->
  val st' (segment_vram_start sty (sg_name seg)) = Some (os_vma o).
Proof. exact vram_is_section_start. Qed.

(* with the existing VramChain facts: both sections of the segment exist in the final state, the noload
   one at or after the end of the allocatable one; VRAM = start of .X, VRAM_END = end of .X.noload aligned
   to segment_end_align, VRAM_SIZE = VRAM_END - start of .X *)
Theorem C03_vram_symbols_layout : forall R d rt w u ext0 seg,
  gen_normal d rt = Ok w -> doc_link_wf d rt = true ->
  script_stable R (wo_script w) = true -> outside_ok R (wo_script w) ext0 = true ->
  Forall (fun x => 0 <= u_size x) u ->
  let sty := linker_symbols_style (doc_settings d) in
  let st' := layout (wo_script w) u ext0 in
  In seg (included rt (doc_segments d)) ->
  exists o1 o2,
    find_sec (alloc_name seg) (l_secs st') = Some o1 /\
    find_sec (noload_name seg) (l_secs st') = Some o2 /\
    os_vma o1 + os_size o1 <= os_vma o2 /\ 0 <= os_size o1 /\ 0 <= os_size o2 /\
    let ve := align_up (os_vma o2 + os_size o2) (align_z (segment_end_align seg)) in
    val st' (segment_vram_start sty (sg_name seg)) = Some (os_vma o1) /\
    val st' (segment_vram_end sty (sg_name seg)) = Some ve /\
    val st' (segment_vram_size sty (sg_name seg)) = Some (ve - os_vma o1).
Proof. exact vram_is_section_start_layout. Qed.

(* ====================================================================== *)
(* 3. a class of documents whose generated script is accepted               *)
(* ====================================================================== *)

(* [backward_addresses R d rt] (Spec/Fixpoint.v), computed from the DOCUMENT: every included segment starts
   at a literal (fixed_vram), at the location counter (no address field), at user text (fixed_symbol) whose
   symbols are all in [R], or at the end of an EARLIER included segment (follows_segment); no included
   segment uses a vram_class; no user symbol_assignment is named ".".  Then the generated script is
   accepted, provided the names of [R] are assigned nowhere in it.
   Not covered by this class (use [script_stable] on the generated script, as for dl_doc below): vram
   classes - the check itself accepts a class whose followed classes were all placed earlier. *)
Theorem Fixpoint_backward_documents : forall R d rt w,
  gen_normal d rt = Ok w -> doc_link_wf d rt = true -> backward_addresses R d rt = true ->
  (forall x, In x R -> no_assign x (flat_stmts (wo_script w)) = true) ->
  script_stable R (wo_script w) = true.
Proof. exact backward_script_stable. Qed.

(* the target statement for that class: conditions on the document, and on the object symbols *)
Theorem C03_vram_is_section_start_backward : forall R d rt w u ext0 seg o,
  gen_normal d rt = Ok w -> doc_link_wf d rt = true ->
  backward_addresses R d rt = true -> outside_ok R (wo_script w) ext0 = true ->
  Forall (fun x => 0 <= u_size x) u ->
  let sty := linker_symbols_style (doc_settings d) in
  let st' := layout (wo_script w) u ext0 in
  In seg (included rt (doc_segments d)) ->
  find_sec (alloc_name seg) (l_secs st') = Some o ->
  val st' (segment_vram_start sty (sg_name seg)) = Some (os_vma o).
Proof. exact vram_is_section_start_backward. Qed.

(* ====================================================================== *)
(* 4. the statement without the side conditions is false                    *)
(* ====================================================================== *)

(* C03_vram_is_section_start_statement (Spec/Fixpoint.v): the same conclusion from gen_normal, doc_link_wf
   and "the final pass has no error at all" only.  Refuted by fx_counter_doc, see ex_counterexample. *)
Theorem C03_vram_is_section_start_statement_false : ~ C03_vram_is_section_start_statement.
Proof. exact statement_false. Qed.

(* ====================================================================== *)
(* examples                                                                *)
(* ====================================================================== *)

(* dl_doc / dl_universe (Spec/DocLevel.v: three included segments, two of them in one class): the
   hypotheses hold with R = [] *)
Example ex_fixpoint_hyps :
  (exists w, gen_normal dl_doc ex_rt = Ok w /\ wo_script w = dl_script) /\
  doc_link_wf dl_doc ex_rt = true /\
  script_stable [] dl_script = true /\ outside_ok [] dl_script [("main", 5)] = true /\
  Forall (fun x => 0 <= u_size x) dl_universe.
Proof.
  split; [eexists; split; vm_compute; reflexivity|].
  split; [vm_compute; reflexivity|]. split; [vm_compute; reflexivity|]. split; [vm_compute; reflexivity|].
  repeat constructor; vm_compute; discriminate.
Qed.

(* and the conclusion evaluates as stated: each VRAM symbol is the vma of its section in the final state;
   the symbols the check does not keep are exactly the VRAM / VRAM_SIZE pairs and the PROVIDEd ones (_gp is
   assigned twice: hard-coded, then PROVIDEd by the segment boot) *)
Example ex_fixpoint_dl :
  let st := layout dl_script dl_universe [("main", 5)] in
  map (fun n => (val st (n ++ "_VRAM"), option_map os_vma (find_sec ("." ++ n) (l_secs st)))) ["boot"; "ovl_a"; "ovl_b"] =
  [(Some 0, Some 0); (Some 2148532224, Some 2148532224); (Some 2148532224, Some 2148532224)] /\
  map (fun n => val st (n ++ "_VRAM_SIZE")) ["boot"; "ovl_a"; "ovl_b"] = [Some 172; Some 32; Some 68] /\
  filter (fun x => negb (mem_str x (stable_syms [] dl_script))) (map fst (l_syms st)) =
  ["stack_top"; "ovl_b_VRAM_SIZE"; "ovl_b_VRAM"; "ovl_a_VRAM_SIZE"; "ovl_a_VRAM"; "boot_VRAM_SIZE"; "_gp"; "boot_VRAM"; "_gp"].
Proof. vm_compute. repeat split; reflexivity. Qed.

(* fx_doc (Spec/Fixpoint.v): one segment per kind of start address, every read backward - a literal, the
   object symbol heap_base, the end of the previous segment, a class, a class following that class.
   Accepted with R = ["heap_base"]; not with R = [] *)
Example ex_fixpoint_fx :
  let ext0 := [("heap_base", 2147500000)] in
  doc_link_wf fx_doc ex_rt = true /\
  script_stable ["heap_base"] (script_of fx_doc) = true /\ outside_ok ["heap_base"] (script_of fx_doc) ext0 = true /\
  script_stable [] (script_of fx_doc) = false /\
  let st := layout (script_of fx_doc) fx_universe ext0 in
  l_errors st = [] /\
  map (fun n => (val st (n ++ "_VRAM"), option_map os_vma (find_sec ("." ++ n) (l_secs st)))) ["boot"; "a"; "b"; "c"; "d"] =
  [(Some 2147484672, Some 2147484672); (Some 2147500256, Some 2147500256); (Some 2147500288, Some 2147500288);
   (Some 2148532224, Some 2148532224); (Some 2148532256, Some 2148532256)].
Proof. vm_compute. repeat split; reflexivity. Qed.

(* fx_backward_doc: the same without classes is in the class of section 3 *)
Example ex_fixpoint_backward :
  let ext0 := [("heap_base", 2147500000)] in
  doc_link_wf fx_backward_doc ex_rt = true /\
  backward_addresses ["heap_base"] fx_backward_doc ex_rt = true /\
  outside_ok ["heap_base"] (script_of fx_backward_doc) ext0 = true /\
  backward_addresses [] fx_backward_doc ex_rt = false /\
  backward_addresses [] dl_doc ex_rt = false.
Proof. vm_compute. repeat split; reflexivity. Qed.

(* the counterexample to the unconditioned statement: "mid" is placed at b_text + 0x1000, b_text being the
   marker of an input section of the segment "last", which follows "mid" at the location counter.  Pass 1
   cannot place .mid (b_text unknown: LForwardRef, in pass 1 only); pass 2 places it from the b_text of
   pass 1 (176 + 4096 = 4272), which moves b_text to 4304; the final pass places it at 4304 + 4096 = 8400
   and reads mid_VRAM = ADDR(.mid) = 4272 from pass 2.  The final pass has no error and the document is
   well-formed.  The check rejects the script with R = []; with R = ["b_text"] it is [outside_ok] that
   fails (b_text is not an object symbol of ext0 = []) *)
Example ex_counterexample :
  let script := script_of fx_counter_doc in
  let p1 := exec_script [] [] [] false script (init_state dl_universe) in
  let p2 := exec_script (l_syms p1) (l_secs p1) ([] ++ markers_of p1)%list false script (init_state dl_universe) in
  let st := layout script dl_universe [] in
  doc_link_wf fx_counter_doc ex_rt = true /\
  l_errors p1 = [LForwardRef ".mid"] /\ l_errors p2 = [] /\ l_errors st = [] /\
  option_map os_vma (find_sec ".mid" (l_secs p2)) = Some 4272 /\
  option_map os_vma (find_sec ".mid" (l_secs st)) = Some 8400 /\
  val st "mid_VRAM" = Some 4272 /\
  script_stable [] script = false /\
  script_stable ["b_text"] script = true /\ outside_ok ["b_text"] script [] = false.
Proof. vm_compute. repeat split; reflexivity. Qed.

(* a second one: the user's assignment "base = a_VRAM_END + 0x100" redefines the object symbol that the
   address of .a reads; each pass moves .a by 0x120.  [outside_ok] fails: "base" is assigned in the script *)
Example ex_counterexample_redefine :
  let script := script_of fx_redefine_doc in
  let ext0 := [("base", 4096)] in
  let p1 := exec_script [] [] ext0 false script (init_state dl_universe) in
  let p2 := exec_script (l_syms p1) (l_secs p1) (ext0 ++ markers_of p1)%list false script (init_state dl_universe) in
  let st := layout script dl_universe ext0 in
  doc_link_wf fx_redefine_doc ex_rt = true /\ l_errors st = [] /\
  option_map os_vma (find_sec ".a" (l_secs p1)) = Some 4096 /\
  option_map os_vma (find_sec ".a" (l_secs p2)) = Some 4384 /\
  option_map os_vma (find_sec ".a" (l_secs st)) = Some 4672 /\
  val st "a_VRAM" = Some 4384 /\
  script_stable ["base"] script = true /\ outside_ok ["base"] script ext0 = false.
Proof. vm_compute. repeat split; reflexivity. Qed.

Print Assumptions Fixpoint_passes_agree.
Print Assumptions Fixpoint_run_sim.
Print Assumptions Fixpoint_layout.
Print Assumptions C03_vram_is_section_start_layout.
Print Assumptions C03_vram_symbols_layout.
Print Assumptions Fixpoint_backward_documents.
Print Assumptions C03_vram_is_section_start_backward.
Print Assumptions C03_vram_is_section_start_statement_false.
