(* C10 - Vram classes.
   Only statements, each closed by [exact]; see Proofs/C10.v.  Link-level theorems hold for every
   previous-pass environment [env]/[senv], object symbols [ext], kind of pass [final] and starting state. *)
From Slinky Require Import Model.Types Model.Runtime Model.Style Model.Script Model.Writer Model.LdSem.
From Slinky Require Import Spec.C17 Spec.C04 Spec.C03 Spec.C10 Proofs.C18 Proofs.C17 Proofs.C04 Proofs.C03 Proofs.C10.
From Coq Require Import ZArith.
Local Open Scope string_scope.
Local Open Scope Z_scope.

(* ====================================================================== *)
(* script level                                                            *)
(* ====================================================================== *)

(* what an included segment is preceded by: the start statements of its class exactly when the class
   is not yet marked as emitted; the class is marked afterwards; a class it names is declared *)
Theorem C10_segment_class : forall rt stg cfg classes seg ws s ws',
  add_segment rt stg cfg classes seg ws = Ok (s, ws') ->
  should_emit rt (sg_conds seg) = true ->
  exists rest,
    s = (class_prefix stg classes seg (ws_emitted ws) ++ seg_head stg seg ++ rest)%list /\
    ws_emitted ws' = emitted_after seg (ws_emitted ws) /\
    (forall cn, sg_vram_class seg = Some cn -> exists c, class_get classes cn = Some c).
Proof. exact segment_class. Qed.

(* the mark of a class after a list of segments: it was marked before, or some included segment of
   the list names the class (so the marks only grow) *)
Theorem C10_emitted_iff : forall rt stg cfg classes cn segs ws s ws',
  fold_out (add_segment rt stg cfg classes) segs ws = Ok (s, ws') ->
  mem_str cn (ws_emitted ws') = mem_str cn (ws_emitted ws) || names_class rt cn segs.
Proof. exact emitted_fold. Qed.

Theorem C10_emitted_monotone : forall rt stg cfg classes cn segs ws s ws',
  fold_out (add_segment rt stg cfg classes) segs ws = Ok (s, ws') ->
  mem_str cn (ws_emitted ws) = true -> mem_str cn (ws_emitted ws') = true.
Proof. exact emitted_monotone. Qed.

(* C10_once_before: the start statements of a class are emitted in front of the first included
   segment that names it (before that segment's own first statement), the class is unmarked until
   then and marked from then on ... *)
Theorem C10_once_before : forall rt stg cfg classes l1 seg l2 ws body ws' cn c,
  fold_out (add_segment rt stg cfg classes) (l1 ++ seg :: l2) ws = Ok (body, ws') ->
  should_emit rt (sg_conds seg) = true -> sg_vram_class seg = Some cn -> class_get classes cn = Some c ->
  mem_str cn (ws_emitted ws) = false -> names_class rt cn l1 = false ->
  exists b1 wsa rest wsb b2,
    fold_out (add_segment rt stg cfg classes) l1 ws = Ok (b1, wsa) /\
    add_segment rt stg cfg classes seg wsa = Ok ((class_start_stmts stg c cn ++ seg_head stg seg ++ rest)%list, wsb) /\
    fold_out (add_segment rt stg cfg classes) l2 wsb = Ok (b2, ws') /\
    body = (b1 ++ (class_start_stmts stg c cn ++ seg_head stg seg ++ rest) ++ b2)%list /\
    mem_str cn (ws_emitted wsa) = false /\ mem_str cn (ws_emitted wsb) = true /\ mem_str cn (ws_emitted ws') = true.
Proof. exact once_before. Qed.

(* ... and a marked class gets no start statements again: hence once *)
Theorem C10_never_again : forall stg classes seg emitted cn,
  sg_vram_class seg = Some cn -> mem_str cn emitted = true -> class_prefix stg classes seg emitted = [].
Proof. exact never_again. Qed.

(* a class that no included segment names stays unmarked: no start statements, no size statement *)
Theorem C10_unused_class : forall rt stg cfg classes cn segs ws s ws',
  fold_out (add_segment rt stg cfg classes) segs ws = Ok (s, ws') ->
  mem_str cn (ws_emitted ws) = false -> names_class rt cn segs = false ->
  mem_str cn (ws_emitted ws') = false.
Proof. exact unused_class. Qed.

(* the size statements at the end of SECTIONS: one per marked class, in declaration order *)
Theorem C10_sizes : forall st classes ws,
  end_sections_body st classes ws =
  sep_concat [map (class_size_stmt (linker_symbols_style st)) (emitted_classes classes ws);
              tail_allow st; tail_extra st; tail_discard st].
Proof. exact class_sizes. Qed.

(* C10_missing_class *)
Theorem C10_missing_class : forall rt stg cfg classes seg ws cn,
  sg_vram_class seg = Some cn -> class_get classes cn = None ->
  add_segment rt stg cfg classes seg ws =
  if should_emit rt (sg_conds seg) then Err (EMissingVramClassForSegment (sg_name seg) cn) else Ok ([], ws).
Proof. exact missing_class. Qed.

(* a class start symbol is never a class end symbol, whatever the two class names *)
Theorem C10_start_not_end : forall sty a b, vram_class_end sty b <> vram_class_start sty a.
Proof. exact class_start_not_end. Qed.

(* ====================================================================== *)
(* link level                                                              *)
(* ====================================================================== *)

(* C10_start_value: after the start statements of a class, END = 0 and START = its fixed_vram, or the
   value of its fixed_symbol text, or MAX(0, the ends of the classes it follows) *)
Theorem C10_start_value : forall env senv ext final stg c name st,
  let sty := linker_symbols_style stg in
  let START := vram_class_start sty name in
  let END := vram_class_end sty name in
  let st' := run env senv ext final (class_start_stmts stg c name) st in
  val st' END = Some 0 /\
  (forall v, vc_fixed_vram c = Some v -> val st' START = Some (Z.of_N v)) /\
  (forall s v, vc_fixed_vram c = None -> vc_fixed_symbol c = Some s ->
               eval_raw env ext st s = Ok v -> val st' START = Some v) /\
  (forall es, vc_fixed_vram c = None -> vc_fixed_symbol c = None ->
              Forall2 (fun o e => sym_lookup (vram_class_end sty o) st env ext = Some e) (vc_follows_classes c) es ->
              val st' START = Some (fold_left Z.max es 0)).
Proof. exact class_start_value. Qed.

(* C10_end_running_max: one update ... *)
Theorem C10_end_running_max : forall env senv ext final st sym other a b,
  val st sym = Some a -> sym_lookup other st env ext = Some b ->
  exec_top_stmt env senv ext final st (SMaxSelf sym other) = set_sym sym (Z.max a b) false st.
Proof. exact top_maxself. Qed.

(* ... and a whole run: statements that do not assign END, interleaved with updates
   END = MAX(END, x_i) where x_i has the value v_i, leave END = MAX(initial value, v_1, ..., v_n) *)
Theorem C10_end_is_max : forall env senv ext final END st vs st',
  MaxRun env senv ext final END st vs st' ->
  forall a, val st END = Some a -> val st' END = Some (fold_left Z.max vs a).
Proof. exact max_run. Qed.

(* every included segment of a class ends with "END = MAX(END, name_VRAM_END)" *)
Theorem C10_member_shape : forall rt stg cfg classes seg ws s ws' cn,
  add_segment rt stg cfg classes seg ws = Ok (s, ws') ->
  should_emit rt (sg_conds seg) = true -> sg_vram_class seg = Some cn ->
  exists rest,
    s = (class_prefix stg classes seg (ws_emitted ws) ++
         (seg_head stg seg ++ rest ++ seg_foot_main stg seg) ++
         [SBlank; class_end_max (linker_symbols_style stg) cn seg; SBlank])%list.
Proof. exact member_shape. Qed.

(* the end of the class after a member segment: MAX(its value before - 0 when this segment is the
   first member -, the VRAM end of the segment) *)
Theorem C10_member_class_end : forall env senv ext final rt stg cfg classes seg ws s ws' cn st0 a ve,
  add_segment rt stg cfg classes seg ws = Ok (s, ws') ->
  should_emit rt (sg_conds seg) = true -> sg_vram_class seg = Some cn ->
  let sty := linker_symbols_style stg in
  let END := vram_class_end sty cn in
  let VE := segment_vram_end sty (sg_name seg) in
  forall rest,
    s = (class_prefix stg classes seg (ws_emitted ws) ++
         (seg_head stg seg ++ rest ++ seg_foot_main stg seg) ++
         [SBlank; class_end_max sty cn seg; SBlank])%list ->
    existsb (assigns END) (seg_head stg seg ++ rest ++ seg_foot_main stg seg) = false ->
    (mem_str cn (ws_emitted ws) = true -> val st0 END = Some a) ->
    (mem_str cn (ws_emitted ws) = false -> a = 0) ->
    sym_lookup VE (run env senv ext final
                       (class_prefix stg classes seg (ws_emitted ws) ++
                        seg_head stg seg ++ rest ++ seg_foot_main stg seg) st0) env ext = Some ve ->
    val (run env senv ext final s st0) END = Some (Z.max a ve).
Proof. exact member_class_end. Qed.

(* over the whole list of segments: the end of class cn is MAX(its value before - 0 when the class is
   started in this list -, the VRAM ends of all its emitted member segments), the VRAM ends being those
   read at the end of the pass.  Hypotheses on names: the class end symbol is assigned only by
   statements of the two shapes slinky uses for it (end_clean: no segment, section or linker-offset
   symbol happens to have the same name), and the VRAM end of each member is assigned once *)
Theorem C10_class_end_is_max : forall env senv ext final rt stg cfg classes cn segs ws body ws' st0 a,
  fold_out (add_segment rt stg cfg classes) segs ws = Ok (body, ws') ->
  let sty := linker_symbols_style stg in
  let END := vram_class_end sty cn in
  let st' := run env senv ext final body st0 in
  end_clean END body = true ->
  (forall seg, In seg (members rt cn segs) -> defined_once (segment_vram_end sty (sg_name seg)) body = true) ->
  (mem_str cn (ws_emitted ws) = true -> val st0 END = Some a) ->
  (mem_str cn (ws_emitted ws) = false -> a = 0) ->
  exists vs,
    Forall2 (fun seg v => val st' (segment_vram_end sty (sg_name seg)) = Some v) (members rt cn segs) vs /\
    (mem_str cn (ws_emitted ws') = true -> val st' END = Some (fold_left Z.max vs a)).
Proof. exact class_end_is_max. Qed.

Theorem C10_class_end_injective : forall sty a b, vram_class_end sty a = vram_class_end sty b -> a = b.
Proof. exact vram_class_end_inj. Qed.

(* C10_member_starts_at_class: the address expression of a member is the class start symbol ... *)
Theorem C10_member_addr : forall env senv ext st here START v,
  sym_lookup START st env ext = Some v -> eval_expr env senv ext st here (ESym START) = Ok v.
Proof. exact member_addr_value. Qed.

(* ... so the allocatable section of a member is placed at the value of the class start symbol
   (as left by the class start statements when this segment is the first member) *)
Theorem C10_member_starts_at_class : forall env senv ext final rt stg cfg classes seg ws s ws' cn st0,
  add_segment rt stg cfg classes seg ws = Ok (s, ws') ->
  should_emit rt (sg_conds seg) = true -> sg_vram_class seg = Some cn -> at_most_one_addr seg ->
  let sty := linker_symbols_style stg in
  let START := vram_class_start sty cn in
  let st' := run env senv ext final s st0 in
  vram_names_distinct sty (sg_name seg) s = true ->
  ~ In (LForwardRef (alloc_name seg)) (l_errors st') ->
  sizes_ok st0 ->
  existsb (assigns START) (seg_head stg seg ++ sections_kind_start sty cfg seg false) = false ->
  exists o1 o2,
    l_secs st' = (l_secs st0 ++ [o1; o2])%list /\ os_name o1 = alloc_name seg /\
    sym_lookup START (run env senv ext final (class_prefix stg classes seg (ws_emitted ws)) st0) env ext
    = Some (os_vma o1).
Proof. exact member_starts_at_class. Qed.

(* C10_size *)
Theorem C10_size : forall env senv ext final sty cn st e s,
  val st (vram_class_end sty cn) = Some e -> val st (vram_class_start sty cn) = Some s ->
  exec_top_stmt env senv ext final st (class_size_stmt sty cn) = set_sym (vram_class_size sty cn) (e - s) false st.
Proof. exact class_size_value. Qed.

(* ====================================================================== *)
(* examples                                                                *)
(* ====================================================================== *)

(* the sample document: "overlay" is named by ovl_a (second segment), not by boot *)
Example ex_names_class :
  names_class ex_rt "overlay" [nth 0 (doc_segments ex_doc) (ex_segment "" [] None None no_conds)] = false /\
  names_class ex_rt "overlay" (doc_segments ex_doc) = true /\
  (exists c, class_get (doc_vram_classes ex_doc) "overlay" = Some c).
Proof. repeat split; try reflexivity. eexists. reflexivity. Qed.

(* nothing in the middle of ovl_a assigns overlay_VRAM_CLASS_END or overlay_VRAM_CLASS_START *)
Example ex_class_names_free :
  match add_segment ex_rt ex_settings cfg_normal (doc_vram_classes ex_doc)
                    (nth 1 (doc_segments ex_doc) (ex_segment "" [] None None no_conds)) ws0 with
  | Ok (s, _) =>
      List.length (filter (assigns "overlay_VRAM_CLASS_END") s) = 2%nat /\
      List.length (filter (assigns "overlay_VRAM_CLASS_START") s) = 1%nat
  | Err _ => False
  end.
Proof. vm_compute. split; reflexivity. Qed.

(* the hypotheses of C10_class_end_is_max on the sample document *)
Example ex_class_end_hyps :
  match fold_out (add_segment ex_rt ex_settings cfg_normal (doc_vram_classes ex_doc)) (doc_segments ex_doc) ws0 with
  | Ok (body, _) =>
      end_clean "overlay_VRAM_CLASS_END" body = true /\
      forallb (fun seg => defined_once (segment_vram_end Splat (sg_name seg)) body)
              (members ex_rt "overlay" (doc_segments ex_doc)) = true /\
      List.length (members ex_rt "overlay" (doc_segments ex_doc)) = 1%nat
  | Err _ => False
  end.
Proof. vm_compute. repeat split; reflexivity. Qed.

(* a full link: the class starts at its fixed_vram, its member starts there, its end is the member's
   VRAM end and its size their difference *)
Example ex_link_class :
  let st := layout ex_script ex_universe [("main", 5)] in
  l_errors st = [] /\
  val st "overlay_VRAM_CLASS_START" = Some 2148532224 /\ val st "ovl_a_VRAM" = Some 2148532224 /\
  val st "ovl_a_VRAM_END" = Some 2148532256 /\ val st "overlay_VRAM_CLASS_END" = Some 2148532256 /\
  val st "overlay_VRAM_CLASS_SIZE" = Some 32.
Proof. vm_compute. repeat split; reflexivity. Qed.

(* a document naming an undeclared class is rejected *)
Example ex_missing_class :
  add_segment ex_rt ex_settings cfg_normal [] (ex_segment "ovl_a" [ex_obj "a.o"] (Some "overlay") None no_conds) ws0
  = Err (EMissingVramClassForSegment "ovl_a" "overlay").
Proof. reflexivity. Qed.

Print Assumptions C10_segment_class.
Print Assumptions C10_emitted_iff.
Print Assumptions C10_emitted_monotone.
Print Assumptions C10_once_before.
Print Assumptions C10_never_again.
Print Assumptions C10_unused_class.
Print Assumptions C10_sizes.
Print Assumptions C10_missing_class.
Print Assumptions C10_start_not_end.
Print Assumptions C10_start_value.
Print Assumptions C10_end_running_max.
Print Assumptions C10_end_is_max.
Print Assumptions C10_class_end_is_max.
Print Assumptions C10_class_end_injective.
Print Assumptions C10_member_shape.
Print Assumptions C10_member_class_end.
Print Assumptions C10_member_addr.
Print Assumptions C10_member_starts_at_class.
Print Assumptions C10_size.
