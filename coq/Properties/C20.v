(* C20 - The CLI and file exports write exactly the library's in-memory outputs.
   Only statements, each closed by [exact]; see Spec/C20.v and Proofs/C20.v. *)
From Slinky Require Import Model.Types Model.Parse Model.Runtime Model.Script Model.Writer Model.Exports
  Spec.C20 Proofs.C20.
Local Open Scope string_scope.

(* ---------- -c pairs become the custom options, the last value per key winning ---------- *)

Theorem C20_last_wins : forall k v l1 l2 b,
  ~ In k (map fst l2) -> opt_get (Runtime (l1 ++ (k, v) :: l2)%list b) k = Some v.
Proof. exact opt_get_last_wins. Qed.

Theorem C20_last_wins_iff : forall pairs b k v,
  opt_get (Runtime pairs b) k = Some v <->
  exists l1 l2, pairs = (l1 ++ (k, v) :: l2)%list /\ ~ In k (map fst l2).
Proof. exact opt_get_some. Qed.

Theorem C20_option_absent : forall pairs b k,
  opt_get (Runtime pairs b) k = None <-> ~ In k (map fst pairs).
Proof. exact opt_get_none. Qed.

(* the comma split of the specification is the model's, and is unique *)
Theorem C20_comma_split : forall raw pieces, CommaSplit raw pieces <-> pieces = split_on "," raw.
Proof. exact comma_split_iff. Qed.

(* every raw value is cut at each ",", every piece at its FIRST "=" *)
Theorem C20_key_vals : forall raw l,
  parse_key_vals raw = Some l <-> exists pieces, AllPieces raw pieces /\ Forall2 KeyVal pieces l.
Proof. exact parse_key_vals_some. Qed.

(* ... and the option is rejected iff some piece has no "=" *)
Theorem C20_key_vals_fail : forall raw,
  parse_key_vals raw = None <->
  exists pieces p, AllPieces raw pieces /\ In p pieces /\ contains_char "=" p = false.
Proof. exact parse_key_vals_none. Qed.

(* ---------- the writes of a successful run are the library's outputs ---------- *)

Theorem C20_success : forall sd a out ws,
  cli_run sd a = CliResult true out ws <-> CliSuccess sd a out ws.
Proof. exact cli_run_success. Qed.

Theorem C20_files_normal : forall sd a out ws,
  cli_partial a = false -> cli_run sd a = CliResult true out ws ->
  exists opts d w,
    parse_key_vals (cli_options a) = Some opts /\ parse sd = Ok d /\
    let rt := Runtime opts (negb (cli_omit_version_comment a)) in
    gen_normal d rt = Ok w /\
    exists others, NormalFiles rt (doc_settings d) w others /\
      match cli_output a with
      | Some o => exists path, escape_path rt o = Ok path /\ out = "" /\
                               ws = (path, script_text w) :: others
      | None => out = script_text w ++ nl /\ ws = others
      end.
Proof. exact files_normal. Qed.

Theorem C20_files_partial : forall sd a out ws,
  cli_partial a = true -> cli_run sd a = CliResult true out ws ->
  exists opts d p,
    parse_key_vals (cli_options a) = Some opts /\ parse sd = Ok d /\
    let rt := Runtime opts (negb (cli_omit_version_comment a)) in
    gen_partial d rt = Ok p /\
    exists others, PartialFiles rt (doc_settings d) p others /\
      match cli_output a with
      | Some o => exists path scripts, escape_path rt o = Ok path /\
                    PartialScripts rt (doc_settings d) p path scripts /\
                    out = "" /\ ws = (scripts ++ others)%list
      | None => out = partial_script_text p ++ nl /\ ws = others
      end.
Proof. exact files_partial. Qed.

(* the file exports of the library are the same relations *)
Theorem C20_save_other_files_normal : forall rt st w ws,
  save_other_files_normal rt st w = Ok ws <-> NormalFiles rt st w ws.
Proof. exact save_normal_iff. Qed.

Theorem C20_save_other_files_partial : forall rt st p ws,
  save_other_files_partial rt st p = Ok ws <-> PartialFiles rt st p ws.
Proof. exact save_partial_iff. Qed.

Theorem C20_export_script_partial : forall rt st p path ws,
  export_script_partial rt st p path = Ok ws <-> PartialScripts rt st p path ws.
Proof. exact export_partial_iff. Qed.

(* for a parsed document the dependency file is written iff d_path is set, the header iff
   symbols_header_path is set *)
Theorem C20_dependency_file_iff : forall sd d rt w ws,
  parse sd = Ok d -> NormalFiles rt (doc_settings d) w ws ->
  exists dw hw, ws = (dw ++ hw)%list /\
    match d_path (doc_settings d) with
    | None => dw = []
    | Some dp =>
        exists dp' t t', escape_path rt dp = Ok dp' /\ target_path (doc_settings d) = Some t /\
                         escape_path rt t = Ok t' /\ dw = [(dp', deps_text rt w t')]
    end /\
    match symbols_header_path (doc_settings d) with
    | None => hw = []
    | Some h => exists h', escape_path rt h = Ok h' /\ hw = [(h', header_text rt (doc_settings d) w)]
    end.
Proof. exact normal_files_parsed. Qed.

(* ---------- a write fully replaces the previous content ---------- *)

Theorem C20_replace : forall f p c, lookup p (fs_write f p c) = Some c.
Proof. exact fs_write_same. Qed.

Theorem C20_replace_other : forall f p c q, q <> p -> lookup q (fs_write f p c) = lookup q f.
Proof. exact fs_write_other. Qed.

Theorem C20_writes_lookup : forall ws f p,
  lookup p (apply_writes f ws) = match lookup_last p ws with Some c => Some c | None => lookup p f end.
Proof. exact apply_writes_lookup. Qed.

Theorem C20_writes_last : forall f ws1 p c ws2,
  ~ In p (map fst ws2) -> lookup p (apply_writes f (ws1 ++ (p, c) :: ws2)%list) = Some c.
Proof. exact apply_writes_last. Qed.

Theorem C20_writes_untouched : forall f ws p,
  ~ In p (map fst ws) -> lookup p (apply_writes f ws) = lookup p f.
Proof. exact apply_writes_untouched. Qed.

(* ---------- any error yields a failing status ---------- *)

Theorem C20_status : forall sd a,
  cli_status (cli_run sd a) = true <-> exists out ws, CliSuccess sd a out ws.
Proof. exact cli_status_true. Qed.

Theorem C20_status_bad_option : forall sd a,
  parse_key_vals (cli_options a) = None -> cli_status (cli_run sd a) = false.
Proof. exact status_bad_option. Qed.

Theorem C20_status_parse_error : forall sd a e,
  parse sd = Err e -> cli_status (cli_run sd a) = false.
Proof. exact status_parse_error. Qed.

Theorem C20_status_invalid_key : forall sd a opts d,
  parse_key_vals (cli_options a) = Some opts -> parse sd = Ok d ->
  forall kv, In kv opts -> key_valid (fst kv) = false -> cli_status (cli_run sd a) = false.
Proof. exact status_invalid_key. Qed.

Theorem C20_status_gen_normal_error : forall sd a opts d,
  parse_key_vals (cli_options a) = Some opts -> parse sd = Ok d ->
  forall e, cli_partial a = false ->
  gen_normal d (Runtime opts (negb (cli_omit_version_comment a))) = Err e ->
  cli_status (cli_run sd a) = false.
Proof. exact status_gen_normal_error. Qed.

Theorem C20_status_gen_partial_error : forall sd a opts d,
  parse_key_vals (cli_options a) = Some opts -> parse sd = Ok d ->
  forall e, cli_partial a = true ->
  gen_partial d (Runtime opts (negb (cli_omit_version_comment a))) = Err e ->
  cli_status (cli_run sd a) = false.
Proof. exact status_gen_partial_error. Qed.

Theorem C20_status_output_path_error : forall sd a opts d,
  parse_key_vals (cli_options a) = Some opts -> parse sd = Ok d ->
  forall o e, cli_output a = Some o ->
  escape_path (Runtime opts (negb (cli_omit_version_comment a))) o = Err e ->
  cli_status (cli_run sd a) = false.
Proof. exact status_output_path_error. Qed.

Theorem C20_status_other_files_normal_error : forall sd a opts d,
  parse_key_vals (cli_options a) = Some opts -> parse sd = Ok d ->
  forall w e, cli_partial a = false ->
  gen_normal d (Runtime opts (negb (cli_omit_version_comment a))) = Ok w ->
  save_other_files_normal (Runtime opts (negb (cli_omit_version_comment a))) (doc_settings d) w = Err e ->
  cli_status (cli_run sd a) = false.
Proof. exact status_other_files_normal_error. Qed.

Theorem C20_status_other_files_partial_error : forall sd a opts d,
  parse_key_vals (cli_options a) = Some opts -> parse sd = Ok d ->
  forall p e, cli_partial a = true ->
  gen_partial d (Runtime opts (negb (cli_omit_version_comment a))) = Ok p ->
  save_other_files_partial (Runtime opts (negb (cli_omit_version_comment a))) (doc_settings d) p = Err e ->
  cli_status (cli_run sd a) = false.
Proof. exact status_other_files_partial_error. Qed.

Theorem C20_status_export_partial_error : forall sd a opts d,
  parse_key_vals (cli_options a) = Some opts -> parse sd = Ok d ->
  forall p o path e, cli_partial a = true ->
  gen_partial d (Runtime opts (negb (cli_omit_version_comment a))) = Ok p ->
  cli_output a = Some o ->
  escape_path (Runtime opts (negb (cli_omit_version_comment a))) o = Ok path ->
  export_script_partial (Runtime opts (negb (cli_omit_version_comment a))) (doc_settings d) p path = Err e ->
  cli_status (cli_run sd a) = false.
Proof. exact status_export_partial_error. Qed.

(* ---------- --omit-version-comment removes only the version comment ---------- *)

(* generation depends on the run-time settings only through the custom options and, for the
   leading version comment, the flag *)
Theorem C20_flag_only_comment : forall rt1 rt2, rt_options rt1 = rt_options rt2 -> forall d,
  match gen_normal d rt1, gen_normal d rt2 with
  | Ok w1, Ok w2 =>
      exists body, wo_script w1 = (version_stmts rt1 ++ body)%list /\
                   wo_script w2 = (version_stmts rt2 ++ body)%list /\
                   wo_paths w1 = wo_paths w2
  | Err e1, Err e2 => e1 = e2
  | _, _ => False
  end.
Proof. exact so_gen_normal. Qed.

Theorem C20_omit_only_comment : forall d o,
  match gen_normal d (Runtime o true), gen_normal d (Runtime o false) with
  | Ok w1, Ok w0 => wo_script w1 = (version_head ++ wo_script w0)%list /\ wo_paths w1 = wo_paths w0
  | Err e1, Err e0 => e1 = e0
  | _, _ => False
  end.
Proof. exact gen_normal_omit. Qed.

Theorem C20_omit_only_comment_partial : forall d o,
  match gen_partial d (Runtime o true), gen_partial d (Runtime o false) with
  | Ok p1, Ok p0 =>
      wo_script (po_main p1) = (version_head ++ wo_script (po_main p0))%list /\
      wo_paths (po_main p1) = wo_paths (po_main p0) /\
      Forall2 (fun a b => fst a = fst b /\
                          wo_script (snd a) = (version_head ++ wo_script (snd b))%list /\
                          wo_paths (snd a) = wo_paths (snd b)) (po_subs p1) (po_subs p0)
  | Err e1, Err e0 => e1 = e0
  | _, _ => False
  end.
Proof. exact gen_partial_omit. Qed.

Theorem C20_omit_same_symbols : forall w1 w0,
  wo_script w1 = (version_head ++ wo_script w0)%list -> linker_symbols w1 = linker_symbols w0.
Proof. exact version_head_symbols. Qed.

Theorem C20_omit_script_text : forall w1 w0,
  wo_script w1 = (version_head ++ wo_script w0)%list ->
  script_text w1 = "/* " ++ version_comment_text ++ " */" ++ nl ++ nl ++ script_text w0.
Proof. exact version_head_text. Qed.

Theorem C20_omit_deps_text : forall o w1 w0 t,
  wo_paths w1 = wo_paths w0 ->
  deps_text (Runtime o true) w1 t = "# " ++ version_comment_text ++ nl ++ nl ++ deps_text (Runtime o false) w0 t.
Proof. exact deps_text_omit. Qed.

Theorem C20_omit_header_text : forall o st w1 w0,
  linker_symbols w1 = linker_symbols w0 ->
  header_text (Runtime o true) st w1 =
  "/* " ++ version_comment_text ++ " */" ++ nl ++ nl ++ header_text (Runtime o false) st w0.
Proof. exact header_text_omit. Qed.

(* ---------- examples ---------- *)

Example C20_ex_pairs :
  parse_key_vals ["v=us,w=1"; "v=eu"] = Some [("v", "us"); ("w", "1"); ("v", "eu")].
Proof. vm_compute. reflexivity. Qed.
Example C20_ex_last : opt_get (Runtime [("v", "us"); ("w", "1"); ("v", "eu")] true) "v" = Some "eu".
Proof. vm_compute. reflexivity. Qed.
Example C20_ex_last_hyp : ~ In "v" (map fst [("w", "1")]).
Proof. intros [H|[]]. discriminate H. Qed.
Example C20_ex_first_eq : parse_key_vals ["a=b=c"] = Some [("a", "b=c")].
Proof. vm_compute. reflexivity. Qed.
Example C20_ex_empty_value : parse_key_vals ["a=,b=x"] = Some [("a", ""); ("b", "x")].
Proof. vm_compute. reflexivity. Qed.
Example C20_ex_no_eq : parse_key_vals ["a=1,b"] = None.
Proof. vm_compute. reflexivity. Qed.
Example C20_ex_empty_raw : parse_key_vals [""] = None.
Proof. vm_compute. reflexivity. Qed.
Example C20_ex_key_invalid : key_valid "" = false /\ key_valid "123" = false /\ key_valid "1a" = true.
Proof. vm_compute. repeat split. Qed.

Example C20_ex_fs :
  let f := apply_writes [("a", "old"); ("z", "keep")] [("a", "1"); ("b", "2"); ("a", "3")] in
  lookup "a" f = Some "3" /\ lookup "b" f = Some "2" /\ lookup "z" f = Some "keep" /\ lookup "y" f = None.
Proof. vm_compute. repeat split. Qed.

(* a whole run: -o given, two -c values with a repeated key *)
Example C20_ex_run_normal :
  let r := cli_run ex_doc (ex_args (Some "out/{v}.ld") false ["v=us,w=1"; "v=eu"] false) in
  cli_status r = true /\ cli_stdout r = "" /\
  map fst (cli_writes r) = ["out/eu.ld"; "out/eu/x.d"; "include/syms.h"].
Proof. vm_compute. repeat split. Qed.

Example C20_ex_run_partial :
  let r := cli_run ex_doc (ex_args (Some "out/{v}.ld") true ["v=us,w=1"; "v=eu"] false) in
  cli_status r = true /\
  map fst (cli_writes r) = ["out/eu.ld"; "ld/eu/main.ld"; "out/eu/x.d"; "include/syms.h"; "ld/eu/main.d"].
Proof. vm_compute. repeat split. Qed.

Example C20_ex_run_stdout :
  let r := cli_run ex_doc (ex_args None false ["v=eu,w=1"] true) in
  cli_status r = true /\ map fst (cli_writes r) = ["out/eu/x.d"; "include/syms.h"] /\
  Some (cli_stdout r) =
  option_map (fun w => script_text w ++ nl) (gen_normal_of ex_doc [("v", "eu"); ("w", "1")] false).
Proof. vm_compute. repeat split. Qed.

(* a key used by the document but not given on the command line: failing status *)
Example C20_ex_run_missing_key :
  cli_status (cli_run ex_doc (ex_args (Some "out/{v}.ld") false ["v=us"] false)) = false.
Proof. vm_compute. reflexivity. Qed.

Print Assumptions C20_last_wins.
Print Assumptions C20_last_wins_iff.
Print Assumptions C20_option_absent.
Print Assumptions C20_comma_split.
Print Assumptions C20_key_vals.
Print Assumptions C20_key_vals_fail.
Print Assumptions C20_success.
Print Assumptions C20_files_normal.
Print Assumptions C20_files_partial.
Print Assumptions C20_save_other_files_normal.
Print Assumptions C20_save_other_files_partial.
Print Assumptions C20_export_script_partial.
Print Assumptions C20_dependency_file_iff.
Print Assumptions C20_replace.
Print Assumptions C20_replace_other.
Print Assumptions C20_writes_lookup.
Print Assumptions C20_writes_last.
Print Assumptions C20_writes_untouched.
Print Assumptions C20_status.
Print Assumptions C20_status_bad_option.
Print Assumptions C20_status_parse_error.
Print Assumptions C20_status_invalid_key.
Print Assumptions C20_status_gen_normal_error.
Print Assumptions C20_status_gen_partial_error.
Print Assumptions C20_status_output_path_error.
Print Assumptions C20_status_other_files_normal_error.
Print Assumptions C20_status_other_files_partial_error.
Print Assumptions C20_status_export_partial_error.
Print Assumptions C20_flag_only_comment.
Print Assumptions C20_omit_only_comment.
Print Assumptions C20_omit_only_comment_partial.
Print Assumptions C20_omit_same_symbols.
Print Assumptions C20_omit_script_text.
Print Assumptions C20_omit_deps_text.
Print Assumptions C20_omit_header_text.
