(* C11DocPartial - the document-level link theorems of C03, C04, C05 and C10 (Properties/DocLevel.v) for
   the MAIN script of a partial build, and the main script against the ordinary script of the same
   document (C11).  Only statements, each closed by [exact]; see Proofs/DocPartial.v.

   Hypotheses of the link theorems: the partial generator succeeds ([gen_partial d rt = Ok p]) and the
   document meets the boolean condition [doc_link_wf_partial d rt] (Spec/DocPartial.v), which is
   [doc_link_wf] computed on the statements of the main script.  It follows from [doc_link_wf d rt]
   (C11_partial_wf_of_ordinary), hence from the document-side condition [doc_names_distinct d rt]
   (C11_partial_wf_of_names_distinct).  Conclusions are the SAME predicates as in Properties/DocLevel.v,
   over the segments [included rt (doc_segments d)] of the document (not over their clones), about
   [exec_script env senv ext final (wo_script (po_main p)) (init_state u)] for every object universe
   [u] without negative sizes - the objects the main script names are the partial objects
   <base>/<partial_build_segments_folder>/<segment>.o (C11_main_only_partial_objects). *)
From Slinky Require Import Model.Types Model.Runtime Model.Style Model.Script Model.Writer Model.LdSem.
From Slinky Require Import Spec.C17 Spec.C04 Spec.C03 Spec.C05 Spec.C10 Spec.C11 Spec.DocLevel Spec.DocWf
                           Spec.DocPartial.
From Slinky Require Import Proofs.DocPartial.
From Coq Require Import ZArith.
Local Open Scope string_scope.
Local Open Scope Z_scope.

(* ====================================================================== *)
(* 1. the main script is the multi-segment script of the clones            *)
(* ====================================================================== *)

(* the main script is "version; SECTIONS { begin; body; end }; tail" where [body] is what the fold of
   add_segment under cfg_main_partial gives for the clones of the segments (partial_clone: same
   segment, one file, the partial object), from the empty writer state: the function of
   add_all_segments in multi-segment mode, for the document [partial_doc d folder], under the
   configuration of the main partial writer *)
Theorem C11_main_is_fold_over_clones : forall d rt p,
  gen_partial d rt = Ok p ->
  exists folder body ws' subs,
    partial_build_segments_folder (doc_settings d) = Some folder /\
    partial_segments d rt folder (doc_segments d) (ws0, []) = Ok (body, (ws', subs)) /\
    fold_out (add_segment rt (doc_settings d) cfg_main_partial (doc_vram_classes d))
             (map (partial_clone folder) (doc_segments d)) ws0 = Ok (body, ws') /\
    wo_script (po_main p) =
      (version_stmts rt ++
       [SSections (begin_sections_body (doc_settings d) ++ body ++
                   end_sections_body (doc_settings d) (doc_vram_classes d) ws')] ++
       tail_stmts rt d)%list.
Proof. exact partial_main_shape. Qed.

(* the well-formedness condition reads of the segments only what a clone keeps *)
Theorem C11_link_wf_stmts_clone : forall rt stg classes folder segs tl body ws',
  link_wf_stmts rt stg classes (map (partial_clone folder) segs) tl body ws' =
  link_wf_stmts rt stg classes segs tl body ws'.
Proof. exact link_wf_stmts_clone. Qed.

(* a well-formed document: the statements LdSem executes for the main script, and the condition on them *)
Theorem C11_partial_wf_facts : forall d rt p,
  gen_partial d rt = Ok p -> doc_link_wf_partial d rt = true ->
  let stg := doc_settings d in
  let classes := doc_vram_classes d in
  exists folder body ws',
    partial_build_segments_folder stg = Some folder /\
    fold_out (add_segment rt stg cfg_main_partial classes)
             (map (partial_clone folder) (doc_segments d)) ws0 = Ok (body, ws') /\
    link_wf_stmts rt stg classes (map (partial_clone folder) (doc_segments d)) (tail_stmts rt d) body ws' = true /\
    link_wf_stmts rt stg classes (doc_segments d) (tail_stmts rt d) body ws' = true /\
    wo_script (po_main p) =
      (version_stmts rt ++
       [SSections (begin_sections_body stg ++ body ++ end_sections_body stg classes ws')] ++
       tail_stmts rt d)%list /\
    forall env senv ext final st,
      exec_script env senv ext final (wo_script (po_main p)) st =
      run env senv ext final
          (begin_sections_body stg ++ body ++ end_sections_body stg classes ws' ++ tail_stmts rt d) st.
Proof. exact partial_exec. Qed.

(* ====================================================================== *)
(* 2. the link theorems for statements of ANY writer configuration         *)
(* ====================================================================== *)

(* what the partial theorems (and those of Properties/DocLevel.v) are instances of: [body] is the fold
   of add_segment under ANY configuration [cfg] over ANY list of segments, [tl] any statements after
   SECTIONS, and the statements meet link_wf_stmts *)
Theorem DocLevel_any_cfg_chains : forall rt stg cfg classes segs tl body ws' env senv ext final,
  fold_out (add_segment rt stg cfg classes) segs ws0 = Ok (body, ws') ->
  link_wf_stmts rt stg classes segs tl body ws' = true ->
  forall u,
  Forall (fun x => 0 <= u_size x) u ->
  let sty := linker_symbols_style stg in
  let st' := run env senv ext final
                 (begin_sections_body stg ++ body ++ end_sections_body stg classes ws' ++ tl) (init_state u) in
  (forall seg, In seg (included rt segs) -> ~ In (LForwardRef (alloc_name seg)) (l_errors st')) ->
  RomChain sty st' 0 (included rt segs) /\
  VramChain sty senv st' 0 (included rt segs) /\
  exists secs rest, l_secs st' = (secs ++ rest)%list /\ map os_name secs = out_names (included rt segs).
Proof. exact any_chains. Qed.

Theorem DocLevel_any_cfg_classes : forall rt stg cfg classes segs tl body ws' env senv ext final,
  fold_out (add_segment rt stg cfg classes) segs ws0 = Ok (body, ws') ->
  link_wf_stmts rt stg classes segs tl body ws' = true ->
  forall st cn,
  In cn (used_classes rt segs) ->
  let sty := linker_symbols_style stg in
  let st' := run env senv ext final
                 (begin_sections_body stg ++ body ++ end_sections_body stg classes ws' ++ tl) st in
  exists vs,
    Forall2 (fun seg v => val st' (segment_vram_end sty (sg_name seg)) = Some v) (members rt cn segs) vs /\
    val st' (vram_class_end sty cn) = Some (fold_left Z.max vs 0) /\
    (forall s, sym_lookup (vram_class_start sty cn) st' env ext = Some s ->
               val st' (vram_class_size sty cn) = Some (fold_left Z.max vs 0 - s)).
Proof. exact any_classes. Qed.

(* the section groups need the section symbols: section_syms cfg = true *)
Theorem DocLevel_any_cfg_groups : forall rt stg cfg classes segs tl body ws' env senv ext final,
  fold_out (add_segment rt stg cfg classes) segs ws0 = Ok (body, ws') ->
  link_wf_stmts rt stg classes segs tl body ws' = true ->
  section_syms cfg = true ->
  forall u seg,
  Forall (fun x => 0 <= u_size x) u ->
  In seg (included rt segs) ->
  let sty := linker_symbols_style stg in
  let st' := run env senv ext final
                 (begin_sections_body stg ++ body ++ end_sections_body stg classes ws' ++ tl) (init_state u) in
  ~ In (LForwardRef (alloc_name seg)) (l_errors st') ->
  SegmentGroups sty st' seg.
Proof. exact any_groups. Qed.

(* ====================================================================== *)
(* 3. C04 over the main script                                             *)
(* ====================================================================== *)

(* as C04_document_rom_chain: in the state at the end of a pass over the main script, the ROM
   positions of the included segments are chained from 0 in document order, each section .s_k is
   loadable at ROM_START(s_k), __romPos ends at the last ROM_END, the sections .s_k.noload are NOLOAD
   without contents.  Error condition: no LForwardRef for the allocatable section of an included segment. *)
Theorem C04_partial_document_rom_chain : forall env senv ext final d rt p u,
  gen_partial d rt = Ok p -> doc_link_wf_partial d rt = true ->
  Forall (fun x => 0 <= u_size x) u ->
  let sty := linker_symbols_style (doc_settings d) in
  let segs := included rt (doc_segments d) in
  let st' := exec_script env senv ext final (wo_script (po_main p)) (init_state u) in
  (forall seg, In seg segs -> ~ In (LForwardRef (alloc_name seg)) (l_errors st')) ->
  RomChain sty st' 0 segs /\ NoloadSections st' segs.
Proof. exact partial_rom_chain. Qed.

Theorem C04_partial_document_rom_chain_layout : forall d rt p u ext0,
  gen_partial d rt = Ok p -> doc_link_wf_partial d rt = true ->
  Forall (fun x => 0 <= u_size x) u ->
  let sty := linker_symbols_style (doc_settings d) in
  let segs := included rt (doc_segments d) in
  let st' := layout (wo_script (po_main p)) u ext0 in
  (forall seg, In seg segs -> ~ In (LForwardRef (alloc_name seg)) (l_errors st')) ->
  RomChain sty st' 0 segs /\ NoloadSections st' segs.
Proof. exact partial_rom_chain_layout. Qed.

(* ====================================================================== *)
(* 4. C03 over the main script                                             *)
(* ====================================================================== *)

(* as C03_document_vram (VramChain started at "." = 0, two output sections per included segment at the
   head of l_secs, in order) *)
Theorem C03_partial_document_vram : forall env senv ext final d rt p u,
  gen_partial d rt = Ok p -> doc_link_wf_partial d rt = true ->
  Forall (fun x => 0 <= u_size x) u ->
  let sty := linker_symbols_style (doc_settings d) in
  let segs := included rt (doc_segments d) in
  let st' := exec_script env senv ext final (wo_script (po_main p)) (init_state u) in
  (forall seg, In seg segs -> ~ In (LForwardRef (alloc_name seg)) (l_errors st')) ->
  VramChain sty senv st' 0 segs /\
  exists secs rest, l_secs st' = (secs ++ rest)%list /\ map os_name secs = out_names segs.
Proof. exact partial_vram. Qed.

Theorem C03_partial_document_vram_layout : forall d rt p u ext0,
  gen_partial d rt = Ok p -> doc_link_wf_partial d rt = true ->
  Forall (fun x => 0 <= u_size x) u ->
  let sty := linker_symbols_style (doc_settings d) in
  let segs := included rt (doc_segments d) in
  let s := wo_script (po_main p) in
  let p1 := exec_script [] [] ext0 false s (init_state u) in
  let p2 := exec_script (l_syms p1) (l_secs p1) (ext0 ++ markers_of p1)%list false s (init_state u) in
  let st' := layout s u ext0 in
  (forall seg, In seg segs -> ~ In (LForwardRef (alloc_name seg)) (l_errors st')) ->
  VramChain sty (l_secs p2) st' 0 segs /\
  exists secs rest, l_secs st' = (secs ++ rest)%list /\ map os_name secs = out_names segs.
Proof. exact partial_vram_layout. Qed.

(* ====================================================================== *)
(* 5. C05 over the main script                                             *)
(* ====================================================================== *)

(* as C05_document_groups: the section groups of each included segment lie, in list order, inside the
   output sections .s and .s.noload; what a group brackets is now what the partial object contributes
   to that section *)
Theorem C05_partial_document_groups : forall env senv ext final d rt p u seg,
  gen_partial d rt = Ok p -> doc_link_wf_partial d rt = true ->
  Forall (fun x => 0 <= u_size x) u ->
  In seg (included rt (doc_segments d)) ->
  let sty := linker_symbols_style (doc_settings d) in
  let st' := exec_script env senv ext final (wo_script (po_main p)) (init_state u) in
  ~ In (LForwardRef (alloc_name seg)) (l_errors st') ->
  SegmentGroups sty st' seg.
Proof. exact partial_groups. Qed.

Theorem C05_partial_document_groups_layout : forall d rt p u ext0 seg,
  gen_partial d rt = Ok p -> doc_link_wf_partial d rt = true ->
  Forall (fun x => 0 <= u_size x) u ->
  In seg (included rt (doc_segments d)) ->
  let sty := linker_symbols_style (doc_settings d) in
  let st' := layout (wo_script (po_main p)) u ext0 in
  ~ In (LForwardRef (alloc_name seg)) (l_errors st') ->
  SegmentGroups sty st' seg.
Proof. exact partial_groups_layout. Qed.

(* ====================================================================== *)
(* 6. C10 over the main script                                             *)
(* ====================================================================== *)

(* as C10_document_classes: from ANY starting state, with no condition on errors *)
Theorem C10_partial_document_classes : forall env senv ext final d rt p st cn,
  gen_partial d rt = Ok p -> doc_link_wf_partial d rt = true ->
  In cn (used_classes rt (doc_segments d)) ->
  let sty := linker_symbols_style (doc_settings d) in
  let st' := exec_script env senv ext final (wo_script (po_main p)) st in
  ClassSummary sty env ext st' rt (doc_segments d) cn.
Proof. exact partial_classes. Qed.

Theorem C10_partial_document_classes_layout : forall d rt p u ext0 cn,
  gen_partial d rt = Ok p -> doc_link_wf_partial d rt = true ->
  In cn (used_classes rt (doc_segments d)) ->
  let sty := linker_symbols_style (doc_settings d) in
  let s := wo_script (po_main p) in
  let p1 := exec_script [] [] ext0 false s (init_state u) in
  let p2 := exec_script (l_syms p1) (l_secs p1) (ext0 ++ markers_of p1)%list false s (init_state u) in
  ClassSummary sty (l_syms p2) (ext0 ++ markers_of p2)%list (layout s u ext0) rt (doc_segments d) cn.
Proof. exact partial_classes_layout. Qed.

(* ====================================================================== *)
(* 7. C11: the main script against the ordinary script                     *)
(* ====================================================================== *)

(* Both scripts are "version; SECTIONS { B }; tail" with the same version comment and the same tail
   (entry, symbol assignments, required symbols, asserts).  The bodies B (ordinary) and Bm (main) are
   related statement by statement (stmts_rel, Spec/DocPartial.v): same length; at each position either
   the same statement, or two output sections with the same name, address request, AT symbol, NOLOAD
   flag and SUBALIGN whose bodies have the same updating statements (ALIGN / MAX / +=) and the same
   number of definitions of every symbol, except for the symbols of [doc_offsets d rt] - the linker
   offsets of the included segments, as emit_section_for_file visits them - which only the ordinary
   script (and the per-segment scripts) define.  Multi-segment mode is needed: gen_partial ignores
   single_segment_mode, gen_normal does not. *)
Theorem C11_main_statement_by_statement : forall d rt w p,
  gen_normal d rt = Ok w -> gen_partial d rt = Ok p -> single_segment_mode (doc_settings d) = false ->
  exists B Bm,
    wo_script w = (version_stmts rt ++ [SSections B] ++ tail_stmts rt d)%list /\
    wo_script (po_main p) = (version_stmts rt ++ [SSections Bm] ++ tail_stmts rt d)%list /\
    stmts_rel B Bm (doc_offsets d rt).
Proof. exact main_vs_ordinary. Qed.

(* the same on what LdSem executes (the SECTIONS body spliced in, DocLevel_exec_flat) *)
Theorem C11_main_statement_by_statement_flat : forall d rt w p,
  gen_normal d rt = Ok w -> gen_partial d rt = Ok p -> single_segment_mode (doc_settings d) = false ->
  stmts_rel (flat_stmts (wo_script w)) (flat_stmts (wo_script (po_main p))) (doc_offsets d rt).
Proof. exact main_vs_ordinary_flat. Qed.

(* what stmts_rel gives *)
Theorem C11_stmts_rel_facts : forall l lm offs,
  stmts_rel l lm offs ->
  List.length l = List.length lm /\ headers l = headers lm /\ body_rel l lm offs /\
  (forall x, (count_assigns x lm <= count_assigns x l)%nat) /\
  (forall x, (List.length (filter (assigns x) lm) <= List.length (filter (assigns x) l))%nat) /\
  (forall x, end_clean x l = true -> end_clean x lm = true).
Proof. exact stmts_rel_facts. Qed.

(* The symbols.  For every symbol x: the ordinary script defines x ("x = value", at any depth) as many
   times as the main script does, plus the number of occurrences of x among the linker offsets; the
   statements that update a symbol are the same list; so every assignment count differs by the linker
   offsets only; with DocWf_symbols_count, the definitions of the main script and the linker offsets
   together are [doc_symbols d rt]; the output-section headers (name, address, AT symbol, NOLOAD) are
   the same list. *)
Theorem C11_main_same_symbols : forall d rt w p,
  gen_normal d rt = Ok w -> gen_partial d rt = Ok p -> single_segment_mode (doc_settings d) = false ->
  let offs := doc_offsets d rt in
  (forall x, defs x (wo_script w) = defs x (wo_script (po_main p)) + count_occ string_dec offs x)%nat /\
  upds (wo_script (po_main p)) = upds (wo_script w) /\
  (forall x, count_assigns x (wo_script w) =
             count_assigns x (wo_script (po_main p)) + count_occ string_dec offs x)%nat /\
  (forall x, defs x (wo_script (po_main p)) + count_occ string_dec offs x =
             count_occ string_dec (doc_symbols d rt) x)%nat /\
  headers (flat_stmts (wo_script w)) = headers (flat_stmts (wo_script (po_main p))).
Proof. exact main_same_symbols. Qed.

(* a partial object defines no linker offset: the symbols the main script defines are the list
   doc_symbols (Spec/DocWf.v) of the document of the clones *)
Theorem C11_main_symbols_count : forall d rt w p folder,
  gen_normal d rt = Ok w -> gen_partial d rt = Ok p -> single_segment_mode (doc_settings d) = false ->
  partial_build_segments_folder (doc_settings d) = Some folder ->
  (forall x, defs x (wo_script (po_main p)) = count_occ string_dec (doc_symbols (partial_doc d folder) rt) x) /\
  incl (upds (wo_script (po_main p)))
       ("." :: "__romPos" :: class_symbols (linker_symbols_style (doc_settings d)) (used_classes rt (doc_segments d))).
Proof. exact main_symbols_count. Qed.

Theorem C11_symbols_of_clones : forall x d rt folder,
  (count_occ string_dec (doc_symbols d rt) x =
   count_occ string_dec (doc_symbols (partial_doc d folder) rt) x + count_occ string_dec (doc_offsets d rt) x)%nat.
Proof. exact symbols_of_clones. Qed.

(* ====================================================================== *)
(* 8. which documents meet doc_link_wf_partial                             *)
(* ====================================================================== *)

(* a document well-formed for the ordinary script is well-formed for the main script *)
Theorem C11_partial_wf_of_ordinary : forall d rt p,
  gen_partial d rt = Ok p -> doc_link_wf d rt = true -> doc_link_wf_partial d rt = true.
Proof. exact link_wf_partial_of_ordinary. Qed.

(* hence the document-side condition of Properties/C04DocWf.v is sufficient in partial mode too *)
Theorem C11_partial_wf_of_names_distinct : forall d rt w p,
  gen_normal d rt = Ok w -> gen_partial d rt = Ok p -> doc_names_distinct d rt = true ->
  doc_link_wf_partial d rt = true.
Proof. exact docwf_partial_sufficient. Qed.

(* ====================================================================== *)
(* examples                                                                *)
(* ====================================================================== *)

(* the sample document of Spec/DocLevel.v (three included segments, two of them in one class, one
   excluded) in partial mode meets the hypotheses of sections 3-6 *)
Example ex_doc_link_wf_partial :
  doc_link_wf_partial dl_doc ex_rt = true /\
  (exists p, gen_partial dl_doc ex_rt = Ok p) /\
  partial_build_segments_folder (doc_settings dl_doc) = Some "segments" /\
  map sg_name (included ex_rt (doc_segments dl_doc)) = ["boot"; "ovl_a"; "ovl_b"] /\
  used_classes ex_rt (doc_segments dl_doc) = ["overlay"; "overlay"] /\
  Forall (fun x => 0 <= u_size x) dl_universe_partial.
Proof.
  split; [vm_compute; reflexivity|]. split; [eexists; vm_compute; reflexivity|].
  split; [vm_compute; reflexivity|]. split; [vm_compute; reflexivity|]. split; [vm_compute; reflexivity|].
  repeat constructor; vm_compute; discriminate.
Qed.

(* the hypotheses of section 2 for the clones of that document, under the main partial configuration *)
Example ex_any_cfg :
  match fold_out (add_segment ex_rt (doc_settings dl_doc) cfg_main_partial (doc_vram_classes dl_doc))
                 (map (partial_clone "segments") (doc_segments dl_doc)) ws0 with
  | Ok (body, ws') =>
      link_wf_stmts ex_rt (doc_settings dl_doc) (doc_vram_classes dl_doc)
                    (map (partial_clone "segments") (doc_segments dl_doc)) (tail_stmts ex_rt dl_doc) body ws' = true
  | Err _ => False
  end /\ section_syms cfg_main_partial = true.
Proof. vm_compute. split; reflexivity. Qed.

(* a full link of the main script over the partial objects ends without error (so the error hypothesis
   holds) and gives the chained values - here the same addresses as the one-step link of
   ex_doc_link (Properties/DocLevel.v); the placements are those of the partial objects *)
Example ex_partial_doc_link :
  let st := layout dl_main_script dl_universe_partial [("main", 5)] in
  l_errors st = [] /\
  map (fun o => (os_name o, os_vma o, os_size o, os_lma o, os_noload o)) (firstn 6 (l_secs st)) =
  [(".boot", 0, 68, Some 0, false); (".boot.noload", 72, 100, None, true);
   (".ovl_a", 2148532224, 24, Some 80, false); (".ovl_a.noload", 2148532248, 8, None, true);
   (".ovl_b", 2148532224, 64, Some 112, false); (".ovl_b.noload", 2148532288, 4, None, true)] /\
  val st "boot_ROM_END" = Some 68 /\ val st "ovl_a_ROM_START" = Some 80 /\ val st "ovl_a_ROM_END" = Some 104 /\
  val st "ovl_b_ROM_START" = Some 112 /\ val st "ovl_b_ROM_END" = Some 176 /\ val st "__romPos" = Some 176 /\
  val st "boot_VRAM_END" = Some 172 /\ val st "ovl_a_VRAM_END" = Some 2148532256 /\
  val st "ovl_b_VRAM_END" = Some 2148532292 /\ val st "overlay_VRAM_CLASS_END" = Some 2148532292 /\
  val st "overlay_VRAM_CLASS_SIZE" = Some 68 /\
  val st "ovl_b_TEXT_START" = Some 2148532224 /\ val st "ovl_b_TEXT_END" = Some 2148532272 /\
  val st "ovl_b_DATA_START" = Some 2148532272 /\ val st "ovl_b_DATA_END" = Some 2148532288 /\
  val st "ovl_b_DATA_SIZE" = Some 16 /\
  val st "ovl_b_SDATA_START" = Some 2148532288 /\ val st "ovl_b_SDATA_END" = Some 2148532288 /\
  (* the linker offset of ovl_b is not a symbol of the main link *)
  val st "b_mid_OFFSET" = None /\
  map (fun p => (pl_marker p, pl_addr p, pl_outsec p)) (l_placed st) =
  [("boot_text", 0, ".boot"); ("boot_data", 40, ".boot"); ("boot_bss", 72, ".boot.noload");
   ("a_text", 2148532224, ".ovl_a"); ("a_bss", 2148532248, ".ovl_a.noload");
   ("b_text", 2148532224, ".ovl_b"); ("b_data", 2148532272, ".ovl_b"); ("b_bss", 2148532288, ".ovl_b.noload")].
Proof. vm_compute. repeat split; reflexivity. Qed.

(* the hypotheses of section 7 for the two sample documents, and what differs: one linker offset per
   entry visited *)
Example ex_main_same_symbols :
  is_ok (gen_normal dl_doc ex_rt) = true /\ is_ok (gen_partial dl_doc ex_rt) = true /\
  single_segment_mode (doc_settings dl_doc) = false /\
  doc_offsets dl_doc ex_rt = ["boot_mid_OFFSET"; "b_mid_OFFSET"] /\
  doc_offsets ex_doc ex_rt = ["boot_mid_OFFSET"] /\
  match gen_normal ex_doc ex_rt, gen_partial ex_doc ex_rt with
  | Ok w, Ok p =>
      defs "boot_mid_OFFSET" (wo_script w) = 1%nat /\ defs "boot_mid_OFFSET" (wo_script (po_main p)) = 0%nat /\
      defs "boot_TEXT_START" (wo_script w) = 1%nat /\ defs "boot_TEXT_START" (wo_script (po_main p)) = 1%nat /\
      List.length (flat_stmts (wo_script w)) = List.length (flat_stmts (wo_script (po_main p)))
  | _, _ => False
  end.
Proof. vm_compute. repeat split; reflexivity. Qed.

(* a linker offset that the ordinary script defines twice (through a sub-group) is defined by no
   statement of the main script; the document of the clones has no linker offset at all *)
Example ex_main_subgroup_offsets :
  doc_offsets subgroup_doc ex_rt = ["mid_OFFSET"; "mid_OFFSET"] /\
  doc_offsets (partial_doc subgroup_doc "segments") ex_rt = [] /\
  match gen_partial subgroup_doc ex_rt with
  | Ok p => defs "mid_OFFSET" (wo_script (po_main p)) = 0%nat
  | Err _ => False
  end.
Proof. vm_compute. repeat split; reflexivity. Qed.

(* the hypotheses of section 8: the sample document is well-formed for the ordinary script and meets
   the document-side condition *)
Example ex_partial_wf_of_ordinary :
  doc_link_wf dl_doc ex_rt = true /\ doc_names_distinct dl_doc ex_rt = true /\
  is_ok (gen_normal dl_doc ex_rt) = true /\ is_ok (gen_partial dl_doc ex_rt) = true.
Proof. vm_compute. repeat split; reflexivity. Qed.

(* the condition is not vacuous: two segments of the same name fail it in partial mode too *)
Example ex_twice_not_wf_partial :
  is_ok (gen_partial twice_doc ex_rt) = true /\ doc_link_wf_partial twice_doc ex_rt = false /\
  doc_link_wf_partial clash_doc ex_rt = false.
Proof. vm_compute. repeat split; reflexivity. Qed.

(* gen_partial does not read single_segment_mode: for the single-segment sample document with the
   folder set, the ordinary script has one output section per section (no ROM symbols) while the main
   script has the multi-segment form - the reason for the hypothesis of section 7 *)
Example ex_single_mode_differs :
  let st := ex_settings_single in
  let d := Document (Settings (base_path st) (linker_symbols_style st) (hardcoded_gp_value st) (d_path st)
                              (target_path st) (symbols_header_path st) (symbols_header_type st)
                              (symbols_header_as_array st) (sections_allowlist st) (sections_allowlist_extra st)
                              (sections_denylist st) (discard_wildcard_section st) true
                              (Some "ld/partial") (Some "segments")
                              (st_alloc_sections st) (st_noload_sections st) (st_subalign st)
                              (st_segment_start_align st) (st_segment_end_align st)
                              (st_section_start_align st) (st_section_end_align st)
                              (st_sections_start_alignment st) (st_sections_end_alignment st)
                              (st_wildcard_sections st) (st_fill_value st) (st_sections_subgroups st))
                    [] (doc_segments ex_doc_single) None [] [] [] in
  match gen_normal d ex_rt, gen_partial d ex_rt with
  | Ok w, Ok p =>
      defs "boot_ROM_START" (wo_script w) = 0%nat /\ defs "boot_ROM_START" (wo_script (po_main p)) = 1%nat
  | _, _ => False
  end.
Proof. vm_compute. split; reflexivity. Qed.

Print Assumptions C11_main_is_fold_over_clones.
Print Assumptions C11_link_wf_stmts_clone.
Print Assumptions C11_partial_wf_facts.
Print Assumptions DocLevel_any_cfg_chains.
Print Assumptions DocLevel_any_cfg_classes.
Print Assumptions DocLevel_any_cfg_groups.
Print Assumptions C04_partial_document_rom_chain.
Print Assumptions C04_partial_document_rom_chain_layout.
Print Assumptions C03_partial_document_vram.
Print Assumptions C03_partial_document_vram_layout.
Print Assumptions C05_partial_document_groups.
Print Assumptions C05_partial_document_groups_layout.
Print Assumptions C10_partial_document_classes.
Print Assumptions C10_partial_document_classes_layout.
Print Assumptions C11_main_statement_by_statement.
Print Assumptions C11_main_statement_by_statement_flat.
Print Assumptions C11_stmts_rel_facts.
Print Assumptions C11_main_same_symbols.
Print Assumptions C11_main_symbols_count.
Print Assumptions C11_symbols_of_clones.
Print Assumptions C11_partial_wf_of_ordinary.
Print Assumptions C11_partial_wf_of_names_distinct.
