(* C09Doc - C09 (every requested alignment holds in the image GNU ld produces) over a WHOLE generated
   document, multi-segment mode.  Only statements, each closed by [exact]; see Proofs/C09Doc.v.
   Hypotheses are those of Properties/DocLevel.v: the generator succeeds ([gen_normal d rt = Ok w]), the
   document meets [doc_link_wf d rt] (Spec/DocLevel.v; a document-side sufficient condition is in
   Properties/C04DocWf.v), the object universe has no negative size.  Conclusions are about
   [exec_script env senv ext final (wo_script w) (init_state u)] for EVERY previous-pass environment, object
   symbols and pass kind - hence about the last pass of [layout] (the [..._layout] corollaries).
   Error condition, as in DocLevel: no LForwardRef for the allocatable section (its address expression
   could be evaluated in this pass).
   [aligned_to a x] (Spec/C09Doc.v) reads "0 < align_z a -> (align_z a | x)": null / absent (align_z = 1)
   asks nothing; neither does the value 0, since ALIGN(0) leaves the location counter where it is. *)
From Slinky Require Import Model.Types Model.Runtime Model.Style Model.Script Model.Writer Model.LdSem.
From Slinky Require Import Spec.C18 Spec.C04 Spec.C03 Spec.C05 Spec.C09 Spec.C10 Spec.DocLevel Spec.C09Doc.
From Slinky Require Import Proofs.LdLemmas Proofs.C09Doc.
From Coq Require Import ZArith Lia.
Local Open Scope string_scope.
Local Open Scope Z_scope.

(* ====================================================================== *)
(* 1. the segment: ROM start, ROM end, VRAM end                            *)
(* ====================================================================== *)

(* for every included segment, in the state at the end of the pass (SegmentAligned): the section .seg is
   in l_secs, its load address is the value of X_ROM_START; that value is a multiple of
   segment_start_align; the values of X_ROM_END and X_VRAM_END are multiples of segment_end_align *)
Theorem C09_document_segments : forall env senv ext final d rt w u,
  gen_normal d rt = Ok w -> doc_link_wf d rt = true ->
  Forall (fun x => 0 <= u_size x) u ->
  let sty := linker_symbols_style (doc_settings d) in
  let segs := included rt (doc_segments d) in
  let st' := exec_script env senv ext final (wo_script w) (init_state u) in
  (forall seg, In seg segs -> ~ In (LForwardRef (alloc_name seg)) (l_errors st')) ->
  forall seg, In seg segs -> SegmentAligned sty st' seg.
Proof. exact document_segments. Qed.

Theorem C09_document_segments_layout : forall d rt w u ext0,
  gen_normal d rt = Ok w -> doc_link_wf d rt = true ->
  Forall (fun x => 0 <= u_size x) u ->
  let sty := linker_symbols_style (doc_settings d) in
  let segs := included rt (doc_segments d) in
  let st' := layout (wo_script w) u ext0 in
  (forall seg, In seg segs -> ~ In (LForwardRef (alloc_name seg)) (l_errors st')) ->
  forall seg, In seg segs -> SegmentAligned sty st' seg.
Proof. exact document_segments_layout. Qed.

(* the default-placed VRAM start: a segment without fixed_vram / fixed_symbol / follows_segment /
   vram_class starts (the address of .seg) at a multiple of segment_start_align, PROVIDED that value is
   compatible (one divides the other) with what ld itself aligns the output section to - the alignments
   of the input sections of the universe and SUBALIGN.  Error condition: for THIS segment only. *)
Theorem C09_document_default_vram : forall env senv ext final d rt w u seg,
  gen_normal d rt = Ok w -> doc_link_wf d rt = true ->
  Forall (fun x => 0 <= u_size x) u ->
  In seg (included rt (doc_segments d)) ->
  default_placed seg -> start_align_compatible seg u ->
  let st' := exec_script env senv ext final (wo_script w) (init_state u) in
  ~ In (LForwardRef (alloc_name seg)) (l_errors st') ->
  DefaultVramAligned st' seg.
Proof. exact document_default_vram. Qed.

Theorem C09_document_default_vram_layout : forall d rt w u ext0 seg,
  gen_normal d rt = Ok w -> doc_link_wf d rt = true ->
  Forall (fun x => 0 <= u_size x) u ->
  In seg (included rt (doc_segments d)) ->
  default_placed seg -> start_align_compatible seg u ->
  let st' := layout (wo_script w) u ext0 in
  ~ In (LForwardRef (alloc_name seg)) (l_errors st') ->
  DefaultVramAligned st' seg.
Proof. exact document_default_vram_layout. Qed.

(* the compatibility condition holds when everything is a power of two *)
Theorem C09_start_align_compatible_pow2 : forall seg u,
  pow2_opt (segment_start_align seg) -> pow2_opt (subalign seg) ->
  Forall (fun x => pow2 (u_align x)) u -> start_align_compatible seg u.
Proof. exact start_align_compatible_pow2. Qed.

(* ====================================================================== *)
(* 2. the section groups                                                   *)
(* ====================================================================== *)

(* for an included segment, in the state at the end of the pass (SegmentGroupsAligned / GroupAligned):
   with o the output section .seg (resp. .seg.noload) found in l_secs, every section sec of
   alloc_sections (resp. noload_sections) has its START and END symbols defined, START - os_vma o is a
   multiple of the sections_start_alignment entry of sec, END - os_vma o of its sections_end_alignment
   entry; START - os_vma o is a multiple of section_start_align when that value is compatible with the
   entry (always when there is no entry), likewise END - os_vma o and section_end_align *)
Theorem C09_document_groups : forall env senv ext final d rt w u seg,
  gen_normal d rt = Ok w -> doc_link_wf d rt = true ->
  Forall (fun x => 0 <= u_size x) u ->
  In seg (included rt (doc_segments d)) ->
  let sty := linker_symbols_style (doc_settings d) in
  let st' := exec_script env senv ext final (wo_script w) (init_state u) in
  ~ In (LForwardRef (alloc_name seg)) (l_errors st') ->
  SegmentGroupsAligned sty st' seg.
Proof. exact document_groups_aligned. Qed.

Theorem C09_document_groups_layout : forall d rt w u ext0 seg,
  gen_normal d rt = Ok w -> doc_link_wf d rt = true ->
  Forall (fun x => 0 <= u_size x) u ->
  In seg (included rt (doc_segments d)) ->
  let sty := linker_symbols_style (doc_settings d) in
  let st' := layout (wo_script w) u ext0 in
  ~ In (LForwardRef (alloc_name seg)) (l_errors st') ->
  SegmentGroupsAligned sty st' seg.
Proof. exact document_groups_aligned_layout. Qed.

(* when every group alignment of the segment is a power of two, all four requests hold *)
Theorem C09_document_groups_pow2 : forall env senv ext final d rt w u seg,
  gen_normal d rt = Ok w -> doc_link_wf d rt = true ->
  Forall (fun x => 0 <= u_size x) u ->
  In seg (included rt (doc_segments d)) ->
  group_aligns_pow2 seg ->
  let sty := linker_symbols_style (doc_settings d) in
  let st' := exec_script env senv ext final (wo_script w) (init_state u) in
  ~ In (LForwardRef (alloc_name seg)) (l_errors st') ->
  SegmentGroupsAlignedAll sty st' seg.
Proof. exact document_groups_pow2. Qed.

Theorem C09_document_groups_pow2_layout : forall d rt w u ext0 seg,
  gen_normal d rt = Ok w -> doc_link_wf d rt = true ->
  Forall (fun x => 0 <= u_size x) u ->
  In seg (included rt (doc_segments d)) ->
  group_aligns_pow2 seg ->
  let sty := linker_symbols_style (doc_settings d) in
  let st' := layout (wo_script w) u ext0 in
  ~ In (LForwardRef (alloc_name seg)) (l_errors st') ->
  SegmentGroupsAlignedAll sty st' seg.
Proof. exact document_groups_pow2_layout. Qed.

(* the compatibility premise cannot be dropped: ALIGN(3) then ALIGN(2) from offset 1 *)
Example C09_incompatible_example :
  opt_aligned (Some 2%N) (opt_aligned (Some 3%N) 1) = 4 /\ ~ (3 | 4) /\ ~ compatible 3 2.
Proof.
  split; [reflexivity|]. split.
  - intros [k Hk]. lia.
  - intros [[k Hk]|[k Hk]]; lia.
Qed.

(* ====================================================================== *)
(* 3. SUBALIGN                                                             *)
(* ====================================================================== *)

(* every placement of the final state that lies in .seg or .seg.noload of an included segment sits at a
   multiple of the segment's subalign - provided no allow-listed section (sections_allowlist,
   sections_allowlist_extra: "name 0 : { *(name) }" at the end of SECTIONS) is called .seg or
   .seg.noload.  No condition on errors, none on the sizes. *)
Theorem C09_document_subalign : forall env senv ext final d rt w u seg,
  gen_normal d rt = Ok w -> doc_link_wf d rt = true ->
  In seg (included rt (doc_segments d)) ->
  outsecs_not_allowlisted (doc_settings d) seg ->
  let st' := exec_script env senv ext final (wo_script w) (init_state u) in
  SubalignHolds st' seg.
Proof. exact document_subalign. Qed.

Theorem C09_document_subalign_layout : forall d rt w u ext0 seg,
  gen_normal d rt = Ok w -> doc_link_wf d rt = true ->
  In seg (included rt (doc_segments d)) ->
  outsecs_not_allowlisted (doc_settings d) seg ->
  SubalignHolds (layout (wo_script w) u ext0) seg.
Proof. exact document_subalign_layout. Qed.

(* ====================================================================== *)
(* examples                                                                *)
(* ====================================================================== *)

(* dl_doc (Spec/DocLevel.v) meets the hypotheses of every theorem above: three included segments with
   segment_start_align 16, .data groups aligned to 8, placed by default (boot) or in a class *)
Example C09_document_hypotheses_example :
  doc_link_wf dl_doc ex_rt = true /\
  (exists w, gen_normal dl_doc ex_rt = Ok w /\ wo_script w = dl_script) /\
  Forall (fun x => 0 <= u_size x) dl_universe /\
  l_errors (layout dl_script dl_universe [("main", 5)]) = [] /\
  map (fun s => (sg_name s, segment_start_align s, segment_end_align s, sg_vram_class s))
      (included ex_rt (doc_segments dl_doc)) =
  [("boot", Some 16%N, None, None); ("ovl_a", Some 16%N, None, Some "overlay");
   ("ovl_b", Some 16%N, None, Some "overlay")] /\
  Forall group_aligns_pow2 (included ex_rt (doc_segments dl_doc)) /\
  Forall (outsecs_not_allowlisted (doc_settings dl_doc)) (included ex_rt (doc_segments dl_doc)) /\
  Forall (fun s => start_align_compatible s dl_universe) (included ex_rt (doc_segments dl_doc)).
Proof.
  split; [vm_compute; reflexivity|]. split; [eexists; split; vm_compute; reflexivity|].
  split; [repeat constructor; vm_compute; discriminate|]. split; [vm_compute; reflexivity|].
  split; [vm_compute; reflexivity|].
  assert (P3 : pow2 8) by (exists 3%nat; reflexivity).
  assert (P4 : pow2 16) by (exists 4%nat; reflexivity).
  assert (P2 : pow2 4) by (exists 2%nat; reflexivity).
  assert (Hsegs : included ex_rt (doc_segments dl_doc) =
                  [ex_segment "boot" ex_files_boot None (Some ex_gp) no_conds;
                   ex_segment "ovl_a" [ex_obj "a.o"] (Some "overlay") None no_conds;
                   ex_segment "ovl_b" [ex_obj "b.o"; ex_offset ".data" "b_mid"] (Some "overlay") None no_conds])
    by (vm_compute; reflexivity).
  rewrite Hsegs.
  assert (G : forall n f c g k, group_aligns_pow2 (ex_segment n f c g k)).
  { intros. split; [exact I|]. split; [exact I|]. split; [|constructor]. constructor; [exact P3 | constructor]. }
  assert (Hn : forall x, In x (single_entry_names (doc_settings dl_doc)) ->
                         x = ".mdebug" \/ x = ".symtab" \/ x = ".strtab").
  { intros x Hx. cbn in Hx. destruct Hx as [E|[E|[E|[]]]]; subst x; auto. }
  assert (S : forall n f c g k, start_align_compatible (ex_segment n f c g k) dl_universe).
  { intros. apply C09_start_align_compatible_pow2; [exact P4 | exact I |].
    unfold dl_universe. repeat (constructor; [cbn; assumption|]). constructor. }
  split; [repeat (constructor; [apply G|]); constructor|].
  split; [|repeat (constructor; [apply S|]); constructor].
  repeat (constructor; [split; intro Hbad; apply Hn in Hbad; destruct Hbad as [E|[E|E]]; discriminate E|]).
  constructor.
Qed.

(* what the theorems say of its link: ROM starts 0, 80, 112 are multiples of 16; the .data groups start
   40 and 48 bytes into .boot and .ovl_b, multiples of 8; .boot starts at 0 *)
Example C09_document_conclusions_example :
  let st := layout dl_script dl_universe [("main", 5)] in
  val st "boot_ROM_START" = Some 0 /\ val st "ovl_a_ROM_START" = Some (16 * 5) /\
  val st "ovl_b_ROM_START" = Some (16 * 7) /\
  (exists o, find_sec ".boot" (l_secs st) = Some o /\ os_vma o = 0 /\ os_lma o = Some 0 /\
             val st "boot_DATA_START" = Some (os_vma o + 8 * 5)) /\
  (exists o, find_sec ".ovl_b" (l_secs st) = Some o /\ os_lma o = Some (16 * 7) /\
             val st "ovl_b_DATA_START" = Some (os_vma o + 8 * 6)).
Proof.
  vm_compute. split; [reflexivity|]. split; [reflexivity|]. split; [reflexivity|].
  split; eexists; repeat split; reflexivity.
Qed.

(* a document that uses every alignment option (c9_doc: SUBALIGN 16, segment 4096 / 64, groups 32 / 16,
   .data 8 / 64) meets the hypotheses, and its link shows each of them *)
Example C09_document_all_options_example :
  let st := layout c9_script c9_universe [] in
  doc_link_wf c9_doc ex_rt = true /\
  (exists w, gen_normal c9_doc ex_rt = Ok w /\ wo_script w = c9_script) /\
  l_errors st = [] /\
  map (fun o => (os_name o, os_vma o, os_lma o)) (firstn 4 (l_secs st)) =
  [(".boot", 0, Some 0); (".boot.noload", 128, None);
   (".main", 4096, Some 4096); (".main.noload", 4096 + 128, None)] /\
  val st "main_ROM_START" = Some 4096 /\ val st "main_ROM_END" = Some (64 * 66) /\
  val st "main_VRAM_END" = Some (64 * 67) /\
  val st "main_TEXT_START" = Some (4096 + 32 * 0) /\ val st "main_TEXT_END" = Some (4096 + 16 * 5) /\
  val st "main_DATA_START" = Some (4096 + 32 * 3) /\ val st "main_DATA_END" = Some (4096 + 64 * 2) /\
  map (fun p => (pl_marker p, pl_addr p, pl_outsec p)) (l_placed st) =
  [("boot_text", 0, ".boot"); ("boot_data", 16 * 4, ".boot"); ("boot_bss", 16 * 8, ".boot.noload");
   ("a_text", 16 * 256, ".main"); ("b_text", 16 * 258, ".main"); ("b_data", 16 * 262, ".main");
   ("a_bss", 16 * 264, ".main.noload"); ("b_bss", 16 * 265, ".main.noload")].
Proof.
  cbv zeta. split; [vm_compute; reflexivity|]. split; [eexists; split; vm_compute; reflexivity|].
  vm_compute. repeat split; reflexivity.
Qed.

(* the hypothesis of C09_document_subalign cannot be dropped: with ".boot" in sections_allowlist the
   document is well-formed, the link has no error, and the statement ".boot 0 : { *(.boot) }" puts an
   input section called .boot at address 4 in an output section called .boot, although the segment boot
   has subalign 16 *)
Example C09_document_subalign_counterexample :
  let st := layout c9_bad_script c9_bad_universe [] in
  doc_link_wf c9_bad_doc ex_rt = true /\
  (exists w, gen_normal c9_bad_doc ex_rt = Ok w /\ wo_script w = c9_bad_script) /\
  map (fun s => (sg_name s, subalign s)) (included ex_rt (doc_segments c9_bad_doc)) = [("boot", Some 16%N)] /\
  In ".boot" (single_entry_names (doc_settings c9_bad_doc)) /\
  l_errors st = [] /\
  map (fun p => (pl_marker p, pl_addr p, pl_outsec p)) (l_placed st) =
  [("boot_text", 0, ".boot"); ("stray1", 0, ".boot"); ("stray2", 4, ".boot")].
Proof.
  cbv zeta. split; [vm_compute; reflexivity|]. split; [eexists; split; vm_compute; reflexivity|].
  split; [vm_compute; reflexivity|]. split; [left; reflexivity|].
  vm_compute. split; reflexivity.
Qed.

Print Assumptions C09_document_segments.
Print Assumptions C09_document_segments_layout.
Print Assumptions C09_document_default_vram.
Print Assumptions C09_document_default_vram_layout.
Print Assumptions C09_start_align_compatible_pow2.
Print Assumptions C09_document_groups.
Print Assumptions C09_document_groups_layout.
Print Assumptions C09_document_groups_pow2.
Print Assumptions C09_document_groups_pow2_layout.
Print Assumptions C09_document_subalign.
Print Assumptions C09_document_subalign_layout.
