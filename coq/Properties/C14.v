(* C14 - KEEP wrapping follows nearest-ancestor keep_sections inheritance.
   Only statements, each closed by [exact]; see Spec/C14.v (the rule) and Proofs/C14.v. *)
From Slinky Require Import Model.Types Model.Parse Model.Runtime Model.Style Model.Script Model.Writer
  Spec.C14 Proofs.C14.
Local Open Scope string_scope.

(* ---------- the three push-down passes compute the declarative rule ---------- *)

(* an entry and everything below it, after parse_file ([inh = KAbsent]) and after any later pass
   that pushes the value [inh] down: own explicit value, else the inherited one; the entries of a
   group inherit the group's resulting value *)
Theorem C14_file_tree : forall fs f inh,
  parse_file fs = Ok f -> kt_of (pass_down_file inh f) = spec_kt inh fs.
Proof. exact file_tree. Qed.

Theorem C14_file_tree_parsed : forall fs f, parse_file fs = Ok f -> kt_of f = spec_kt KAbsent fs.
Proof. exact file_tree_parsed. Qed.

(* the recursive rule is literally "the nearest explicit value" among the entry and its ancestors
   (innermost first), [KAbsent] (never kept) when there is none *)
Theorem C14_spec_is_nearest : forall fs ancestors,
  spec_kt (nearest ancestors) fs = nearest_kt ancestors fs.
Proof. exact spec_is_nearest. Qed.

(* a parsed segment: its files inherit the segment's value *)
Theorem C14_segment : forall st ss seg,
  parse_segment st ss = Ok seg ->
  sg_keep seg = keep_of_skeep (ss_keep ss) /\
  map kt_of (sg_files seg) = map (spec_kt (keep_of_skeep (ss_keep ss))) (serial_files ss).
Proof. exact segment_tree. Qed.

(* the pass of unserialize_document on one segment: the segment's explicit value, else the value of
   the first declared class of the name it gives, else nothing *)
Theorem C14_class_pass : forall classes st ss seg,
  parse_segment st ss = Ok seg ->
  let inh := nearest [keep_of_skeep (ss_keep ss); class_keep classes (sg_vram_class seg)] in
  sg_keep (class_pass_down classes seg) = inh /\
  map kt_of (sg_files (class_pass_down classes seg)) = map (spec_kt inh) (serial_files ss).
Proof. exact class_pass_down_tree. Qed.

(* the whole document, entirely in terms of what is written in it: every segment of the parsed
   document carries, on each entry, the nearest explicit value among entry, enclosing groups,
   segment and vram class *)
Theorem C14_document : forall d doc,
  unserialize_document d = Ok doc ->
  Forall2 (fun ss seg =>
             sg_keep seg = segment_inherited d ss /\
             map kt_of (sg_files seg) = map (spec_kt (segment_inherited d ss)) (serial_files ss))
          (serial_segments d) (doc_segments doc).
Proof. exact document_tree. Qed.

(* the same for Document::read_file as a whole (serde's checks included) *)
Theorem C14_document_parse : forall d doc,
  parse d = Ok doc ->
  Forall2 (fun ss seg =>
             sg_keep seg = segment_inherited d ss /\
             map kt_of (sg_files seg) = map (spec_kt (segment_inherited d ss)) (serial_files ss))
          (serial_segments d) (doc_segments doc).
Proof. exact document_tree_parse. Qed.

(* ---------- emission ---------- *)

(* emit_sff, one step: the local emit_file is [emit_file_of] *)
Theorem C14_emit_unfold : forall rt sty cfg seg sections f n stack section base ws,
  emit_sff rt sty cfg seg sections f (S n) stack section base ws =
  if mem_str section stack then Err (ESubgroupCycle (sg_name seg) section) else
  fold_out
    (fun k ws =>
       do o1 <- emit_file_of rt sty cfg seg sections f base k ws;
       do o2 <- (if reference_partial cfg then Ok ([], snd o1) else
                 match lookup k (subgroups_for seg f) with
                 | Some others =>
                     fold_out (fun other ws =>
                                 emit_sff rt sty cfg seg sections f n (section :: stack) other base ws)
                              others (snd o1)
                 | None => Ok ([], snd o1)
                 end);
       Ok ((fst o1 ++ fst o2)%list, snd o2))
    (sections_here f section sections) ws.
Proof. exact emit_sff_S. Qed.

(* everything emitted for an object/archive entry [f] is an input-section statement for some
   section [k] whose KEEP flag is [keeps (fi_keep f) k]: true iff the entry's effective value is
   `true` or a list containing [k] *)
Theorem C14_keep_flag : forall rt sty cfg seg sections f n stack section base ws o,
  objlike f ->
  emit_sff rt sty cfg seg sections f n stack section base ws = Ok o ->
  Forall (fun s => exists path member k wild,
                     s = SInput (keeps (fi_keep f) k) path member k wild) (fst o).
Proof. exact emit_sff_object_inputs. Qed.

(* every input-section statement emitted for any entry (groups at any depth) belongs to an
   object/archive entry at or below it and carries that entry's flag *)
Theorem C14_keep_flag_tree : forall rt sty cfg seg sections f n stack section base ws o,
  emit_sff rt sty cfg seg sections f n stack section base ws = Ok o ->
  Forall (fun s => is_input s = true ->
                   exists g, below g f /\ objlike g /\
                             exists path member k wild,
                               s = SInput (keeps (fi_keep g) k) path member k wild) (fst o).
Proof. exact emit_sff_inputs. Qed.

(* the flag is the KEEP( ) wrapper of the line *)
Theorem C14_render_keep : forall path member sect wild,
  render_input true path member sect wild = "KEEP(" ++ input_text path member sect wild ++ ");" /\
  render_input false path member sect wild = input_text path member sect wild ++ ";".
Proof. exact render_input_keep. Qed.

(* ---------- partial scripts ---------- *)

(* the per-segment partial script emits the files of a section exactly as the ordinary script *)
Theorem C14_partial_same : forall rt sty seg sections base section ws,
  emit_section rt sty cfg_sub_partial seg sections base section ws =
  emit_section rt sty cfg_normal seg sections base section ws.
Proof. exact emit_section_sub_partial. Qed.

(* the main partial script refers to one stand-in object per segment, never wrapped *)
Theorem C14_partial_main_unkept : forall rt sty cfg seg p sections base section ws o,
  emit_section rt sty cfg (clone_with_new_files seg [new_object p]) sections base section ws = Ok o ->
  Forall (fun s => exists path member k wild, s = SInput false path member k wild) (fst o).
Proof. exact main_partial_unkept. Qed.

(* ---------- examples: values at class, segment, outer group, inner group and file ---------- *)

Example C14_ex_parses : is_ok (parse ex_doc) = true.
Proof. vm_compute. reflexivity. Qed.

Example C14_ex_trees :
  doc_trees (parse ex_doc) =
  [(KWhich [".rodata"],                                      (* segment a: from class "cls" (the first one) *)
    [KT (KWhich [".rodata"]) [];                             (* a1.o: from the class *)
     KT (KAll true)                                          (* outer group: its own *)
        [KT (KAll true) [];                                  (* g1.o: from the outer group *)
         KT (KWhich [".data"])                               (* inner group: its own *)
            [KT (KWhich [".data"]) []; KT (KAll false) []];  (* g2.o: inner group; g2b.o: its own *)
         KT (KAll true) [KT (KAll true) []]]]);              (* silent inner group and g3.o: outer group *)
   (KAll false,                                              (* segment b: its own beats the class *)
    [KT (KAll false) []; KT (KAll false) [KT (KWhich [".bss"]) []]]);
   (KAbsent, [KT KAbsent []; KT KAbsent [KT KAbsent []]])].  (* segment c: nothing anywhere *)
Proof. vm_compute. reflexivity. Qed.

Example C14_ex_trees_spec : doc_trees (parse ex_doc) = spec_trees ex_doc.
Proof. vm_compute. reflexivity. Qed.

Example C14_ex_lines :
  ex_normal_lines =
  ["a1.o(.data*);"; "KEEP(g1.o(.data*));"; "KEEP(g2.o(.data*));"; "g2b.o(.data*);"; "KEEP(g3.o(.data*));";
   "KEEP(a1.o(.rodata*));"; "KEEP(g1.o(.rodata*));"; "g2.o(.rodata*);"; "g2b.o(.rodata*);";
   "KEEP(g3.o(.rodata*));";
   "a1.o(.bss*);"; "KEEP(g1.o(.bss*));"; "g2.o(.bss*);"; "g2b.o(.bss*);"; "KEEP(g3.o(.bss*));";
   "b1.o(.data*);"; "b2.o(.data*);"; "b1.o(.rodata*);"; "b2.o(.rodata*);"; "b1.o(.bss*);";
   "KEEP(b2.o(.bss*));";
   "c1.o(.data*);"; "c2.o(.data*);"; "c1.o(.rodata*);"; "c2.o(.rodata*);"; "c1.o(.bss*);"; "c2.o(.bss*);"].
Proof. vm_compute. reflexivity. Qed.

(* partial scripts: the sub-scripts carry the same lines segment by segment, the main one no KEEP *)
Example C14_ex_partial :
  ex_partial_lines =
  (["build/segments/a.o(.data*);"; "build/segments/a.o(.rodata*);"; "build/segments/a.o(.bss*);";
    "build/segments/b.o(.data*);"; "build/segments/b.o(.rodata*);"; "build/segments/b.o(.bss*);";
    "build/segments/c.o(.data*);"; "build/segments/c.o(.rodata*);"; "build/segments/c.o(.bss*);"],
   [("a", firstn 15 ex_normal_lines);
    ("b", firstn 6 (skipn 15 ex_normal_lines));
    ("c", skipn 21 ex_normal_lines)]).
Proof. vm_compute. reflexivity. Qed.

Print Assumptions C14_file_tree.
Print Assumptions C14_file_tree_parsed.
Print Assumptions C14_spec_is_nearest.
Print Assumptions C14_segment.
Print Assumptions C14_class_pass.
Print Assumptions C14_document.
Print Assumptions C14_document_parse.
Print Assumptions C14_emit_unfold.
Print Assumptions C14_keep_flag.
Print Assumptions C14_keep_flag_tree.
Print Assumptions C14_render_keep.
Print Assumptions C14_partial_same.
Print Assumptions C14_partial_main_unkept.
