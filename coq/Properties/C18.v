(* C18 - Allowlisted sections survive, denied and unplaced sections are discarded (script-level part).
   Only statements, each closed by [exact]; see Proofs/C18.v. *)
From Slinky Require Import Model.Types Model.Runtime Model.Style Model.Script Model.Writer Model.Exports.
From Slinky Require Import Spec.C18 Proofs.C18.

(* the tail of the SECTIONS block, exactly, including the blank lines: the non-empty parts among
   class sizes / allowlist / extra allowlist / discard block, one blank line between two of them *)
Theorem C18_tail_layout : forall st classes ws,
  end_sections_body st classes ws =
  sep_concat [tail_sizes st classes ws; tail_allow st; tail_extra st; tail_discard st].
Proof. exact end_sections_layout. Qed.

(* the same, ignoring blank lines: one size symbol per emitted class in declaration order, one
   single-entry output section per allowlisted name (both lists, in order), then the discard block *)
Theorem C18_tail_shape : forall st classes ws,
  strip_blank (end_sections_body st classes ws) =
  tail_sizes st classes ws ++ tail_allow st ++ tail_extra st ++ tail_discard st.
Proof. exact end_sections_strip. Qed.

(* a discard block (denylist patterns, then the wildcard if requested) iff the wildcard is on or the
   denylist is not empty; nothing otherwise *)
Theorem C18_discard_iff : forall st,
  (DiscardWanted st -> tail_discard st = [SDiscard (sections_denylist st) (discard_wildcard_section st)]) /\
  (~ DiscardWanted st -> tail_discard st = []).
Proof. exact tail_discard_iff. Qed.

Example C18_discard_wanted_ex : DiscardWanted ex_settings.
Proof. left. reflexivity. Qed.

Example C18_discard_not_wanted_ex :
  ~ DiscardWanted (Settings "" Splat None None None None "char" true [] [".symtab"] [] false false None None
                            [".text"] [".bss"] None None None None None [] [] true None []).
Proof. intros [H|H]; [discriminate | apply H; reflexivity]. Qed.

(* the class-size part holds no allowlist entry / discard block; the allowlist parts hold only
   single-entry output sections *)
Theorem C18_tail_parts_kinds : forall st classes ws,
  Forall no_tail_stmt (tail_sizes st classes ws) /\
  Forall (fun s => exists sect, s = SSingleEntry sect) (tail_allow st ++ tail_extra st).
Proof. exact tail_parts_kinds. Qed.

(* multi-segment mode: the SECTIONS body is [pre ++ tail] and no allowlist entry or discard block
   occurs in [pre], at any depth *)
Theorem C18_tail_last_multi : forall rt st cfg classes segs ws s ws',
  single_segment_mode st = false ->
  add_all_segments rt st cfg classes segs ws = Ok (s, ws') ->
  exists body, s = [SSections body] /\ EndsWithTail st classes body.
Proof. exact tail_last_multi. Qed.

(* single-segment mode and partial sub-scripts (any configuration, in particular cfg_sub_partial) *)
Theorem C18_tail_last_single : forall rt st cfg classes seg ws s ws',
  add_single_segment rt st cfg classes seg ws = Ok (s, ws') ->
  exists body, s = [SSections body] /\ EndsWithTail st classes body.
Proof. exact tail_last_single. Qed.

(* the ordinary script, whatever the mode *)
Theorem C18_tail_last_normal : forall d rt w,
  gen_normal d rt = Ok w ->
  exists body, wo_script w = version_stmts rt ++ [SSections body] ++ tail_stmts rt d /\
               EndsWithTail (doc_settings d) (doc_vram_classes d) body.
Proof. exact tail_last_normal. Qed.

Example C18_normal_ex : is_ok (gen_normal ex_doc ex_rt) = true.
Proof. vm_compute. reflexivity. Qed.

Example C18_single_ex : is_ok (gen_normal ex_doc_single ex_rt) = true /\
                        single_segment_mode (doc_settings ex_doc_single) = true.
Proof. vm_compute. split; reflexivity. Qed.

(* partial mode: the main script and every sub-script *)
Theorem C18_tail_last_partial : forall d rt p,
  gen_partial d rt = Ok p ->
  (exists body, wo_script (po_main p) = version_stmts rt ++ [SSections body] ++ tail_stmts rt d /\
                EndsWithTail (doc_settings d) (doc_vram_classes d) body) /\
  Forall (fun sub => exists body, wo_script (snd sub) = version_stmts rt ++ [SSections body] /\
                                  EndsWithTail (doc_settings d) (doc_vram_classes d) body) (po_subs p).
Proof. exact tail_last_partial. Qed.

Example C18_partial_ex :
  match gen_partial ex_doc ex_rt with Ok p => List.length (po_subs p) = 2 | Err _ => False end.
Proof. vm_compute. reflexivity. Qed.

(* nothing outside the SECTIONS block is an allowlist entry or a discard block *)
Theorem C18_outside_sections : forall rt d,
  Forall no_tail_stmt (version_stmts rt) /\ Forall no_tail_stmt (tail_stmts rt d).
Proof. exact nt_outside. Qed.

Print Assumptions C18_tail_layout.
Print Assumptions C18_tail_shape.
Print Assumptions C18_discard_iff.
Print Assumptions C18_tail_parts_kinds.
Print Assumptions C18_tail_last_multi.
Print Assumptions C18_tail_last_single.
Print Assumptions C18_tail_last_normal.
Print Assumptions C18_tail_last_partial.
Print Assumptions C18_outside_sections.
