(* C09 - Requested alignments are honoured in the linked image.
   Only statements, each closed by [exact]; see Proofs/C09.v.  Link-level statements are about LdSem's
   execution of the statement lists the writer model produces, for every environment of previous-pass
   values (env, senv), object symbols (ext), pass kind (final) and starting state. *)
From Slinky Require Import Model.Types Model.Runtime Model.Style Model.Script Model.Writer Model.LdSem.
From Slinky Require Import Spec.C09 Proofs.LdLemmas Proofs.C09.
From Coq Require Import ZArith.
Local Open Scope Z_scope.

(* ---------- section groups inside an output section (multi-segment scripts) ---------- *)

(* the start of a group: the START symbol is defined as vma + offset, the offset only moves forward and
   is a multiple of the per-section alignment and - when the two are compatible - of section_start_align;
   offsets are measured from the start of the enclosing output section (the segment part) *)
Theorem C09_group_start : forall env senv ext final vma sub outsec rt sty cfg seg section ss,
  section_syms cfg = true ->
  let ss' := fold_left (exec_sec_stmt env senv ext final vma sub outsec)
                       (section_symbol_start rt sty cfg seg section) ss in
  lookup (segment_section_start sty (sg_name seg) section) (l_syms (s_st ss')) = Some (vma + s_off ss') /\
  s_off ss <= s_off ss' /\
  (forall b, lookup section (sections_start_alignment seg) = Some b -> (0 < b)%N -> (Z.of_N b | s_off ss')) /\
  (forall a, section_start_align seg = Some a -> (0 < a)%N ->
             (forall b, lookup section (sections_start_alignment seg) = Some b ->
                        compatible (Z.of_N a) (Z.of_N b)) ->
             (Z.of_N a | s_off ss')).
Proof. exact group_start_aligned. Qed.

(* the end of a group, and SIZE = END - START *)
Theorem C09_group_end : forall env senv ext final vma sub outsec sty cfg seg section ss,
  section_syms cfg = true ->
  let ss' := fold_left (exec_sec_stmt env senv ext final vma sub outsec)
                       (section_symbol_end sty cfg seg section) ss in
  lookup (segment_section_end sty (sg_name seg) section) (l_syms (s_st ss')) = Some (vma + s_off ss') /\
  s_off ss <= s_off ss' /\
  (forall b, lookup section (sections_end_alignment seg) = Some b -> (0 < b)%N -> (Z.of_N b | s_off ss')) /\
  (forall a, section_end_align seg = Some a -> (0 < a)%N ->
             (forall b, lookup section (sections_end_alignment seg) = Some b ->
                        compatible (Z.of_N a) (Z.of_N b)) ->
             (Z.of_N a | s_off ss')) /\
  (forall s, sym_lookup (segment_section_start sty (sg_name seg) section) (s_st ss) env ext = Some s ->
             lookup (segment_section_size sty (sg_name seg) section) (l_syms (s_st ss')) =
             Some (vma + s_off ss' - s)).
Proof. exact group_end_aligned. Qed.

(* powers of two are always compatible *)
Theorem C09_pow2_compatible : forall n m, compatible (2 ^ Z.of_nat n) (2 ^ Z.of_nat m).
Proof. exact pow2_divides_or. Qed.

Example C09_group_start_example :
  let ss' := fold_left (exec_sec_stmt [] [] [] true 1000 (Some 4) ".boot")
                       (section_symbol_start (Runtime [] false) Splat cfg_normal c09_segment ".data")
                       (SState 5 false c09_state) in
  section_syms cfg_normal = true /\
  section_start_align c09_segment = Some 16%N /\ lookup ".data" (sections_start_alignment c09_segment) = Some 8%N /\
  compatible (Z.of_N 16) (Z.of_N 8) /\
  s_off ss' = 16 /\ lookup "boot_DATA_START" (l_syms (s_st ss')) = Some 1016.
Proof. vm_compute. repeat split; try reflexivity. right. exists 2. reflexivity. Qed.

Example C09_group_end_example :
  let ss' := fold_left (exec_sec_stmt [] [] [] true 1000 (Some 4) ".boot")
                       (section_symbol_end Splat cfg_normal c09_segment ".data")
                       (SState 37 false (set_sym "boot_DATA_START" 1016 false c09_state)) in
  s_off ss' = 64 /\ lookup "boot_DATA_END" (l_syms (s_st ss')) = Some 1064 /\
  lookup "boot_DATA_SIZE" (l_syms (s_st ss')) = Some 48.
Proof. vm_compute. repeat split; reflexivity. Qed.

(* ---------- single-segment mode: the same statements at the top level, where "." is absolute ---------- *)

Theorem C09_single_mode_absolute : forall env senv ext final rt sty cfg seg section st,
  section_syms cfg = true ->
  let st' := fold_left (exec_top_stmt env senv ext final) (section_symbol_start rt sty cfg seg section) st in
  lookup (segment_section_start sty (sg_name seg) section) (l_syms st') = Some (l_dot st') /\
  l_dot st <= l_dot st' /\
  (forall b, lookup section (sections_start_alignment seg) = Some b -> (0 < b)%N -> (Z.of_N b | l_dot st')) /\
  (forall a, section_start_align seg = Some a -> (0 < a)%N ->
             (forall b, lookup section (sections_start_alignment seg) = Some b ->
                        compatible (Z.of_N a) (Z.of_N b)) ->
             (Z.of_N a | l_dot st')).
Proof. exact top_group_start_aligned. Qed.

Theorem C09_single_mode_absolute_end : forall env senv ext final sty cfg seg section st s,
  section_syms cfg = true ->
  sym_lookup (segment_section_start sty (sg_name seg) section) st env ext = Some s ->
  let st' := fold_left (exec_top_stmt env senv ext final) (section_symbol_end sty cfg seg section) st in
  lookup (segment_section_end sty (sg_name seg) section) (l_syms st') = Some (l_dot st') /\
  lookup (segment_section_size sty (sg_name seg) section) (l_syms st') = Some (l_dot st' - s) /\
  l_dot st <= l_dot st' /\
  (forall b, lookup section (sections_end_alignment seg) = Some b -> (0 < b)%N -> (Z.of_N b | l_dot st')) /\
  (forall a, section_end_align seg = Some a -> (0 < a)%N ->
             (forall b, lookup section (sections_end_alignment seg) = Some b ->
                        compatible (Z.of_N a) (Z.of_N b)) ->
             (Z.of_N a | l_dot st')).
Proof. exact top_group_end_aligned. Qed.

Example C09_single_mode_example :
  let st' := fold_left (exec_top_stmt [] [] [] true)
                       (section_symbol_start (Runtime [] false) Makerom cfg_normal c09_segment ".data") c09_state in
  l_dot st' = 112 /\ lookup "_bootSegmentDataStart" (l_syms st') = Some 112.
Proof. vm_compute. split; reflexivity. Qed.

(* ---------- the segment: ROM start / end, VRAM end ---------- *)

(* segment_start_align: the ROM position and "." are both aligned, X_ROM_START is the aligned position *)
Theorem C09_segment_rom_vram_start : forall env senv ext final sty name a st v,
  (0 < a)%N ->
  sym_lookup "__romPos" st env ext = Some v ->
  let st' := fold_left (exec_top_stmt env senv ext final)
                       (segment_align_stmts (Some a) ++
                        [linker_symbol (segment_rom_start sty name) (ESym "__romPos")]) st in
  lookup (segment_rom_start sty name) (l_syms st') = Some (align_up v (Z.of_N a)) /\
  lookup "__romPos" (l_syms st') = Some (align_up v (Z.of_N a)) /\
  (Z.of_N a | align_up v (Z.of_N a)) /\
  l_dot st' = align_up (l_dot st) (Z.of_N a) /\ (Z.of_N a | l_dot st').
Proof. exact segment_start_aligned. Qed.

(* segment_end_align: X_VRAM_END and X_ROM_END are multiples of it, sizes are end - start *)
Theorem C09_segment_rom_vram_end : forall env senv ext final sty name a st v sv sr,
  sym_lookup "__romPos" st env ext = Some v ->
  sym_lookup (segment_vram_start sty name) st env ext = Some sv ->
  sym_lookup (segment_rom_start sty name) st env ext = Some sr ->
  let st' := fold_left (exec_top_stmt env senv ext final)
                       (segment_align_stmts a ++
                        sym_end_size (segment_vram_start sty name) (segment_vram_end sty name)
                                     (segment_vram_size sty name) EDot ++
                        sym_end_size (segment_rom_start sty name) (segment_rom_end sty name)
                                     (segment_rom_size sty name) (ESym "__romPos")) st in
  exists vend rend,
    lookup (segment_vram_end sty name) (l_syms st') = Some vend /\
    lookup (segment_rom_end sty name) (l_syms st') = Some rend /\
    lookup (segment_vram_size sty name) (l_syms st') = Some (vend - sv) /\
    lookup (segment_rom_size sty name) (l_syms st') = Some (rend - sr) /\
    l_dot st <= vend /\ v <= rend /\ l_dot st' = vend /\
    (forall n, a = Some n -> (0 < n)%N -> (Z.of_N n | vend) /\ (Z.of_N n | rend)) /\
    (a = None -> vend = l_dot st /\ rend = v).
Proof. exact segment_end_aligned. Qed.

Example C09_segment_example :
  let st' := fold_left (exec_top_stmt [] [] [] true)
                       (segment_align_stmts (segment_start_align c09_segment) ++
                        [linker_symbol (segment_rom_start Splat "boot") (ESym "__romPos")]) c09_state in
  sym_lookup "__romPos" c09_state [] [] = Some 7 /\
  lookup "boot_ROM_START" (l_syms st') = Some 4096 /\ l_dot st' = 4096.
Proof. vm_compute. repeat split; reflexivity. Qed.

(* ---------- default-placed VRAM start ---------- *)

(* an output section without address expression starts at the location counter aligned to A, the
   strictest alignment among what it receives; a location counter already aligned to sa stays a
   multiple of sa when sa and A are compatible *)
Theorem C09_default_vram : forall env senv ext final name at_ noload sub body st sa,
  let A := body_align (option_map Z.of_N sub) body (l_remaining st) 1 in
  let st' := exec_outsec env senv ext final name None at_ noload sub body st in
  exists o, l_secs st' = (l_secs st ++ [o])%list /\ os_name o = name /\ os_vma o = align_up (l_dot st) A /\
            1 <= A /\ l_dot st <= os_vma o /\
            (0 < sa -> (sa | l_dot st) -> compatible sa A -> (sa | os_vma o)).
Proof. exact default_vram. Qed.

Example C09_default_vram_example :
  let st' := exec_outsec [] [] [] true ".boot" None None false None
                         [SInput false "b.o" None ".bss" true; SInput false "a.o" None ".text" true]
                         (LState 96 [] [] [] [] c09_universe [] []) in
  body_align None [SInput false "b.o" None ".bss" true; SInput false "a.o" None ".text" true] c09_universe 1 = 8 /\
  (32 | 96) /\ compatible 32 8 /\
  map os_vma (l_secs st') = [96] /\ map pl_addr (l_placed st') = [96; 104].
Proof. vm_compute. repeat split; try reflexivity. exists 3; reflexivity. right. exists 4. reflexivity. Qed.

(* ---------- SUBALIGN ---------- *)

(* inside a body executed with SUBALIGN(s): everything appended to l_placed sits at a multiple of s *)
Theorem C09_subalign_body : forall env ext senv final vma s outsec,
  0 < s -> forall body ss,
  exists new,
    l_placed (s_st (fold_left (exec_sec_stmt env senv ext final vma (Some s) outsec) body ss)) =
    (l_placed (s_st ss) ++ new)%list /\
    Forall (fun p => (s | pl_addr p)) new.
Proof. exact sub_fold. Qed.

Theorem C09_subalign : forall env senv ext final name addr at_ noload s body st,
  (0 < s)%N ->
  exists new,
    l_placed (exec_outsec env senv ext final name addr at_ noload (Some s) body st) = (l_placed st ++ new)%list /\
    Forall (fun p => (Z.of_N s | pl_addr p)) new.
Proof. exact subalign_outsec. Qed.

Example C09_subalign_example :
  map pl_addr (l_placed (exec_outsec [] [] [] true ".boot" None None false (Some 16%N)
                                     [SInput false "a.o" None ".text" true; SInput false "b.o" None ".text" true]
                                     c09_state)) = [112; 128].
Proof. vm_compute. reflexivity. Qed.

(* ---------- no spurious alignment (script level) ---------- *)

Theorem C09_no_spurious_opt : opt_align None = [] /\ segment_align_stmts None = [].
Proof. exact no_spurious_opt. Qed.

(* the ALIGN statements around a group are exactly the requested ones, in order *)
Theorem C09_no_spurious_group : forall rt sty cfg seg section,
  aligns_of (section_symbol_start rt sty cfg seg section) =
  (if section_syms cfg
   then opt_align (section_start_align seg) ++ opt_align (lookup section (sections_start_alignment seg))
   else [])%list /\
  aligns_of (section_symbol_end sty cfg seg section) =
  (if section_syms cfg
   then opt_align (section_end_align seg) ++ opt_align (lookup section (sections_end_alignment seg))
   else [])%list.
Proof. exact no_spurious_group. Qed.

Theorem C09_no_spurious_group_none : forall rt sty cfg seg section,
  (section_start_align seg = None -> lookup section (sections_start_alignment seg) = None ->
   aligns_of (section_symbol_start rt sty cfg seg section) = []) /\
  (section_end_align seg = None -> lookup section (sections_end_alignment seg) = None ->
   aligns_of (section_symbol_end sty cfg seg section) = []).
Proof. exact no_spurious_group_none. Qed.

(* the statements of the files of a group contain no ALIGN *)
Theorem C09_no_spurious_files : forall rt sty cfg seg sections base section ws s ws',
  emit_section rt sty cfg seg sections base section ws = Ok (s, ws') -> aligns_of s = [].
Proof. exact emit_section_no_align. Qed.

(* one part of a segment: a single output section, carrying exactly the segment's subalign (None: no
   SUBALIGN), and no ALIGN beside it *)
Theorem C09_no_spurious_part : forall rt st cfg seg sections noload ws s ws',
  write_segment rt st cfg seg sections noload ws = Ok (s, ws') ->
  aligns_of s = [] /\ outsec_subaligns s = [subalign seg].
Proof. exact write_segment_aligns. Qed.

(* an emitted segment: the top-level ALIGN statements are exactly those of segment_start_align and
   segment_end_align (none when null / absent) *)
Theorem C09_no_spurious_segment : forall rt st cfg classes seg ws s ws',
  add_segment rt st cfg classes seg ws = Ok (s, ws') ->
  should_emit rt (sg_conds seg) = true ->
  aligns_of s = (segment_align_stmts (segment_start_align seg) ++ segment_align_stmts (segment_end_align seg))%list /\
  outsec_subaligns s = [subalign seg; subalign seg].
Proof. exact add_segment_aligns. Qed.

Example C09_no_spurious_example :
  exists s ws', add_segment (Runtime [] false) (Settings "" Splat None None None None "char" true [] [] [] false
                                                         false None None [] [] None None None None None [] [] true None [])
                            cfg_normal [] c09_segment ws0 = Ok (s, ws') /\
                aligns_of s = [SAlign "__romPos" 4096; SAlign "." 4096; SAlign "__romPos" 16; SAlign "." 16].
Proof. eexists. eexists. split; [vm_compute; reflexivity|]. vm_compute. reflexivity. Qed.

Print Assumptions C09_group_start.
Print Assumptions C09_group_end.
Print Assumptions C09_pow2_compatible.
Print Assumptions C09_single_mode_absolute.
Print Assumptions C09_single_mode_absolute_end.
Print Assumptions C09_segment_rom_vram_start.
Print Assumptions C09_segment_rom_vram_end.
Print Assumptions C09_default_vram.
Print Assumptions C09_subalign_body.
Print Assumptions C09_subalign.
Print Assumptions C09_no_spurious_opt.
Print Assumptions C09_no_spurious_group.
Print Assumptions C09_no_spurious_group_none.
Print Assumptions C09_no_spurious_files.
Print Assumptions C09_no_spurious_part.
Print Assumptions C09_no_spurious_segment.
