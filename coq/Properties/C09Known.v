(* C09, the clause "group boundaries lie at multiples of both when both are given" as a refutation lemma:
   it holds only for COMPATIBLE pairs (one value divides the other: C09_group_start, C09_document_groups;
   always so for powers of two).  For an incompatible pair the writer emits ALIGN(section_start_align)
   and then ALIGN(sections_start_alignment[sec]); the second one moves the position off the multiples of
   the first.  Alignments 12 and 8: from offset 4, ALIGN(12) gives 12 and ALIGN(8) gives 16. *)
From Slinky Require Import Model.Types Model.Runtime Model.Style Model.Script Model.Writer Model.LdSem.
From Slinky Require Import Spec.C18 Spec.C04 Spec.C09 Spec.C09Doc Spec.DocLevel.
From Coq Require Import ZArith Lia.
Local Open Scope string_scope.

(* section_start_align 12, and 8 for the start of .data; nothing else is aligned *)
Definition kf9_segment : segment :=
  Segment "boot" [ex_obj "a.o"] None None None None "src" None no_conds [".text"; ".data"] [".bss"] None
          None None (Some 12%N) None [(".data", 8%N)] [] true None [] KAbsent.

Definition kf9_doc : document := Document ex_settings [] [kf9_segment] None [] [] [].

(* .text of a.o is 4 bytes long: the group of .data is reached at offset 4 *)
Definition kf9_universe : list usec :=
  [USec "build/src/a.o" None ".text" 4 4 false "a_text"; USec "build/src/a.o" None ".data" 8 4 false "a_data"].

Local Open Scope Z_scope.

(* the document is accepted, generates and meets every hypothesis of C09_document_groups but the
   compatibility of the two values; the link reports no error; both alignments are given for .data; in
   the final state boot_DATA_START is 16 and .boot starts at 0: a multiple of the per-section value 8,
   NOT a multiple of section_start_align 12 - neither relative to the output section nor absolutely -
   so "all four requests hold" ([SegmentGroupsAlignedAll], Spec/C09Doc.v) fails for the segment *)
Theorem C09_refuted_incompatible_alignments :
  exists d rt w u seg sec a b o S,
    gen_normal d rt = Ok w /\ doc_link_wf d rt = true /\ Forall (fun x => 0 <= u_size x) u /\
    In seg (included rt (doc_segments d)) /\ In sec (alloc_sections seg) /\
    section_start_align seg = Some a /\ lookup sec (sections_start_alignment seg) = Some b /\
    ~ compatible (Z.of_N a) (Z.of_N b) /\
    let sty := linker_symbols_style (doc_settings d) in
    let st' := layout (wo_script w) u [] in
    l_errors st' = [] /\
    find_sec (alloc_name seg) (l_secs st') = Some o /\
    lookup (segment_section_start sty (sg_name seg) sec) (l_syms st') = Some S /\
    (Z.of_N b | S - os_vma o) /\
    ~ (Z.of_N a | S - os_vma o) /\ ~ (Z.of_N a | S) /\
    ~ SegmentGroupsAlignedAll sty st' seg.
Proof.
  exists kf9_doc, ex_rt.
  destruct (gen_normal kf9_doc ex_rt) as [w|e] eqn:G; [|vm_compute in G; discriminate].
  exists w, kf9_universe, kf9_segment, ".data", 12%N, 8%N.
  vm_compute in G. injection G as <-.
  eexists. exists 16.
  split; [reflexivity|]. split; [vm_compute; reflexivity|].
  split; [repeat constructor; discriminate|].
  split; [vm_compute; left; reflexivity|]. split; [right; left; reflexivity|].
  split; [reflexivity|]. split; [reflexivity|].
  split; [intros [[k Hk]|[k Hk]]; lia|].
  cbv zeta.
  split; [vm_compute; reflexivity|]. split; [vm_compute; reflexivity|]. split; [vm_compute; reflexivity|].
  cbn [os_vma].
  split; [exists 2; reflexivity|]. split; [intros [k Hk]; lia|]. split; [intros [k Hk]; lia|].
  intros [[o [Hf Hall]] _].
  vm_compute in Hf. injection Hf as <-.
  apply Forall_inv_tail in Hall. apply Forall_inv in Hall.
  destruct Hall as [S0 [E0 [HS [_ [_ [Hal _]]]]]].
  vm_compute in HS. injection HS as <-.
  unfold aligned_to in Hal. cbn [section_start_align kf9_segment align_z os_vma] in Hal.
  destruct (Hal ltac:(reflexivity)) as [k Hk]. lia.
Qed.

(* what the script says, and where the symbols end up *)
Example C09_known_incompatible_lines :
  match gen_normal kf9_doc ex_rt with
  | Ok w =>
      firstn 3 (skipn 19 (render (wo_script w))) =
        ["        . = ALIGN(., 0xC);"; "        . = ALIGN(., 0x8);"; "        boot_DATA_START = .;"]%string /\
      let st := layout (wo_script w) kf9_universe [] in
      val st "boot_TEXT_END"%string = Some 4 /\ val st "boot_DATA_START"%string = Some 16
  | Err _ => False
  end.
Proof. vm_compute. repeat split; reflexivity. Qed.

(* with a compatible pair (16 and 8) the same document does keep both: C09_document_groups applies *)
Example C09_known_compatible_is_fine :
  let seg := Segment "boot" [ex_obj "a.o"] None None None None "src" None no_conds [".text"; ".data"] [".bss"]
                     None None None (Some 16%N) None [(".data", 8%N)] [] true None [] KAbsent in
  match gen_normal (Document ex_settings [] [seg] None [] [] []) ex_rt with
  | Ok w => val (layout (wo_script w) kf9_universe []) "boot_DATA_START"%string = Some 16
  | Err _ => False
  end.
Proof. vm_compute. reflexivity. Qed.

Print Assumptions C09_refuted_incompatible_alignments.
