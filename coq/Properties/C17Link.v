(* C17, link level - what the linker does with the asserts, the required symbols and _gp.
   Only statements, each closed by [exact]; see Proofs/C17Link.v.  For every previous-pass environment
   [env]/[senv], object symbols [ext], kind of pass [final] and state. *)
From Slinky Require Import Model.Types Model.Runtime Model.Style Model.Script Model.Writer Model.LdSem.
From Slinky Require Import Spec.C17 Spec.C04 Proofs.C17Link.
From Coq Require Import ZArith.
Local Open Scope string_scope.
Local Open Scope Z_scope.

(* C17_assert_link: ASSERT(cond, msg) reports msg when cond evaluates to 0, nothing when it evaluates
   to another value, and msg is reported only in the first case *)
Theorem C17_assert_fails : forall env senv ext final st cond msg,
  eval_raw env ext st cond = Ok 0 ->
  exec_top_stmt env senv ext final st (SAssert cond msg) = add_err (LAssertFailed msg) st.
Proof. exact assert_fails. Qed.

Theorem C17_assert_holds : forall env senv ext final st cond msg v,
  eval_raw env ext st cond = Ok v -> v <> 0 ->
  exec_top_stmt env senv ext final st (SAssert cond msg) = st.
Proof. exact assert_holds. Qed.

Theorem C17_assert_link : forall env senv ext final st cond msg,
  l_errors (exec_top_stmt env senv ext final st (SAssert cond msg)) = (l_errors st ++ [LAssertFailed msg])%list <->
  eval_raw env ext st cond = Ok 0.
Proof. exact assert_iff. Qed.

(* C17_required_link: DEFINED(n) is 1 iff n is defined by the script so far, the previous pass or the
   objects; so the link fails with "Required symbol 'n' was not linked" iff n is defined nowhere *)
Theorem C17_required_value : forall env ext st n,
  eval_raw env ext st ("DEFINED(" ++ n ++ ")") = Ok (b2z (is_some (sym_lookup n st env ext))).
Proof. exact required_value. Qed.

Theorem C17_required_link : forall env senv ext final st n,
  (sym_lookup n st env ext = None ->
   exec_top_stmt env senv ext final st (SAssert ("DEFINED(" ++ n ++ ")") (required_msg n)) =
   add_err (LAssertFailed (required_msg n)) st) /\
  (forall v, sym_lookup n st env ext = Some v ->
   exec_top_stmt env senv ext final st (SAssert ("DEFINED(" ++ n ++ ")") (required_msg n)) = st).
Proof. exact required_link. Qed.

Theorem C17_required_iff : forall env senv ext final st n,
  l_errors (exec_top_stmt env senv ext final st (SAssert ("DEFINED(" ++ n ++ ")") (required_msg n))) =
  (l_errors st ++ [LAssertFailed (required_msg n)])%list <->
  sym_lookup n st env ext = None.
Proof. exact required_iff. Qed.

Theorem C17_extern_noop : forall env senv ext final st n, exec_top_stmt env senv ext final st (SExtern n) = st.
Proof. exact extern_noop. Qed.

(* C17_gp_value: "_gp = . + 0x<offset as u32>" followed by "START = ." inside an output section placed
   at [vma]: START is the current address, _gp is START + (offset mod 2^32), which is START + offset
   modulo 2^32 - exact for offsets >= 0, 2^32 too large for negative ones (a 32-bit target wraps) *)
Theorem C17_gp_value : forall env senv ext final vma sub name ss p h off START,
  (p && is_some (lookup "_gp" ext))%bool = false -> START <> "_gp" ->
  let ss' := fold_left (exec_sec_stmt env senv ext final vma sub name)
                       [SAssign p h false "_gp" (EDotPlus off); linker_symbol START EDot] ss in
  let here := vma + s_off ss in
  s_off ss' = s_off ss /\
  lookup START (l_syms (s_st ss')) = Some here /\
  lookup "_gp" (l_syms (s_st ss')) = Some (here + off mod 4294967296) /\
  (here + off mod 4294967296) mod 4294967296 = (here + off) mod 4294967296.
Proof. exact gp_value. Qed.

Theorem C17_gp_offset_image : forall off,
  -2147483648 <= off < 2147483648 ->
  off mod 4294967296 = if off <? 0 then off + 4294967296 else off.
Proof. exact gp_offset_image. Qed.

Theorem C17_section_start_not_gp : forall sty seg sec, segment_section_start sty seg sec <> "_gp".
Proof. exact section_start_not_gp. Qed.

(* PROVIDE(_gp = ...) does not override a _gp coming from the objects *)
Theorem C17_gp_provided_elsewhere : forall env senv ext final vma sub name ss h off,
  is_some (lookup "_gp" ext) = true ->
  s_st (exec_sec_stmt env senv ext final vma sub name ss (SAssign true h false "_gp" (EDotPlus off))) = s_st ss.
Proof. exact gp_provided_elsewhere. Qed.

(* the hard-coded value is taken as it is *)
Theorem C17_gp_hardcoded : forall env senv ext final st v,
  lookup "_gp" (l_syms (exec_top_stmt env senv ext final st (SAssign false false false "_gp" (EHex8 v)))) =
  Some (Z.of_N v).
Proof. exact gp_hardcoded_value. Qed.

(* the sample document: boot has gp_info {.sdata, 0x7FF0, PROVIDE}; in the layout _gp = boot_SDATA_START
   + 0x7FF0 (the hard-coded value is overridden later in the script, as ld does); the assert
   "boot_ROM_SIZE <= 0x1000" holds; without "main" among the objects the required-symbol assert fails *)
Example ex_link_tail :
  let st := layout ex_script ex_universe [("main", 5)] in
  l_errors st = [] /\
  val st "boot_SDATA_START" = Some 68 /\ val st "_gp" = Some (68 + 32752) /\
  l_errors (layout ex_script ex_universe []) = [LAssertFailed (required_msg "main")].
Proof. vm_compute. repeat split; reflexivity. Qed.

Print Assumptions C17_assert_fails.
Print Assumptions C17_assert_holds.
Print Assumptions C17_assert_link.
Print Assumptions C17_required_value.
Print Assumptions C17_required_link.
Print Assumptions C17_required_iff.
Print Assumptions C17_extern_noop.
Print Assumptions C17_gp_value.
Print Assumptions C17_gp_offset_image.
Print Assumptions C17_section_start_not_gp.
Print Assumptions C17_gp_provided_elsewhere.
Print Assumptions C17_gp_hardcoded.
