(* C02Order - the bridge between the two halves of C02:
   "After linking, the addresses of the placed input sections never decrease along EXACTLY THAT ORDER
   within each segment."
   Properties/C02.v says in which order the generator writes the statements (document order);
   Properties/C02Doc.v says that addresses never decrease in PLACEMENT order.  Here: placement order is
   statement order (any script), statement order is document order (generated scripts), hence document
   order implies address order.
   Only statements, each closed by [exact]; see Proofs/C02Order.v, definitions in Spec/C02Order.v. *)
From Slinky Require Import Model.Types Model.Runtime Model.Style Model.Script Model.Writer Model.LdSem.
From Slinky Require Import Spec.C18 Spec.C04 Spec.C09 Spec.C01 Spec.DocLevel Spec.C01Doc Spec.C01Listed Spec.C02Order.
From Slinky Require Import Proofs.C02Order.
From Coq Require Import ZArith Lia Sorted.
Local Open Scope string_scope.
Local Open Scope Z_scope.

(* ====================================================================== *)
(* 1. any script: placements follow the claims                             *)
(* ====================================================================== *)

(* [script_claims script] (Spec/C01Listed.v): the statements that take input sections, in execution
   order.  [claim_blocks [] cs u]: each claim with its block [taken_by pre c u] - the input sections of
   the universe, IN UNIVERSE ORDER (LdSem.place walks the filtered l_remaining), that [c] matches and
   no claim before it ([pre]) matches: *)
Theorem C02_taken_by_spec : forall pre c u x,
  In x (taken_by pre c u) <->
  In x u /\ (forall c', In c' pre -> claim_matches c' x = false) /\ claim_matches c x = true.
Proof. exact taken_by_spec. Qed.

Theorem C02_claim_blocks_claims : forall cs pre u, map fst (claim_blocks pre cs u) = cs.
Proof. exact claim_blocks_claims. Qed.

(* any script, any pass from the initial state, provided no output section that contains an input
   statement failed (LForwardRef: its address expression could not be evaluated; its body is then
   skipped and later statements take its input sections):
   - l_placed, read as (marker, output section) pairs, is the concatenation over the claims IN ORDER of
     the block of each claim (nothing for the DISCARD block);
   - l_discarded is the block of the DISCARD claim(s);
   - what is left are the input sections that no claim matches *)
Theorem C02_placements_follow_claims : forall env senv ext final script u,
  let st' := exec_script env senv ext final script (init_state u) in
  (forall c, In c (script_claims script) -> ~ claim_failed st' c) ->
  let blocks := claim_blocks [] (script_claims script) u in
  map placement_key (l_placed st') = flat_map block_placements blocks /\
  l_discarded st' = flat_map block_discards blocks /\
  l_remaining st' = filter (unclaimed (script_claims script)) u.
Proof. exact placements_follow_claims. Qed.

Theorem C02_placements_follow_claims_layout : forall script u ext0,
  let st' := layout script u ext0 in
  (forall c, In c (script_claims script) -> ~ claim_failed st' c) ->
  let blocks := claim_blocks [] (script_claims script) u in
  map placement_key (l_placed st') = flat_map block_placements blocks /\
  l_discarded st' = flat_map block_discards blocks /\
  l_remaining st' = filter (unclaimed (script_claims script)) u.
Proof. exact placements_follow_claims_layout. Qed.

(* consequently: [x] first matched by the claim [c1], [y] by a LATER claim [c2] (both placing): the
   placement of [x] comes before that of [y] in l_placed *)
Theorem C02_claims_order_placed : forall env senv ext final script u pre c1 mid c2 post x y o1 o2,
  let st' := exec_script env senv ext final script (init_state u) in
  (forall c, In c (script_claims script) -> ~ claim_failed st' c) ->
  script_claims script = (pre ++ c1 :: mid ++ c2 :: post)%list ->
  In x u -> (forall c, In c pre -> claim_matches c x = false) -> claim_matches c1 x = true ->
  In y u -> (forall c, In c (pre ++ c1 :: mid) -> claim_matches c y = false) -> claim_matches c2 y = true ->
  claim_outsec c1 = Some o1 -> claim_outsec c2 = Some o2 ->
  exists px py l1 l2 l3,
    l_placed st' = (l1 ++ px :: l2 ++ py :: l3)%list /\
    pl_marker px = u_marker x /\ pl_outsec px = o1 /\ pl_marker py = u_marker y /\ pl_outsec py = o2.
Proof. exact claims_order_placed. Qed.

(* the blocks of the sample script over [ord_universe] (dl_universe plus sections of lib/util.o and
   libc.a:mem.o): the second statement for boot.o takes nothing; mem_text, LAST in the universe, is
   placed before util_text because its statement comes first *)
Example C02_blocks_example :
  map (fun b => (fst b, map u_marker (snd b)))
      (filter (fun b => negb (Nat.eqb (List.length (snd b)) 0)) (claim_blocks [] (script_claims dl_script) ord_universe)) =
  [(CInput ".boot" "build/src/boot.o" None ".text" true, ["boot_text"]);
   (CInput ".boot" "build/src/lib/libc.a" (Some "mem.o") ".text" true, ["mem_text"]);
   (CInput ".boot" "build/src/lib/util.o" None ".text" true, ["util_text"]);
   (CInput ".boot" "build/src/boot.o" None ".data" true, ["boot_data"]);
   (CInput ".boot" "build/src/lib/util.o" None ".data" true, ["util_data"]);
   (CInput ".boot" "build/src/lib/util.o" None ".sdata" true, ["util_sdata"]);
   (CInput ".boot.noload" "build/src/boot.o" None ".bss" true, ["boot_bss"]);
   (CInput ".boot.noload" "build/src/lib/util.o" None ".bss" true, ["util_bss"]);
   (CInput ".ovl_a" "build/src/a.o" None ".text" true, ["a_text"]);
   (CInput ".ovl_a.noload" "build/src/a.o" None ".bss" true, ["a_bss"]);
   (CInput ".ovl_b" "build/src/b.o" None ".text" true, ["b_text"]);
   (CInput ".ovl_b" "build/src/b.o" None ".data" true, ["b_data"]);
   (CInput ".ovl_b.noload" "build/src/b.o" None ".bss" true, ["b_bss"])] /\
  nth_error (claim_blocks [] (script_claims dl_script) ord_universe) 3 =
    Some (CInput ".boot" "build/src/boot.o" None ".text" true, []%list) /\
  let st := layout dl_script ord_universe [("main", 5)] in
  l_errors st = []%list /\
  map placement_key (l_placed st) =
    flat_map block_placements (claim_blocks [] (script_claims dl_script) ord_universe) /\
  map (fun p => (pl_marker p, pl_addr p, pl_outsec p)) (l_placed st) =
  [("boot_text", 0, ".boot"); ("mem_text", 40, ".boot"); ("util_text", 52, ".boot");
   ("boot_data", 72, ".boot"); ("util_data", 84, ".boot"); ("util_sdata", 108, ".boot");
   ("boot_bss", 112, ".boot.noload"); ("util_bss", 212, ".boot.noload");
   ("a_text", 2148532224, ".ovl_a"); ("a_bss", 2148532248, ".ovl_a.noload");
   ("b_text", 2148532224, ".ovl_b"); ("b_data", 2148532272, ".ovl_b"); ("b_bss", 2148532288, ".ovl_b.noload")].
Proof. vm_compute. repeat split; reflexivity. Qed.

(* the hypothesis of C02_placements_follow_claims for that run: nothing failed *)
Example C02_blocks_hypothesis_example :
  forall c, In c (script_claims dl_script) -> ~ claim_failed (layout dl_script ord_universe [("main", 5)]) c.
Proof. exact ex_no_failed. Qed.

(* ====================================================================== *)
(* 2. two input statements of one output section: addresses, pads          *)
(* ====================================================================== *)

(* the statements LdSem executes are A, then the output section [name] whose body is
   b1; I1; b2; I2; b3 (I1, I2 input statements), then B.  [x] is first matched by I1 (no claim of A or b1
   matches it), [y] by I2 (no claim of A, b1, nor I1, nor b2); sizes >= 0; the output section did not
   fail.  Then ([placed_in_order]) l_placed = l1 ++ px :: l2 ++ py :: l3 with px the placement of [x] and py
   that of [y], both in [name], and
       addr(x) + size(x) + (the pads ". += n" of b2) <= addr(y) *)
Theorem C02_same_outsec_addresses : forall env senv ext final script u A name addr at_ noload sub
    b1 k1 p1 m1 s1 w1 b2 k2 p2 m2 s2 w2 b3 B x y,
  let body := (b1 ++ SInput k1 p1 m1 s1 w1 :: b2 ++ SInput k2 p2 m2 s2 w2 :: b3)%list in
  let pre := (flat_map top_claims A ++ body_claims name b1)%list in
  let st' := exec_script env senv ext final script (init_state u) in
  flat_stmts script = (A ++ SOutSec name addr at_ noload sub body :: B)%list ->
  Forall (fun z => 0 <= u_size z) u -> In x u -> In y u ->
  (forall c, In c pre -> claim_matches c x = false) -> sel false p1 m1 s1 w1 x = true ->
  (forall c, In c (pre ++ CInput name p1 m1 s1 w1 :: body_claims name b2) -> claim_matches c y = false) ->
  sel false p2 m2 s2 w2 y = true ->
  ~ In (LForwardRef name) (l_errors st') ->
  placed_in_order (l_placed st') name x y (dot_adds b2).
Proof. exact same_outsec_addresses. Qed.

Theorem C02_same_outsec_addresses_layout : forall script u ext0 A name addr at_ noload sub
    b1 k1 p1 m1 s1 w1 b2 k2 p2 m2 s2 w2 b3 B x y,
  let body := (b1 ++ SInput k1 p1 m1 s1 w1 :: b2 ++ SInput k2 p2 m2 s2 w2 :: b3)%list in
  let pre := (flat_map top_claims A ++ body_claims name b1)%list in
  let st' := layout script u ext0 in
  flat_stmts script = (A ++ SOutSec name addr at_ noload sub body :: B)%list ->
  Forall (fun z => 0 <= u_size z) u -> In x u -> In y u ->
  (forall c, In c pre -> claim_matches c x = false) -> sel false p1 m1 s1 w1 x = true ->
  (forall c, In c (pre ++ CInput name p1 m1 s1 w1 :: body_claims name b2) -> claim_matches c y = false) ->
  sel false p2 m2 s2 w2 y = true ->
  ~ In (LForwardRef name) (l_errors st') ->
  placed_in_order (l_placed st') name x y (dot_adds b2).
Proof. exact same_outsec_addresses_layout. Qed.

Theorem C02_dot_adds_nonneg : forall l, 0 <= dot_adds l.
Proof. exact dot_adds_nonneg. Qed.

Theorem C02_dot_adds_in : forall n l, In (SDotAdd n) l -> Z.of_N n <= dot_adds l.
Proof. exact dot_adds_in. Qed.

(* a.o(.text); . += 16; b.o(.text): b_text starts 16 after the end of a_text (10 bytes at 0), aligned *)
Example C02_pad_example :
  placed_in_order (l_placed (layout pad_script [pad_b; pad_a] [])) ".o" pad_a pad_b 16 /\
  map (fun p => (pl_marker p, pl_addr p)) (l_placed (layout pad_script [pad_b; pad_a] [])) =
    [("a_text", 0); ("b_text", 28)].
Proof. split; [exact ex_pad_script | vm_compute; reflexivity]. Qed.

(* ====================================================================== *)
(* 3. generated scripts: statement order is document order                 *)
(* ====================================================================== *)

(* [ClaimAt rt d pos c] (Spec/C02Order.v): the input statement with claim [c] is written at position
   pos = [g; h; i; j; m; ...] of the document: the g-th included segment, half h (0: .seg with
   alloc_sections, 1: .seg.noload with noload_sections), the i-th section of that half's list, the j-th
   entry of the segment's file list, the m-th section of that entry's expansion (Expands: the sections
   emitted here, each directly followed by its sub-group sections) and, when the entry is a group, again
   (entry of the group, section of its expansion) down to an object or archive entry.  Positions are
   compared lexicographically ([lex_lt]): that IS the order of C02 (segments in document order,
   allocatable before noload, section groups in list order, entries depth-first in file-list order,
   sub-group sections right after their lead).
   [Enumerated no_filler A At]: there is a list L of (position, element) pairs with the elements of A in
   order, strictly increasing positions, containing exactly the pairs that satisfy At.
   The claims of a generated script are [A ++ tail_claims] (C01_document_claims) and A is enumerated by
   the document positions: the k-th input statement of the script is the one at the k-th smallest
   position of the document. *)
Theorem C02_document_claims_enumerated : forall rt d w,
  gen_normal d rt = Ok w -> single_segment_mode (doc_settings d) = false ->
  exists A, script_claims (wo_script w) = (A ++ tail_claims (doc_settings d))%list /\
            Enumerated no_filler A (ClaimAt rt d).
Proof. exact document_claims_enumerated. Qed.

(* what an enumeration gives: two positions in order split the list in order *)
Theorem C02_enumerated_split : forall (A : Type) (F : A -> Prop) l (At : list nat -> A -> Prop) q1 s1 q2 s2,
  Enumerated F l At -> At q1 s1 -> At q2 s2 -> lex_lt q1 q2 ->
  exists a m c, l = (a ++ s1 :: m ++ s2 :: c)%list /\
    (forall s', In s' a -> F s' \/ exists q', At q' s' /\ lex_lt q' q1) /\
    (forall s', In s' m -> F s' \/ exists q', At q' s' /\ lex_lt q1 q' /\ lex_lt q' q2) /\
    (forall q' s', At q' s' -> lex_lt q1 q' -> lex_lt q' q2 -> In s' m).
Proof. exact (@enum_split2). Qed.

(* the same for ALL the statements of the body of one half ([BodyAt]: positions [i; j; m; ...]; the
   statements without a position - section symbols, alignments, blank lines - are not input statements):
   the files part of each section group, pads and linker offsets included, in document order *)
Theorem C02_half_enumerated : forall rt d seg nl ws body ws',
  part_groups rt (doc_settings d) cfg_normal seg (part_sections seg nl) (part_sections seg nl) ws = Ok (body, ws') ->
  Enumerated (fun s => is_input s = false) body
             (fun p s => exists b, doc_base rt d seg b /\ BodyAt rt (doc_settings d) seg nl b p s).
Proof. exact half_enumerated. Qed.

(* the statements of a file list for one section (KidsStmts, Spec/C01.v - what C02_order_files proves
   emit_section writes) are enumerated by [KidsAt] *)
Theorem C02_files_enumerated : forall rt sty cfg seg sections files k base l,
  KidsStmts rt sty cfg seg sections files k base l ->
  Enumerated no_filler l (KidsAt rt sty cfg seg sections files k base).
Proof. exact kids_enumerated. Qed.

(* the expansion of an entry is a function of the entry and the section asked *)
Theorem C02_expands_functional : forall cfg seg sections f s l l',
  Expands cfg seg sections f s l -> Expands cfg seg sections f s l' -> l = l'.
Proof. intros cfg seg sections f s l l' H H'. exact (proj1 (expands_fun cfg seg sections f) s l H l' H'). Qed.

(* ====================================================================== *)
(* 4. document order implies address order                                 *)
(* ====================================================================== *)

(* [first_matched_at rt d pos c x]: the statement at position [pos] has claim [c], matches [x], and no
   statement at an earlier position of the document matches [x].
   Multi-segment mode; [seg] the g-th included segment; q1 before q2 in the body of half [nl] of [seg]
   (same segment, same half: section groups in list order, then entries depth-first in file-list order,
   then the sections of an entry's expansion); [x] first matched at q1, [y] at q2; sizes >= 0; the
   output section of that half did not fail.  Then l_placed = l1 ++ px :: l2 ++ py :: l3, px the
   placement of [x], py that of [y], both in .seg (nl = false) / .seg.noload (nl = true), and
       addr(x) + size(x) <= addr(y).
   Hypotheses about the document, conclusion about addresses. *)
Theorem C02_document_order : forall env senv ext final d rt w u g seg nl q1 q2 c1 c2 x y,
  gen_normal d rt = Ok w -> single_segment_mode (doc_settings d) = false ->
  Forall (fun z => 0 <= u_size z) u -> In x u -> In y u ->
  nth_error (included rt (doc_segments d)) g = Some seg ->
  lex_lt q1 q2 ->
  first_matched_at rt d (g :: half_index nl :: q1) c1 x ->
  first_matched_at rt d (g :: half_index nl :: q2) c2 y ->
  let st' := exec_script env senv ext final (wo_script w) (init_state u) in
  ~ In (LForwardRef (part_name seg nl)) (l_errors st') ->
  placed_in_order (l_placed st') (part_name seg nl) x y 0.
Proof. exact document_order. Qed.

Theorem C02_document_order_layout : forall d rt w u ext0 g seg nl q1 q2 c1 c2 x y,
  gen_normal d rt = Ok w -> single_segment_mode (doc_settings d) = false ->
  Forall (fun z => 0 <= u_size z) u -> In x u -> In y u ->
  nth_error (included rt (doc_segments d)) g = Some seg ->
  lex_lt q1 q2 ->
  first_matched_at rt d (g :: half_index nl :: q1) c1 x ->
  first_matched_at rt d (g :: half_index nl :: q2) c2 y ->
  let st' := layout (wo_script w) u ext0 in
  ~ In (LForwardRef (part_name seg nl)) (l_errors st') ->
  placed_in_order (l_placed st') (part_name seg nl) x y 0.
Proof. exact document_order_layout. Qed.

(* pads: a pad entry whose statement ". += n" is at a position qp between q1 and q2 (its own section
   group, C02_pad_own_section) adds its amount: addr(x) + size(x) + n <= addr(y) *)
Theorem C02_document_order_pad : forall env senv ext final d rt w u g seg nl q1 qp q2 c1 c2 x y n,
  gen_normal d rt = Ok w -> single_segment_mode (doc_settings d) = false ->
  Forall (fun z => 0 <= u_size z) u -> In x u -> In y u ->
  nth_error (included rt (doc_segments d)) g = Some seg ->
  lex_lt q1 qp -> lex_lt qp q2 ->
  (exists b, doc_base rt d seg b /\ BodyAt rt (doc_settings d) seg nl b qp (SDotAdd n)) ->
  first_matched_at rt d (g :: half_index nl :: q1) c1 x ->
  first_matched_at rt d (g :: half_index nl :: q2) c2 y ->
  let st' := exec_script env senv ext final (wo_script w) (init_state u) in
  ~ In (LForwardRef (part_name seg nl)) (l_errors st') ->
  placed_in_order (l_placed st') (part_name seg nl) x y (Z.of_N n).
Proof. exact document_order_pad. Qed.

Theorem C02_document_order_pad_layout : forall d rt w u ext0 g seg nl q1 qp q2 c1 c2 x y n,
  gen_normal d rt = Ok w -> single_segment_mode (doc_settings d) = false ->
  Forall (fun z => 0 <= u_size z) u -> In x u -> In y u ->
  nth_error (included rt (doc_segments d)) g = Some seg ->
  lex_lt q1 qp -> lex_lt qp q2 ->
  (exists b, doc_base rt d seg b /\ BodyAt rt (doc_settings d) seg nl b qp (SDotAdd n)) ->
  first_matched_at rt d (g :: half_index nl :: q1) c1 x ->
  first_matched_at rt d (g :: half_index nl :: q2) c2 y ->
  let st' := layout (wo_script w) u ext0 in
  ~ In (LForwardRef (part_name seg nl)) (l_errors st') ->
  placed_in_order (l_placed st') (part_name seg nl) x y (Z.of_N n).
Proof. exact document_order_pad_layout. Qed.

(* allocatable before noload: [x] first matched in half 0, [y] in half 1 of the same segment; hypotheses
   of C01_document_in_segment_range and pairwise different markers.  Then x is placed in .seg, y in
   .seg.noload, and addr(x) + size(x) <= addr(y) *)
Theorem C02_document_order_halves : forall env senv ext final d rt w u g seg q1 q2 c1 c2 x y,
  gen_normal d rt = Ok w -> doc_link_wf d rt = true -> doc_outsecs_fresh d rt = true ->
  Forall (fun z => 0 <= u_size z) u -> NoDup (map u_marker u) -> In x u -> In y u ->
  nth_error (included rt (doc_segments d)) g = Some seg ->
  first_matched_at rt d (g :: 0%nat :: q1) c1 x ->
  first_matched_at rt d (g :: 1%nat :: q2) c2 y ->
  let st' := exec_script env senv ext final (wo_script w) (init_state u) in
  (forall s, In s (included rt (doc_segments d)) -> ~ In (LForwardRef (alloc_name s)) (l_errors st')) ->
  exists px py,
    In px (l_placed st') /\ pl_marker px = u_marker x /\ pl_outsec px = alloc_name seg /\
    In py (l_placed st') /\ pl_marker py = u_marker y /\ pl_outsec py = noload_name seg /\
    pl_addr px + u_size x <= pl_addr py.
Proof. exact document_order_halves. Qed.

Theorem C02_document_order_halves_layout : forall d rt w u ext0 g seg q1 q2 c1 c2 x y,
  gen_normal d rt = Ok w -> doc_link_wf d rt = true -> doc_outsecs_fresh d rt = true ->
  Forall (fun z => 0 <= u_size z) u -> NoDup (map u_marker u) -> In x u -> In y u ->
  nth_error (included rt (doc_segments d)) g = Some seg ->
  first_matched_at rt d (g :: 0%nat :: q1) c1 x ->
  first_matched_at rt d (g :: 1%nat :: q2) c2 y ->
  let st' := layout (wo_script w) u ext0 in
  (forall s, In s (included rt (doc_segments d)) -> ~ In (LForwardRef (alloc_name s)) (l_errors st')) ->
  exists px py,
    In px (l_placed st') /\ pl_marker px = u_marker x /\ pl_outsec px = alloc_name seg /\
    In py (l_placed st') /\ pl_marker py = u_marker y /\ pl_outsec py = noload_name seg /\
    pl_addr px + u_size x <= pl_addr py.
Proof. exact document_order_halves_layout. Qed.

(* where the input section first matched at a position goes *)
Theorem C02_document_first_matched_placed : forall env senv ext final d rt w u g seg nl q c x,
  gen_normal d rt = Ok w -> single_segment_mode (doc_settings d) = false -> In x u ->
  nth_error (included rt (doc_segments d)) g = Some seg ->
  first_matched_at rt d (g :: half_index nl :: q) c x ->
  let st' := exec_script env senv ext final (wo_script w) (init_state u) in
  ~ In (LForwardRef (part_name seg nl)) (l_errors st') ->
  placed_at st' x (part_name seg nl).
Proof. exact document_first_matched_placed. Qed.

(* ====================================================================== *)
(* 5. establishing the hypotheses                                          *)
(* ====================================================================== *)

(* [first_matched_at] from the script: the statement [c] is not written again after its first
   occurrence and no statement before it matches [x]; then [x] is first matched at the (only) document
   position of [c] *)
Theorem C02_first_matched_once : forall rt d w pos c x pre post,
  gen_normal d rt = Ok w -> single_segment_mode (doc_settings d) = false ->
  ClaimAt rt d pos c -> claim_matches c x = true ->
  script_claims (wo_script w) = (pre ++ c :: post)%list -> unclaimed pre x = true -> ~ In c post ->
  first_matched_at rt d pos c x.
Proof. exact first_matched_once. Qed.

Theorem C02_unclaimed_spec : forall pre x,
  unclaimed pre x = true <-> forall c, In c pre -> claim_matches c x = false.
Proof. exact unclaimed_spec. Qed.

(* every position has at least the five indices segment, half, section, entry, section of the expansion *)
Theorem C02_claim_at_shape : forall rt d pos c,
  ClaimAt rt d pos c -> exists g h i j m r, pos = g :: h :: i :: j :: m :: r.
Proof. exact claim_at_shape. Qed.

(* an entry without section_order asked for a section without sub-group: the expansion is the section *)
Theorem C02_expands_plain : forall cfg seg sections f section,
  fi_section_order f = [] -> entry_members cfg seg f section = [] ->
  Expands cfg seg sections f section [section].
Proof. exact expands_plain. Qed.

(* the position of the statement of a plain entry at the top of the file list / inside a top-level group *)
Theorem C02_claim_at_top : forall rt d g seg nl b i section j f kp path member wild,
  nth_error (included rt (doc_segments d)) g = Some seg -> doc_base rt d seg b ->
  nth_error (part_sections seg nl) i = Some section -> nth_error (sg_files seg) j = Some f ->
  fi_section_order f = [] -> entry_members cfg_normal seg f section = [] ->
  should_emit rt (fi_conds f) = true -> fi_kind f <> KGroup ->
  In (SInput kp path member section wild)
     (own_stmts rt (linker_symbols_style (doc_settings d)) seg f section b) ->
  ClaimAt rt d [g; half_index nl; i; j; 0%nat] (CInput (part_name seg nl) path member section wild).
Proof. exact claim_at_top. Qed.

Theorem C02_claim_at_in_group : forall rt d g seg nl b i section j grp dd j2 f kp path member wild,
  nth_error (included rt (doc_segments d)) g = Some seg -> doc_base rt d seg b ->
  nth_error (part_sections seg nl) i = Some section -> nth_error (sg_files seg) j = Some grp ->
  fi_section_order grp = [] -> should_emit rt (fi_conds grp) = true -> fi_kind grp = KGroup ->
  escape_path rt (fi_dir grp) = Ok dd -> nth_error (fi_files grp) j2 = Some f ->
  fi_section_order f = [] -> entry_members cfg_normal seg f section = [] ->
  should_emit rt (fi_conds f) = true -> fi_kind f <> KGroup ->
  In (SInput kp path member section wild)
     (own_stmts rt (linker_symbols_style (doc_settings d)) seg f section (push b dd)) ->
  ClaimAt rt d [g; half_index nl; i; j; 0%nat; j2; 0%nat] (CInput (part_name seg nl) path member section wild).
Proof. exact claim_at_in_group. Qed.

(* ====================================================================== *)
(* examples: segment boot of dl_doc                                        *)
(* ====================================================================== *)

(* file list of boot: 0 boot.o; 1 group lib [0 libc.a:mem.o; 1 util.o]; 2 pad 16 in .data;
   3 linker offset in .text; 4 boot.o again.  Sections of half 0: .text, .data, .sdata; half 1: .bss *)

Local Close Scope Z_scope.

(* positions: boot.o(.text) at [0;0;0;0;0] and again at [0;0;0;4;0]; util.o(.text) at [0;0;0;1;0;1;0];
   util.o(.data) at [0;0;1;1;0;1;0]; util.o(.sdata) at [0;0;2;1;0;1;0]; util.o(.bss) at [0;1;0;1;0;1;0];
   the pad at [1;2;0] of the body of half 0 *)
Example C02_positions_example :
  ClaimAt ex_rt dl_doc [0; 0; 0; 0; 0] (CInput ".boot" "build/src/boot.o" None ".text" true) /\
  ClaimAt ex_rt dl_doc [0; 0; 0; 4; 0] (CInput ".boot" "build/src/boot.o" None ".text" true) /\
  ClaimAt ex_rt dl_doc [0; 0; 0; 1; 0; 1; 0] (CInput ".boot" "build/src/lib/util.o" None ".text" true) /\
  ClaimAt ex_rt dl_doc [0; 0; 1; 1; 0; 1; 0] (CInput ".boot" "build/src/lib/util.o" None ".data" true) /\
  ClaimAt ex_rt dl_doc [0; 0; 2; 1; 0; 1; 0] (CInput ".boot" "build/src/lib/util.o" None ".sdata" true) /\
  ClaimAt ex_rt dl_doc [0; 1; 0; 1; 0; 1; 0] (CInput ".boot.noload" "build/src/lib/util.o" None ".bss" true) /\
  BodyAt ex_rt (doc_settings dl_doc) dl_seg_boot false "build/src" [1; 2; 0] (SDotAdd 16).
Proof. exact ex_positions. Qed.

(* boot_text is first matched at the very first position (nothing is before it) *)
Example C02_first_boot_text_example :
  first_matched_at ex_rt dl_doc [0; 0; 0; 0; 0] (CInput ".boot" "build/src/boot.o" None ".text" true) ord_boot_text.
Proof. exact ex_first_boot_text. Qed.

(* the statements of util.o are written once; read off the script (C02_first_matched_once): nothing
   before them matches *)
Example C02_first_util_example :
  first_matched_at ex_rt dl_doc [0; 0; 0; 1; 0; 1; 0] (CInput ".boot" "build/src/lib/util.o" None ".text" true) ord_util_text /\
  first_matched_at ex_rt dl_doc [0; 0; 1; 1; 0; 1; 0] (CInput ".boot" "build/src/lib/util.o" None ".data" true) ord_util_data /\
  first_matched_at ex_rt dl_doc [0; 0; 2; 1; 0; 1; 0] (CInput ".boot" "build/src/lib/util.o" None ".sdata" true) ord_util_sdata /\
  first_matched_at ex_rt dl_doc [0; 1; 0; 1; 0; 1; 0] (CInput ".boot.noload" "build/src/lib/util.o" None ".bss" true) ord_util_bss.
Proof. exact ex_first_util. Qed.

Local Open Scope Z_scope.

(* boot.o before lib/util.o in the file list of boot, section group .text: boot_text ends at or before
   the start of util_text *)
Example C02_document_order_example :
  exists w, gen_normal dl_doc ex_rt = Ok w /\
    placed_in_order (l_placed (layout (wo_script w) ord_universe [("main", 5)])) ".boot" ord_boot_text ord_util_text 0.
Proof. exact ex_order. Qed.

(* section .data before section .sdata, the pad of 16 in between (after lib in the .data group):
   util_sdata starts at least 16 after the end of util_data: 84 + 6 + 16 <= 108 *)
Example C02_document_order_pad_example :
  exists w, gen_normal dl_doc ex_rt = Ok w /\
    placed_in_order (l_placed (layout (wo_script w) ord_universe [("main", 5)])) ".boot" ord_util_data ord_util_sdata 16.
Proof. exact ex_order_pad. Qed.

(* allocatable before noload: util_sdata (.boot) ends at or before the start of util_bss (.boot.noload) *)
Example C02_document_order_halves_example :
  exists w, gen_normal dl_doc ex_rt = Ok w /\
    exists px py, let st' := layout (wo_script w) ord_universe [("main", 5)] in
      In px (l_placed st') /\ pl_marker px = "util_sdata" /\ pl_outsec px = ".boot" /\
      In py (l_placed st') /\ pl_marker py = "util_bss" /\ pl_outsec py = ".boot.noload" /\
      pl_addr px + 4 <= pl_addr py.
Proof. exact ex_order_halves. Qed.

(* ====================================================================== *)
(* KNOWN FINDING: "first matched" is needed                                *)
(* ====================================================================== *)

(* the reading without "no earlier statement takes it" ([document_order_naive]: x matched by the statement
   at q1, y matched by the one at a later q2) is FALSE of the model.  boot lists boot.o twice: util.o
   ([0;1;0;1;0] in group .text) comes BEFORE the second boot.o ([0;4;0]), whose statement matches boot_text
   - but boot_text was taken by the first boot.o statement and sits at 0, below util_text at 52: the
   second statement places nothing *)
Theorem C02_refuted_naive_order : ~ document_order_naive.
Proof. exact refuted_naive_order. Qed.

Print Assumptions C02_taken_by_spec.
Print Assumptions C02_claim_blocks_claims.
Print Assumptions C02_placements_follow_claims.
Print Assumptions C02_placements_follow_claims_layout.
Print Assumptions C02_claims_order_placed.
Print Assumptions C02_same_outsec_addresses.
Print Assumptions C02_same_outsec_addresses_layout.
Print Assumptions C02_dot_adds_nonneg.
Print Assumptions C02_dot_adds_in.
Print Assumptions C02_document_claims_enumerated.
Print Assumptions C02_enumerated_split.
Print Assumptions C02_half_enumerated.
Print Assumptions C02_files_enumerated.
Print Assumptions C02_expands_functional.
Print Assumptions C02_document_order.
Print Assumptions C02_document_order_layout.
Print Assumptions C02_document_order_pad.
Print Assumptions C02_document_order_pad_layout.
Print Assumptions C02_document_order_halves.
Print Assumptions C02_document_order_halves_layout.
Print Assumptions C02_document_first_matched_placed.
Print Assumptions C02_first_matched_once.
Print Assumptions C02_unclaimed_spec.
Print Assumptions C02_claim_at_shape.
Print Assumptions C02_expands_plain.
Print Assumptions C02_claim_at_top.
Print Assumptions C02_claim_at_in_group.
Print Assumptions C02_refuted_naive_order.
Print Assumptions C02_blocks_example.
Print Assumptions C02_blocks_hypothesis_example.
Print Assumptions C02_pad_example.
Print Assumptions C02_positions_example.
Print Assumptions C02_first_boot_text_example.
Print Assumptions C02_first_util_example.
Print Assumptions C02_document_order_example.
Print Assumptions C02_document_order_pad_example.
Print Assumptions C02_document_order_halves_example.
