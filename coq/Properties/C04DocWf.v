(* C04DocWf (DocWf) - which DOCUMENTS meet [doc_link_wf], the hypothesis of the document-level link theorems
   (Properties/DocLevel.v).  Only statements, each closed by [exact]; see Proofs/DocWf.v.

   [doc_link_wf d rt] is computed from the generated statements.  [doc_names_distinct d rt]
   (Spec/DocWf.v) is computed from the document alone: multi-segment mode; the list
   [doc_named_symbols d rt] - __romPos, the start/end symbols of the classes in use, for every included
   segment its ROM/VRAM symbols, the symbols of its two kinds and of every section of its lists and
   the linker offsets of its files (counted as emit_section_for_file visits them: section_order,
   sub-groups, groups, conditions), the size symbols of the classes in use, the user's own symbol
   assignments whose conditions hold - has no repetition and does not contain "."; when slinky
   defines _gp (hard-coded value or gp_info) nothing else is called _gp; the output-section names
   .X / .X.noload of the included segments are pairwise different; no included segment lists a section
   twice. *)
From Slinky Require Import Model.Types Model.Runtime Model.Style Model.Script Model.Writer Model.LdSem.
From Slinky Require Import Spec.C18 Spec.C04 Spec.DocLevel Spec.DocWf.
From Slinky Require Import Proofs.DocWf.
Local Open Scope string_scope.

(* the document-side condition implies the statement-side one *)
Theorem DocWf_sufficient : forall d rt w,
  gen_normal d rt = Ok w -> doc_names_distinct d rt = true -> doc_link_wf d rt = true.
Proof. exact docwf_sufficient. Qed.

(* what [doc_symbols] is: in the script of gen_normal (multi-segment mode), at any depth, the number
   of "x = value" statements (SAssign) that define [x] is the number of occurrences of [x] in
   [doc_symbols d rt]; the other statements that change a symbol (x = ALIGN(x, n), x = MAX(x, y),
   __romPos += SIZEOF(s)) only concern ".", "__romPos" and the start/end symbols of the classes in
   use, which are in [doc_symbols d rt] *)
Theorem DocWf_symbols_count : forall d rt w,
  gen_normal d rt = Ok w -> single_segment_mode (doc_settings d) = false ->
  (forall x, defs x (wo_script w) = count_occ string_dec (doc_symbols d rt) x) /\
  incl (upds (wo_script w))
       ("." :: "__romPos" :: class_symbols (linker_symbols_style (doc_settings d)) (used_classes rt (doc_segments d))).
Proof. exact script_symbols. Qed.

(* ---------- examples ---------- *)

(* the sample document of Spec/DocLevel.v (three included segments, one class, a hard-coded _gp and a
   gp_info, linker offsets, a user assignment) meets the hypotheses of DocWf_sufficient *)
Example ex_dl_doc_generates : is_ok (gen_normal dl_doc ex_rt) = true.
Proof. vm_compute. reflexivity. Qed.

Example ex_dl_doc_names_distinct : doc_names_distinct dl_doc ex_rt = true.
Proof. vm_compute. reflexivity. Qed.

(* Splat style: segment "a" with section ".B_C" and segment "a_B" with section ".C" both define
   a_B_C_START, a_B_C_END, a_B_C_SIZE *)
Example ex_clash_not_distinct : doc_names_distinct clash_doc ex_rt = false /\ doc_link_wf clash_doc ex_rt = false.
Proof. vm_compute. split; reflexivity. Qed.

(* two segments of the same name *)
Example ex_twice_not_distinct : doc_names_distinct twice_doc ex_rt = false /\ doc_link_wf twice_doc ex_rt = false.
Proof. vm_compute. split; reflexivity. Qed.

(* the condition is sufficient, not necessary: a linker offset that a sub-group makes slinky define
   twice (mid_OFFSET, in the groups of .text and of .rodata) is a repetition of doc_symbols, which
   doc_link_wf does not look at *)
Example ex_subgroup_offset_twice :
  count_occ string_dec (doc_symbols subgroup_doc ex_rt) "mid_OFFSET" = 2 /\
  doc_names_distinct subgroup_doc ex_rt = false /\ doc_link_wf subgroup_doc ex_rt = true.
Proof. vm_compute. repeat split; reflexivity. Qed.

Print Assumptions DocWf_sufficient.
Print Assumptions DocWf_symbols_count.
