(* C17DocSingle - the gp_info case of C17 ("_gp is defined ... as the start of the named section group of
   that segment (after its start alignment) plus offset, with the requested PROVIDE/HIDDEN wrapping") over
   a whole generated script in SINGLE-SEGMENT mode.  Properties/C17Doc.v proves it for multi-segment mode
   (C17_document_gp); its sections 1-3 and the hard-coded value (C17_document_gp_hardcoded,
   C17_document_gp_count, C17_document_gp_undefined) already hold for both modes.
   Only statements, each closed by [exact]; see Proofs/ModesListed.v (section 5).

   In single-segment mode the gp statement "_gp = . + 0x<offset>" is a TOP-LEVEL statement, directly before
   "seg_SEC_START = ." and after the start alignments of the section, where "." is an absolute address; the
   output sections have no address expression, so there is no error condition. *)
From Slinky Require Import Model.Types Model.Runtime Model.Style Model.Script Model.Writer Model.LdSem.
From Slinky Require Import Spec.C18 Spec.C17 Spec.C04 Spec.C12 Spec.DocLevel Spec.C01Doc Spec.C17Doc Spec.DocSingle.
From Slinky Require Import Proofs.ModesListed.
From Coq Require Import ZArith.
Local Open Scope string_scope.
Local Open Scope Z_scope.

(* a well-formed single-segment document (doc_single_wf, Spec/DocSingle.v: single-segment mode, one segment
   [seg], distinct section names, the three symbols of each section assigned once by the script including
   the user's statements); an included gp_info [g] of [seg] naming its section [sec] ([GpHere]); no included
   user assignment named _gp; PROVIDE only if the objects do not define _gp.  A hard-coded value may be
   present: it comes first and is overridden.  From ANY starting state, at the end of the pass:
   _gp = START + (offset mod 2^32), START being the value of seg_SEC_START - which is START + offset
   modulo 2^32 *)
Theorem C17_single_document_gp : forall env senv ext final d rt w st seg sec g,
  gen_normal d rt = Ok w -> doc_single_wf d rt = true -> doc_segments d = [seg] ->
  In sec (seg_sections seg) -> GpHere rt seg sec g ->
  (gp_provide g && is_some (lookup "_gp" ext))%bool = false ->
  user_gp rt d = 0%nat ->
  let sty := linker_symbols_style (doc_settings d) in
  let st' := exec_script env senv ext final (wo_script w) st in
  exists S,
    val st' (segment_section_start sty (sg_name seg) sec) = Some S /\
    val st' "_gp" = Some (S + gp_offset g mod 4294967296) /\
    (S + gp_offset g mod 4294967296) mod 4294967296 = (S + gp_offset g) mod 4294967296.
Proof. exact single_document_gp. Qed.

Theorem C17_single_document_gp_layout : forall d rt w u ext0 seg sec g,
  gen_normal d rt = Ok w -> doc_single_wf d rt = true -> doc_segments d = [seg] ->
  In sec (seg_sections seg) -> GpHere rt seg sec g ->
  (gp_provide g && is_some (lookup "_gp" (last_ext (wo_script w) u ext0)))%bool = false ->
  user_gp rt d = 0%nat ->
  let sty := linker_symbols_style (doc_settings d) in
  let st' := layout (wo_script w) u ext0 in
  exists S,
    val st' (segment_section_start sty (sg_name seg) sec) = Some S /\
    val st' "_gp" = Some (S + gp_offset g mod 4294967296) /\
    (S + gp_offset g mod 4294967296) mod 4294967296 = (S + gp_offset g) mod 4294967296.
Proof. exact single_document_gp_layout. Qed.

(* the same with the condition on the script itself: besides the hard-coded value (if any) exactly one
   statement assigns _gp *)
Theorem C17_single_document_gp_counted : forall env senv ext final d rt w st seg sec g,
  gen_normal d rt = Ok w -> doc_single_wf d rt = true -> doc_segments d = [seg] ->
  In sec (seg_sections seg) -> GpHere rt seg sec g ->
  (gp_provide g && is_some (lookup "_gp" ext))%bool = false ->
  count_assigns "_gp" (wo_script w) = (hardcoded_count (doc_settings d) + 1)%nat ->
  let sty := linker_symbols_style (doc_settings d) in
  let st' := exec_script env senv ext final (wo_script w) st in
  exists S,
    val st' (segment_section_start sty (sg_name seg) sec) = Some S /\
    val st' "_gp" = Some (S + gp_offset g mod 4294967296) /\
    (S + gp_offset g mod 4294967296) mod 4294967296 = (S + gp_offset g) mod 4294967296.
Proof. exact single_document_gp_counted. Qed.

(* the generic statement behind them: ANY add_single_segment with section symbols (any writer state),
   followed by any statements [tl], from any state *)
Theorem C17_single_body_gp : forall env senv ext final rt stg cfg classes seg ws s1 ws1 s2 ws' tl st0 sec g,
  section_syms cfg = true ->
  write_single_segment rt stg cfg seg (alloc_sections seg) false ws = Ok (s1, ws1) ->
  write_single_segment rt stg cfg seg (noload_sections seg) true ws1 = Ok (s2, ws') ->
  In sec (seg_sections seg) -> GpHere rt seg sec g ->
  (gp_provide g && is_some (lookup "_gp" ext))%bool = false ->
  let sty := linker_symbols_style stg in
  let START := segment_section_start sty (sg_name seg) sec in
  let body := single_sections_body stg cfg classes seg s1 s2 ws' in
  count_assigns "_gp" (body ++ tl) = (hardcoded_count stg + 1)%nat ->
  count_assigns START (body ++ tl) = 1%nat ->
  let st' := run env senv ext final (body ++ tl) st0 in
  exists S, val st' START = Some S /\ val st' "_gp" = Some (S + gp_offset g mod 4294967296).
Proof. exact single_body_gp. Qed.

(* the two statements at the top level: _gp = . + 0x<offset as u32>, then START = . *)
Theorem C17_top_gp_value : forall env senv ext final st p h off START,
  (p && is_some (lookup "_gp" ext))%bool = false -> START <> "_gp" -> String.eqb START "." = false ->
  let st' := run env senv ext final [SAssign p h false "_gp" (EDotPlus off); linker_symbol START EDot] st in
  lookup START (l_syms st') = Some (l_dot st) /\
  lookup "_gp" (l_syms st') = Some (l_dot st + off mod 4294967296).
Proof. exact top_gp_value. Qed.

(* ds_doc (Spec/DocSingle.v): single-segment mode, hard-coded value 0x80008000 AND gp_info
   {.sdata, 0x7FF0, PROVIDE} on the segment main; the objects do not define _gp.  The hypotheses hold; a
   full link gives main_SDATA_START = 2147484768 and _gp = 2147484768 + 0x7FF0: the gp_info statement
   overrides the hard-coded value *)
Example C17_single_document_gp_ex :
  (exists w, gen_normal ds_doc ex_rt = Ok w) /\ doc_single_wf ds_doc ex_rt = true /\
  doc_segments ds_doc = [ds_segment] /\ In ".sdata" (seg_sections ds_segment) /\
  GpHere ex_rt ds_segment ".sdata" ex_gp /\
  lookup "_gp" (last_ext ds_script ds_universe [("main", 5)]) = None /\
  user_gp ex_rt ds_doc = 0%nat /\ hardcoded_count (doc_settings ds_doc) = 1%nat /\
  count_assigns "_gp" ds_script = 2%nat /\
  l_errors (layout ds_script ds_universe [("main", 5)]) = [] /\
  val (layout ds_script ds_universe [("main", 5)]) "main_SDATA_START" = Some 2147484768 /\
  val (layout ds_script ds_universe [("main", 5)]) "_gp" = Some (2147484768 + 32752).
Proof.
  split; [eexists; vm_compute; reflexivity|]. split; [vm_compute; reflexivity|].
  split; [reflexivity|]. split; [vm_compute; tauto|]. split; [repeat split|].
  repeat split; vm_compute; reflexivity.
Qed.

Print Assumptions C17_single_document_gp.
Print Assumptions C17_single_document_gp_layout.
Print Assumptions C17_single_document_gp_counted.
Print Assumptions C17_single_body_gp.
Print Assumptions C17_top_gp_value.
Print Assumptions C17_single_document_gp_ex.
