(* C09 - translator obligations: ALIGN and SUBALIGN texts *)
From Slinky Require Import Model.Types Model.Generated Model.Style Model.Script Proofs.TablesC09.
Local Open Scope string_scope.

Theorem C09_tables_align : forall ind sym n,
  render_stmt ind (SAlign sym n) = [indent_str ind ++ fmt t_sb_align_symbol_0 [sym; sym; hex_of_N n]].
Proof. exact sb_align. Qed.

Theorem C09_tables_header_single : forall sect noload sub,
  render_header sect None None noload sub =
  fmt t_lw_write_single_segment_0 [sect; if noload then " (NOLOAD)" else ""] ++
  match sub with Some n => fmt t_lw_write_single_segment_1 [dec_of_N n] | None => "" end.
Proof. exact lw_header_single. Qed.

Print Assumptions C09_tables_align.
Print Assumptions C09_tables_header_single.
