(* C09 - translator obligations: ALIGN and SUBALIGN texts *)
From Slinky Require Import Model.Types Model.Generated Model.Style Model.Script Proofs.Tables.
Local Open Scope string_scope.

Theorem C09_tables_align : forall ind sym n,
  render_stmt ind (SAlign sym n) = [indent_str ind ++ fmt (tpl fmt_sb 5) [sym; sym; hex_of_N n]].
Proof. exact sb_align. Qed.

Theorem C09_tables_header_single : forall sect noload sub,
  render_header sect None None noload sub =
  fmt (tpl fmt_lw 25) [sect; if noload then " (NOLOAD)" else ""] ++
  match sub with Some n => fmt (tpl fmt_lw 26) [dec_of_N n] | None => "" end.
Proof. exact lw_header_single. Qed.

Print Assumptions C09_tables_align.
Print Assumptions C09_tables_header_single.
