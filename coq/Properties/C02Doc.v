(* C02Doc - the link-level half of C02 over a whole generated document (multi-segment mode):
   "After linking, the addresses of the placed input sections never decrease along exactly that order
   within each segment, and ROM positions never decrease in segment order."
   Only statements, each closed by [exact]; see Proofs/C01Doc.v, definitions in Spec/C01Doc.v.
   Hypotheses as in Properties/DocLevel.v: the generator succeeds, [doc_link_wf d rt], no negative
   size in the object universe, no LForwardRef for the allocatable section of an included segment;
   for the statements about placements also [doc_outsecs_fresh d rt]: no included segment is called
   like an entry of sections_allowlist / sections_allowlist_extra (C02_refuted_allowlist_name).
   Conclusions hold for every pass [exec_script env senv ext final (wo_script w) (init_state u)],
   hence for [layout] (the [_layout] corollaries). *)
From Slinky Require Import Model.Types Model.Runtime Model.Style Model.Script Model.Writer Model.LdSem.
From Slinky Require Import Spec.C18 Spec.C04 Spec.C09 Spec.DocLevel Spec.C01Doc.
From Slinky Require Import Proofs.C01Doc.
From Coq Require Import ZArith.
Local Open Scope string_scope.
Local Open Scope Z_scope.

(* ====================================================================== *)
(* 1. ROM positions never decrease in segment order                        *)
(* ====================================================================== *)

(* for the included segments s_1..s_n in document order, in the state at the end of the pass
   (RomMonotone, started at 0):
   0 <= ROM_START(s_1) <= ROM_END(s_1) <= ROM_START(s_2) <= ... <= ROM_END(s_n) = __romPos,
   and ROM_SIZE = ROM_END - ROM_START for each *)
Theorem C02_document_rom_monotone : forall env senv ext final d rt w u,
  gen_normal d rt = Ok w -> doc_link_wf d rt = true ->
  Forall (fun x => 0 <= u_size x) u ->
  let sty := linker_symbols_style (doc_settings d) in
  let segs := included rt (doc_segments d) in
  let st' := exec_script env senv ext final (wo_script w) (init_state u) in
  (forall seg, In seg segs -> ~ In (LForwardRef (alloc_name seg)) (l_errors st')) ->
  RomMonotone sty st' 0 segs.
Proof. exact document_rom_monotone. Qed.

Theorem C02_document_rom_monotone_layout : forall d rt w u ext0,
  gen_normal d rt = Ok w -> doc_link_wf d rt = true ->
  Forall (fun x => 0 <= u_size x) u ->
  let sty := linker_symbols_style (doc_settings d) in
  let segs := included rt (doc_segments d) in
  let st' := layout (wo_script w) u ext0 in
  (forall seg, In seg segs -> ~ In (LForwardRef (alloc_name seg)) (l_errors st')) ->
  RomMonotone sty st' 0 segs.
Proof. exact document_rom_monotone_layout. Qed.

(* any two included segments, [a] before [b] in document order:
   0 <= ROM_START(a) <= ROM_END(a) <= ROM_START(b) *)
Theorem C02_document_rom_pairwise : forall env senv ext final d rt w u l1 a l2 b l3,
  gen_normal d rt = Ok w -> doc_link_wf d rt = true ->
  Forall (fun x => 0 <= u_size x) u ->
  let sty := linker_symbols_style (doc_settings d) in
  let st' := exec_script env senv ext final (wo_script w) (init_state u) in
  included rt (doc_segments d) = (l1 ++ a :: l2 ++ b :: l3)%list ->
  (forall seg, In seg (included rt (doc_segments d)) -> ~ In (LForwardRef (alloc_name seg)) (l_errors st')) ->
  exists sa ea sb,
    val st' (segment_rom_start sty (sg_name a)) = Some sa /\
    val st' (segment_rom_end sty (sg_name a)) = Some ea /\
    val st' (segment_rom_start sty (sg_name b)) = Some sb /\
    0 <= sa /\ sa <= ea /\ ea <= sb.
Proof. exact document_rom_pairwise. Qed.

(* ====================================================================== *)
(* 2. addresses never decrease within a segment                            *)
(* ====================================================================== *)

(* l_placed is kept in placement order (every statement appends to it), so [placed_in n st'] lists the
   placements of output section n in the order the script made them.  For every included segment
   (VramOrderWithin): the addresses of the placements of .seg never decrease along that order, nor do
   those of .seg.noload, and every placement of .seg.noload is at or after every placement of .seg. *)
Theorem C02_document_vram_order_within_segment : forall env senv ext final d rt w u seg,
  gen_normal d rt = Ok w -> doc_link_wf d rt = true -> doc_outsecs_fresh d rt = true ->
  Forall (fun x => 0 <= u_size x) u ->
  In seg (included rt (doc_segments d)) ->
  let st' := exec_script env senv ext final (wo_script w) (init_state u) in
  (forall s, In s (included rt (doc_segments d)) -> ~ In (LForwardRef (alloc_name s)) (l_errors st')) ->
  VramOrderWithin st' seg.
Proof. exact document_vram_order. Qed.

Theorem C02_document_vram_order_within_segment_layout : forall d rt w u ext0 seg,
  gen_normal d rt = Ok w -> doc_link_wf d rt = true -> doc_outsecs_fresh d rt = true ->
  Forall (fun x => 0 <= u_size x) u ->
  In seg (included rt (doc_segments d)) ->
  let st' := layout (wo_script w) u ext0 in
  (forall s, In s (included rt (doc_segments d)) -> ~ In (LForwardRef (alloc_name s)) (l_errors st')) ->
  VramOrderWithin st' seg.
Proof. exact document_vram_order_layout. Qed.

(* the order inside each of the two output sections needs the error condition for THIS segment only *)
Theorem C02_document_vram_order_sections : forall env senv ext final d rt w u seg,
  gen_normal d rt = Ok w -> doc_link_wf d rt = true -> doc_outsecs_fresh d rt = true ->
  Forall (fun x => 0 <= u_size x) u ->
  In seg (included rt (doc_segments d)) ->
  let st' := exec_script env senv ext final (wo_script w) (init_state u) in
  ~ In (LForwardRef (alloc_name seg)) (l_errors st') ->
  nondecreasing (map pl_addr (placed_in (alloc_name seg) st')) /\
  nondecreasing (map pl_addr (placed_in (noload_name seg) st')).
Proof. exact document_vram_order_sections. Qed.

(* ====================================================================== *)
(* examples                                                                *)
(* ====================================================================== *)

(* the document of Spec/DocLevel.v (three included segments) meets the hypotheses *)
Example ex_c02doc_hypotheses :
  doc_link_wf dl_doc ex_rt = true /\ doc_outsecs_fresh dl_doc ex_rt = true /\
  (exists w, gen_normal dl_doc ex_rt = Ok w) /\
  map sg_name (included ex_rt (doc_segments dl_doc)) = ["boot"; "ovl_a"; "ovl_b"] /\
  Forall (fun x => 0 <= u_size x) dl_universe /\
  l_errors (layout dl_script dl_universe [("main", 5)]) = [].
Proof.
  split; [vm_compute; reflexivity|]. split; [vm_compute; reflexivity|].
  split; [eexists; vm_compute; reflexivity|]. split; [vm_compute; reflexivity|].
  split; [repeat constructor; vm_compute; discriminate | vm_compute; reflexivity].
Qed.

(* ... and the values: ROM 0 <= 0 <= 68 <= 80 <= 104 <= 112 <= 176 = __romPos; the placements of each
   output section in placement order *)
Example ex_c02doc_link :
  let st := layout dl_script dl_universe [("main", 5)] in
  map (val st) ["boot_ROM_START"; "boot_ROM_END"; "ovl_a_ROM_START"; "ovl_a_ROM_END";
                "ovl_b_ROM_START"; "ovl_b_ROM_END"; "__romPos"] =
    [Some 0; Some 68; Some 80; Some 104; Some 112; Some 176; Some 176] /\
  map (fun p => (pl_marker p, pl_addr p)) (placed_in ".boot" st) = [("boot_text", 0); ("boot_data", 40)] /\
  map (fun p => (pl_marker p, pl_addr p)) (placed_in ".boot.noload" st) = [("boot_bss", 72)] /\
  map (fun p => (pl_marker p, pl_addr p)) (placed_in ".ovl_b" st) =
    [("b_text", 2148532224); ("b_data", 2148532272)] /\
  map (fun p => (pl_marker p, pl_addr p)) (placed_in ".ovl_b.noload" st) = [("b_bss", 2148532288)].
Proof. vm_compute. repeat split; reflexivity. Qed.

(* ====================================================================== *)
(* KNOWN FINDING                                                           *)
(* ====================================================================== *)

(* without doc_outsecs_fresh the statement about placements is FALSE of the model: a segment called
   "mdebug" while ".mdebug" is in sections_allowlist.  The document passes doc_link_wf and links
   without error, the script has two output sections called .mdebug (the segment's, then
   ".mdebug 0 : { *(.mdebug) }" in the tail of SECTIONS), and the placements whose output section is
   ".mdebug" go DOWN from the segment's address to 0 *)
Theorem C02_refuted_allowlist_name :
  doc_link_wf clash_doc ex_rt = true /\ doc_outsecs_fresh clash_doc ex_rt = false /\
  exists w, gen_normal clash_doc ex_rt = Ok w /\
    let st := layout (wo_script w) clash_universe [] in
    l_errors st = [] /\
    map (fun p => (pl_marker p, pl_addr p)) (placed_in ".mdebug" st) =
      [("a_text", 2148532224); ("z_mdebug", 0)] /\
    map (fun o => (os_name o, os_vma o, os_size o)) (firstn 3 (l_secs st)) =
      [(".mdebug", 2148532224, 24); (".mdebug.noload", 2148532248, 0); (".mdebug", 0, 8)].
Proof. exact refuted_allowlist_name. Qed.

Print Assumptions C02_document_rom_monotone.
Print Assumptions C02_document_rom_monotone_layout.
Print Assumptions C02_document_rom_pairwise.
Print Assumptions C02_document_vram_order_within_segment.
Print Assumptions C02_document_vram_order_within_segment_layout.
Print Assumptions C02_document_vram_order_sections.
Print Assumptions C02_refuted_allowlist_name.
