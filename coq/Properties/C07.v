(* C07 - Emitted paths are base/dir/group dirs/path with every {key} replaced, or error.
   Only statements, each closed by [exact]; see Spec/C07.v and Proofs/C07.v. *)
From Slinky Require Import Model.Types Model.Runtime Model.Script Model.Writer Model.Exports Spec.C07 Proofs.C07.
Local Open Scope string_scope.

(* ---------- one component: the relation [Subst] is a specification ---------- *)

Theorem C07_subst_functional : forall rt orig s r1 r2,
  Subst rt orig s r1 -> Subst rt orig s r2 -> r1 = r2.
Proof. exact Subst_functional. Qed.

Theorem C07_subst_total : forall rt orig s, exists r, Subst rt orig s r.
Proof. exact Subst_total. Qed.

Theorem C07_keys_total : forall s, exists l, Keys s l.
Proof. exact Keys_total. Qed.

(* ---------- escape_component computes it, for every component and every option sequence ---------- *)

Theorem C07_component : forall rt orig c, Subst rt orig c (escape_component rt orig c).
Proof. exact escape_component_subst. Qed.

Theorem C07_component_iff : forall rt orig c r, Subst rt orig c r <-> escape_component rt orig c = r.
Proof. exact escape_component_iff. Qed.

(* the character scanner, for all values of its accumulators *)
Theorem C07_scan_outside : forall rt orig s r,
  Subst rt orig s r -> forall out, escape_scan rt orig s out false "" = prefix_res out r.
Proof. exact scan_subst. Qed.

Theorem C07_scan_within : forall rt orig s k r,
  contains_char "}" k = false -> Subst rt orig ("{" ++ k ++ s) r ->
  forall out, escape_scan rt orig s out true k = prefix_res out r.
Proof. exact scan_within. Qed.

(* never rejects a component whose keys were all provided *)
Theorem C07_no_reject : forall rt orig c l,
  Keys c l -> (forall k, In k l -> Provided rt k) -> exists t, escape_component rt orig c = Ok t.
Proof. exact no_reject. Qed.

(* the only error is "custom option not provided", for the first missing key from the left *)
Theorem C07_error_iff : forall rt orig c l e,
  Keys c l ->
  (escape_component rt orig c = Err e <->
   exists k, FirstMissing rt l k /\ e = ECustomOptionNotProvided orig k).
Proof. exact error_iff. Qed.

Theorem C07_no_braces_identity : forall rt orig c,
  contains_char "{" c = false -> escape_component rt orig c = Ok c.
Proof. exact no_braces_identity. Qed.

(* ---------- examples ---------- *)

Definition rt_ex : runtime := Runtime [("a", "X"); ("b", "Y"); ("e", ""); ("a", "Z")] true.

Example C07_ex_whole : escape_component rt_ex "p" "{a}" = Ok "Z".
Proof. vm_compute. reflexivity. Qed.
Example C07_ex_none : escape_component rt_ex "p" "main.o" = Ok "main.o".
Proof. vm_compute. reflexivity. Qed.
Example C07_ex_leading : escape_component rt_ex "p" "{b}_lib.o" = Ok "Y_lib.o".
Proof. vm_compute. reflexivity. Qed.
Example C07_ex_trailing : escape_component rt_ex "p" "lib_{b}" = Ok "lib_Y".
Proof. vm_compute. reflexivity. Qed.
Example C07_ex_adjacent : escape_component rt_ex "p" "{a}{b}" = Ok "ZY".
Proof. vm_compute. reflexivity. Qed.
Example C07_ex_two : escape_component rt_ex "p" "{a}_{b}" = Ok "Z_Y".
Proof. vm_compute. reflexivity. Qed.
Example C07_ex_three : escape_component rt_ex "p" "x{a}y{b}z{a}w" = Ok "xZyYzZw".
Proof. vm_compute. reflexivity. Qed.
Example C07_ex_empty_value : escape_component rt_ex "p" "{e}x{e}" = Ok "x".
Proof. vm_compute. reflexivity. Qed.
Example C07_ex_unterminated : escape_component rt_ex "p" "}x{abc" = Ok "}x{abc".
Proof. vm_compute. reflexivity. Qed.
Example C07_ex_unterminated_after : escape_component rt_ex "p" "{a}{b" = Ok "Z{b".
Proof. vm_compute. reflexivity. Qed.
Example C07_ex_missing : escape_component rt_ex "p" "{a}{zz}{yy}{b}" = Err (ECustomOptionNotProvided "p" "zz").
Proof. vm_compute. reflexivity. Qed.
Example C07_ex_key_with_lbrace : escape_component rt_ex "p" "{a{b}" = Err (ECustomOptionNotProvided "p" "a{b").
Proof. vm_compute. reflexivity. Qed.

(* the hypotheses of C07_no_reject / C07_error_iff are met by concrete components *)
Example C07_ex_keys : Keys "x{a}_{b}.o" ["a"; "b"].
Proof. exact ex_keys_1. Qed.
Example C07_ex_keys_provided : forall k, In k ["a"; "b"] -> Provided rt_ex k.
Proof. exact (ex_keys_provided rt_ex eq_refl eq_refl). Qed.
Example C07_ex_keys_missing : Keys "{a}{zz}{yy}{b}" ["a"; "zz"; "yy"; "b"] /\
                              FirstMissing rt_ex ["a"; "zz"; "yy"; "b"] "zz".
Proof. exact (conj ex_keys_2 (ex_first_missing rt_ex eq_refl eq_refl)). Qed.

Print Assumptions C07_subst_functional.
Print Assumptions C07_subst_total.
Print Assumptions C07_keys_total.
Print Assumptions C07_component.
Print Assumptions C07_component_iff.
Print Assumptions C07_scan_outside.
Print Assumptions C07_scan_within.
Print Assumptions C07_no_reject.
Print Assumptions C07_error_iff.
Print Assumptions C07_no_braces_identity.
