(* C07 - Emitted paths are base/dir/group dirs/path with every {key} replaced, or error.
   Only statements, each closed by [exact]; see Spec/C07.v and Proofs/C07.v. *)
From Slinky Require Import Model.Types Model.Runtime Model.Script Model.Writer Model.Exports Spec.C07 Proofs.C07.
Local Open Scope string_scope.

(* ---------- one component: the relation [Subst] is a specification ---------- *)

Theorem C07_subst_functional : forall rt orig s r1 r2,
  Subst rt orig s r1 -> Subst rt orig s r2 -> r1 = r2.
Proof. exact Subst_functional. Qed.

Theorem C07_subst_total : forall rt orig s, exists r, Subst rt orig s r.
Proof. exact Subst_total. Qed.

Theorem C07_keys_total : forall s, exists l, Keys s l.
Proof. exact Keys_total. Qed.

(* ---------- escape_component computes it, for every component and every option sequence ---------- *)

Theorem C07_component : forall rt orig c, Subst rt orig c (escape_component rt orig c).
Proof. exact escape_component_subst. Qed.

Theorem C07_component_iff : forall rt orig c r, Subst rt orig c r <-> escape_component rt orig c = r.
Proof. exact escape_component_iff. Qed.

(* the character scanner, for all values of its accumulators *)
Theorem C07_scan_outside : forall rt orig s r,
  Subst rt orig s r -> forall out, escape_scan rt orig s out false "" = prefix_res out r.
Proof. exact scan_subst. Qed.

Theorem C07_scan_within : forall rt orig s k r,
  contains_char "}" k = false -> Subst rt orig ("{" ++ k ++ s) r ->
  forall out, escape_scan rt orig s out true k = prefix_res out r.
Proof. exact scan_within. Qed.

(* never rejects a component whose keys were all provided *)
Theorem C07_no_reject : forall rt orig c l,
  Keys c l -> (forall k, In k l -> Provided rt k) -> exists t, escape_component rt orig c = Ok t.
Proof. exact no_reject. Qed.

(* the only error is "custom option not provided", for the first missing key from the left *)
Theorem C07_error_iff : forall rt orig c l e,
  Keys c l ->
  (escape_component rt orig c = Err e <->
   exists k, FirstMissing rt l k /\ e = ECustomOptionNotProvided orig k).
Proof. exact error_iff. Qed.

Theorem C07_no_braces_identity : forall rt orig c,
  contains_char "{" c = false -> escape_component rt orig c = Ok c.
Proof. exact no_braces_identity. Qed.

(* ---------- examples ---------- *)

Example C07_ex_whole : escape_component rt_ex "p" "{a}" = Ok "Z".
Proof. vm_compute. reflexivity. Qed.
Example C07_ex_none : escape_component rt_ex "p" "main.o" = Ok "main.o".
Proof. vm_compute. reflexivity. Qed.
Example C07_ex_leading : escape_component rt_ex "p" "{b}_lib.o" = Ok "Y_lib.o".
Proof. vm_compute. reflexivity. Qed.
Example C07_ex_trailing : escape_component rt_ex "p" "lib_{b}" = Ok "lib_Y".
Proof. vm_compute. reflexivity. Qed.
Example C07_ex_adjacent : escape_component rt_ex "p" "{a}{b}" = Ok "ZY".
Proof. vm_compute. reflexivity. Qed.
Example C07_ex_two : escape_component rt_ex "p" "{a}_{b}" = Ok "Z_Y".
Proof. vm_compute. reflexivity. Qed.
Example C07_ex_three : escape_component rt_ex "p" "x{a}y{b}z{a}w" = Ok "xZyYzZw".
Proof. vm_compute. reflexivity. Qed.
Example C07_ex_empty_value : escape_component rt_ex "p" "{e}x{e}" = Ok "x".
Proof. vm_compute. reflexivity. Qed.
Example C07_ex_unterminated : escape_component rt_ex "p" "}x{abc" = Ok "}x{abc".
Proof. vm_compute. reflexivity. Qed.
Example C07_ex_unterminated_after : escape_component rt_ex "p" "{a}{b" = Ok "Z{b".
Proof. vm_compute. reflexivity. Qed.
Example C07_ex_missing : escape_component rt_ex "p" "{a}{zz}{yy}{b}" = Err (ECustomOptionNotProvided "p" "zz").
Proof. vm_compute. reflexivity. Qed.
Example C07_ex_key_with_lbrace : escape_component rt_ex "p" "{a{b}" = Err (ECustomOptionNotProvided "p" "a{b").
Proof. vm_compute. reflexivity. Qed.

(* the hypotheses of C07_no_reject / C07_error_iff are met by concrete components *)
Example C07_ex_keys : Keys "x{a}_{b}.o" ["a"; "b"].
Proof. exact ex_keys_1. Qed.
Example C07_ex_keys_provided : forall k, In k ["a"; "b"] -> Provided rt_ex k.
Proof. exact (ex_keys_provided rt_ex eq_refl eq_refl). Qed.
Example C07_ex_keys_missing : Keys "{a}{zz}{yy}{b}" ["a"; "zz"; "yy"; "b"] /\
                              FirstMissing rt_ex ["a"; "zz"; "yy"; "b"] "zz".
Proof. exact (conj ex_keys_2 (ex_first_missing rt_ex eq_refl eq_refl)). Qed.

(* ====================================================================== *)
(* paths                                                                   *)
(* ====================================================================== *)

(* PathBuf::push on components, the exact law for all p and q: an absolute q replaces p; pushed on the
   empty path q is itself; otherwise q contributes its non-empty, non-"." parts after those of p *)
Theorem C07_push_components : forall p q,
  components (push p q) =
  if is_absolute q then components q
  else if is_empty p then components q
  else (components p ++ rel_comps q)%list.
Proof. exact components_push. Qed.

Theorem C07_push_display : forall p q,
  is_absolute q = false -> is_empty p = false ->
  display (push p q) = join "/" (components p ++ rel_comps q)%list.
Proof. exact display_push. Qed.

(* what a relative path contributes later is its components but for a leading "." *)
Theorem C07_rel_comps : forall q, is_absolute q = false -> rel_comps q = strip_cur (components q).
Proof. exact rel_comps_components. Qed.

(* any number of relative parts pushed on any path: the "/"-join *)
Theorem C07_push_all_components : forall parts acc,
  Forall relative parts -> components (push_all acc parts) = joined acc parts.
Proof. exact components_push_all. Qed.

Theorem C07_push_all_display : forall acc parts,
  Forall relative parts -> display (push_all acc parts) = join "/" (joined acc parts).
Proof. exact display_push_all. Qed.

(* escape_path: every component goes through the substitution, the results are pushed in order;
   the error is that of the first component that has one *)
Theorem C07_escape_path_fold : forall rt p,
  escape_path rt p = (do l' <- map_res (escape_component rt p) (components p); Ok (push_all "" l')).
Proof. exact escape_path_push_all. Qed.

Theorem C07_escape_path_ok : forall rt p r,
  escape_path rt p = Ok r <->
  exists l', Forall2 (fun c c' => Subst rt p c (Ok c')) (components p) l' /\ r = push_all "" l'.
Proof. exact escape_path_ok_iff. Qed.

Theorem C07_escape_path_error : forall rt p e,
  escape_path rt p = Err e <->
  exists l1 c l2, components p = (l1 ++ c :: l2)%list /\ Subst rt p c (Err e) /\
                  forall c0, In c0 l1 -> exists t, Subst rt p c0 (Ok t).
Proof. exact escape_path_err_iff. Qed.

(* ---------- what emit_sff does with one entry ---------- *)

Theorem C07_emit_object : forall rt sty cfg seg sections f k base ws p',
  should_emit rt (fi_conds f) = true -> fi_kind f = KObject -> escape_path rt (fi_path f) = Ok p' ->
  emit_file_of rt sty cfg seg sections f k base ws =
  Ok ([SInput (keeps (fi_keep f) k) (display (push base p')) None k (wildcard_sections seg)],
      add_path (push base p') ws).
Proof. exact emit_file_object. Qed.

Theorem C07_emit_archive : forall rt sty cfg seg sections f k base ws p',
  should_emit rt (fi_conds f) = true -> fi_kind f = KArchive -> escape_path rt (fi_path f) = Ok p' ->
  emit_file_of rt sty cfg seg sections f k base ws =
  Ok ([SInput (keeps (fi_keep f) k) (display (push base p')) (Some (fi_subfile f)) k (wildcard_sections seg)],
      add_path (push base p') ws).
Proof. exact emit_file_archive. Qed.

Theorem C07_emit_group : forall rt sty cfg seg sections f k base ws d',
  should_emit rt (fi_conds f) = true -> fi_kind f = KGroup -> escape_path rt (fi_dir f) = Ok d' ->
  emit_file_of rt sty cfg seg sections f k base ws =
  fold_out (fun c ws => emit_sff rt sty cfg seg sections c (chain_fuel seg) [] k (push base d') ws)
           (fi_files f) ws.
Proof. exact emit_file_group. Qed.

(* [emit_file_of] is the per-section body of emit_sff *)
Theorem C07_emit_sff_step : forall rt sty cfg seg sections f n stack section base ws,
  emit_sff rt sty cfg seg sections f (S n) stack section base ws =
  if mem_str section stack then Err (ESubgroupCycle (sg_name seg) section) else
  chain_step (emit_file_of rt sty cfg seg sections f)
             (emit_sff rt sty cfg seg sections f n (section :: stack)) cfg seg f sections section base ws.
Proof. exact emit_sff_S. Qed.

(* ---------- every emitted and every recorded path, at any depth of nesting ---------- *)

Theorem C07_emit_path : forall rt sty cfg seg sections f n stack section base ws o,
  emit_sff rt sty cfg seg sections f n stack section base ws = Ok o ->
  InputsFrom rt base [f] (fst o) /\ PathsFrom rt base [f] ws (snd o).
Proof. exact emit_sff_inv. Qed.

Theorem C07_emit_section : forall rt sty cfg seg sections bp section ws o,
  emit_section rt sty cfg seg sections bp section ws = Ok o ->
  exists b0 base,
    escape_path rt bp = Ok b0 /\
    (if reference_partial cfg then base = b0
     else exists d, escape_path rt (sg_dir seg) = Ok d /\ base = push b0 d) /\
    InputsFrom rt base (sg_files seg) (fst o) /\ PathsFrom rt base (sg_files seg) ws (snd o).
Proof. exact emit_section_inv. Qed.

(* the text of such a path when the escaped dirs and path are relative *)
Theorem C07_emit_path_join : forall base dirs' p',
  Forall relative (dirs' ++ [p'])%list ->
  display (push_all base (dirs' ++ [p'])%list) = join "/" (joined base (dirs' ++ [p'])%list).
Proof. exact display_raw. Qed.

(* ---------- a missing key is an error, never an unexpanded path ---------- *)

Theorem C07_emit_path_error : forall rt sty cfg seg sections f n stack section base ws e k rest,
  mem_str section stack = false -> sections_here f section sections = k :: rest ->
  should_emit rt (fi_conds f) = true -> fi_kind f = KObject \/ fi_kind f = KArchive ->
  escape_path rt (fi_path f) = Err e ->
  emit_sff rt sty cfg seg sections f (S n) stack section base ws = Err e.
Proof. exact emit_sff_path_error. Qed.

Theorem C07_emit_dir_error : forall rt sty cfg seg sections f n stack section base ws e k rest,
  mem_str section stack = false -> sections_here f section sections = k :: rest ->
  should_emit rt (fi_conds f) = true -> fi_kind f = KGroup ->
  escape_path rt (fi_dir f) = Err e ->
  emit_sff rt sty cfg seg sections f (S n) stack section base ws = Err e.
Proof. exact emit_sff_dir_error. Qed.

Theorem C07_emit_section_base_error : forall rt sty cfg seg sections bp section ws e,
  escape_path rt bp = Err e -> emit_section rt sty cfg seg sections bp section ws = Err e.
Proof. exact emit_section_base_error. Qed.

Theorem C07_emit_section_dir_error : forall rt sty cfg seg sections bp section ws b0 e,
  escape_path rt bp = Ok b0 -> reference_partial cfg = false -> escape_path rt (sg_dir seg) = Err e ->
  emit_section rt sty cfg seg sections bp section ws = Err e.
Proof. exact emit_section_dir_error. Qed.

(* ---------- partial objects ---------- *)

Theorem C07_partial_segment_object : forall d rt folder seg acc,
  should_emit rt (sg_conds seg) = true ->
  partial_segment d rt folder seg acc =
  (do sub <- add_single_segment rt (doc_settings d) cfg_sub_partial (doc_vram_classes d) seg ws0;
   do o <- add_segment rt (doc_settings d) cfg_main_partial (doc_vram_classes d)
             (clone_with_new_files seg [new_object (push folder (sg_name seg ++ ".o"))]) (fst acc);
   Ok (fst o,
       (snd o, (snd acc ++ [(sg_name seg,
                             WriterOut (version_stmts rt ++ fst sub)%list (ws_paths (snd sub)))])%list))).
Proof. exact partial_segment_unfold. Qed.

Theorem C07_partial_object_name : forall folder name,
  is_empty folder = false -> contains_char "/" name = false ->
  components (push folder (name ++ ".o")) = (components folder ++ [(name ++ ".o")%string])%list.
Proof. exact partial_object_components. Qed.

Theorem C07_partial_object : forall rt sty seg0 sections bp section ws p b0 p',
  escape_path rt bp = Ok b0 -> escape_path rt p = Ok p' ->
  emit_section rt sty cfg_main_partial (clone_with_new_files seg0 [new_object p]) sections bp section ws =
  Ok ([SInput false (display (push b0 p')) None section (wildcard_sections seg0)],
      add_path (push b0 p') ws).
Proof. exact partial_object_emit. Qed.

Theorem C07_partial_object_error : forall rt sty seg0 sections bp section ws p b0 e,
  escape_path rt bp = Ok b0 -> escape_path rt p = Err e ->
  emit_section rt sty cfg_main_partial (clone_with_new_files seg0 [new_object p]) sections bp section ws = Err e.
Proof. exact partial_object_error. Qed.

(* ---------- examples ---------- *)

Example C07_ex_push : components (push "a/b/" "./c/./d//e") = ["a"; "b"; "c"; "d"; "e"].
Proof. vm_compute. reflexivity. Qed.
Example C07_ex_push_hyp : is_absolute "./c/./d//e" = false /\ is_empty "a/b/" = false.
Proof. vm_compute. split; reflexivity. Qed.
Example C07_ex_joined : joined "" [""; "./a"; "./b"; "c/"] = ["."; "a"; "b"; "c"].
Proof. vm_compute. reflexivity. Qed.
Example C07_ex_escape_path : escape_path rt_ex2 "./a/{v}//b/./{w}{w}.o" = Ok "./a/eu/b/11.o".
Proof. vm_compute. reflexivity. Qed.
Example C07_ex_escape_path_missing :
  escape_path rt_ex2 "a/{v}/{zz}/{yy}" = Err (ECustomOptionNotProvided "a/{v}/{zz}/{yy}" "zz").
Proof. vm_compute. reflexivity. Qed.
(* a nested group under a base: base / group dirs outermost first / path, "." and empty parts dropped *)
Example C07_ex_emit :
  ex_inputs rt_ex2 "build/eu/src" = Ok [SInput false "build/eu/src/lib1/x/eu/eu1.o" None ".text" true].
Proof. vm_compute. reflexivity. Qed.
Example C07_ex_emit_join :
  Forall relative ["lib1"; "x/eu"; "eu1.o"] /\
  join "/" (joined "build/eu/src" ["lib1"; "x/eu"; "eu1.o"]) = "build/eu/src/lib1/x/eu/eu1.o".
Proof. split; [exact ex_relative | vm_compute; reflexivity]. Qed.
Example C07_ex_emit_missing :
  ex_inputs (Runtime [("w", "1")] true) "build" = Err (ECustomOptionNotProvided "./x//{v}/." "v").
Proof. vm_compute. reflexivity. Qed.

Print Assumptions C07_subst_functional.
Print Assumptions C07_subst_total.
Print Assumptions C07_keys_total.
Print Assumptions C07_component.
Print Assumptions C07_component_iff.
Print Assumptions C07_scan_outside.
Print Assumptions C07_scan_within.
Print Assumptions C07_no_reject.
Print Assumptions C07_error_iff.
Print Assumptions C07_no_braces_identity.
Print Assumptions C07_push_components.
Print Assumptions C07_push_display.
Print Assumptions C07_rel_comps.
Print Assumptions C07_push_all_components.
Print Assumptions C07_push_all_display.
Print Assumptions C07_escape_path_fold.
Print Assumptions C07_escape_path_ok.
Print Assumptions C07_escape_path_error.
Print Assumptions C07_emit_object.
Print Assumptions C07_emit_archive.
Print Assumptions C07_emit_group.
Print Assumptions C07_emit_sff_step.
Print Assumptions C07_emit_path.
Print Assumptions C07_emit_section.
Print Assumptions C07_emit_path_join.
Print Assumptions C07_emit_path_error.
Print Assumptions C07_emit_dir_error.
Print Assumptions C07_emit_section_base_error.
Print Assumptions C07_emit_section_dir_error.
Print Assumptions C07_partial_segment_object.
Print Assumptions C07_partial_object_name.
Print Assumptions C07_partial_object.
Print Assumptions C07_partial_object_error.
