(* C08Lift - C08 at the level of whole documents and of the outputs.  Properties/C08.v proves the
   three-level resolution, restating and shielding for parse_segment / parse_settings; here they are lifted
   to [parse] on serial documents and to everything computed from the parsed document.  Only statements,
   each closed by [exact]; definitions in Spec/C08Lift.v, proofs in Proofs/C08Lift.v.

   1. C08_restate_segment_document_X (12), C08_restate_global_document_X (12 + the empty mapping):
      restating the effective value of an omitted option in segment number i / in `settings:` gives the SAME
      parsed document; C08_restate_document, C08_restate_many_document: the same for the inductive
      [restated] (one step, any of the 25 ways) and for any number of steps.
   2. C08_restate_outputs: hence the harness record (run_case), the command-line tool (cli_run), both
      generators, the dependency text, the header and the file writes are the same.
   3. C08_outputs_read_only_the_core: the generators and exports read none of the twelve overridable GLOBAL
      fields.  C08_shielding_outputs_X (12): when every segment gives X, changing the global X leaves the
      parsed document unchanged but for that field of its settings, and leaves every output unchanged
      except the one that prints the parsed settings: run_case (c08l_ex_shielding_run_case_differs). *)
From Slinky Require Import Model.Types Model.Parse Model.Runtime Model.Script Model.Writer Model.Exports Model.Dump.
From Slinky Require Import Spec.C08 Spec.C08Lift Spec.DocWitness Proofs.C08Lift.

(* ====================================================================== *)
(* 1. document level                                                       *)
(* ====================================================================== *)

(* generic: a replacement for segment number i that serde accepts and that parses like the original under
   the settings of the document gives the same parsed document *)
Theorem C08_parse_with_segment : forall sd d i s s',
  parse sd = Ok d -> sd_segment sd i = Some s -> serde_ok_segment s' = true ->
  parse_segment (doc_settings d) s' = parse_segment (doc_settings d) s ->
  parse (sd_with_segment sd i s') = Ok d.
Proof. exact parse_with_segment. Qed.

(* generic: a replacement `settings:` mapping that serde treats alike and that parses alike gives the same
   parse result (success or error) *)
Theorem C08_parse_with_settings : forall sd gs gs',
  ds_settings sd = Value gs -> serde_ok_settings gs' = serde_ok_settings gs ->
  parse_settings gs' = parse_settings gs ->
  parse (sd_with_settings sd (Value gs')) = parse sd.
Proof. exact parse_with_settings. Qed.

(* a segment of the parsed document is the parse, under the document's settings, of the serial segment at
   the same position (then the keep_sections of its class are passed down, which touches none of the
   twelve options) *)
Theorem C08_doc_segment_parsed : forall sd d i s seg,
  parse sd = Ok d -> sd_segment sd i = Some s -> doc_segment d i = Some seg ->
  exists seg0, parse_segment (doc_settings d) s = Ok seg0 /\ seg = class_pass_down (doc_vram_classes d) seg0.
Proof. exact doc_segment_parsed. Qed.

(* segment level: segment number i omits the option; spelling out its effective value (read off segment i
   of the parsed document) gives the same parsed document *)
Theorem C08_restate_segment_document_alloc_sections : forall sd d i s seg,
  parse sd = Ok d -> sd_segment sd i = Some s -> doc_segment d i = Some seg -> ss_alloc_sections s = Absent ->
  parse (sd_with_segment sd i (ss_with_alloc_sections s (explicit_plain (alloc_sections seg)))) = Ok d.
Proof. exact restate_segment_document_alloc_sections. Qed.

Theorem C08_restate_segment_document_noload_sections : forall sd d i s seg,
  parse sd = Ok d -> sd_segment sd i = Some s -> doc_segment d i = Some seg -> ss_noload_sections s = Absent ->
  parse (sd_with_segment sd i (ss_with_noload_sections s (explicit_plain (noload_sections seg)))) = Ok d.
Proof. exact restate_segment_document_noload_sections. Qed.

Theorem C08_restate_segment_document_subalign : forall sd d i s seg,
  parse sd = Ok d -> sd_segment sd i = Some s -> doc_segment d i = Some seg -> ss_subalign s = Absent ->
  parse (sd_with_segment sd i (ss_with_subalign s (explicit_nullable (subalign seg)))) = Ok d.
Proof. exact restate_segment_document_subalign. Qed.

Theorem C08_restate_segment_document_segment_start_align : forall sd d i s seg,
  parse sd = Ok d -> sd_segment sd i = Some s -> doc_segment d i = Some seg -> ss_segment_start_align s = Absent ->
  parse (sd_with_segment sd i (ss_with_segment_start_align s (explicit_nullable (segment_start_align seg)))) = Ok d.
Proof. exact restate_segment_document_segment_start_align. Qed.

Theorem C08_restate_segment_document_segment_end_align : forall sd d i s seg,
  parse sd = Ok d -> sd_segment sd i = Some s -> doc_segment d i = Some seg -> ss_segment_end_align s = Absent ->
  parse (sd_with_segment sd i (ss_with_segment_end_align s (explicit_nullable (segment_end_align seg)))) = Ok d.
Proof. exact restate_segment_document_segment_end_align. Qed.

Theorem C08_restate_segment_document_section_start_align : forall sd d i s seg,
  parse sd = Ok d -> sd_segment sd i = Some s -> doc_segment d i = Some seg -> ss_section_start_align s = Absent ->
  parse (sd_with_segment sd i (ss_with_section_start_align s (explicit_nullable (section_start_align seg)))) = Ok d.
Proof. exact restate_segment_document_section_start_align. Qed.

Theorem C08_restate_segment_document_section_end_align : forall sd d i s seg,
  parse sd = Ok d -> sd_segment sd i = Some s -> doc_segment d i = Some seg -> ss_section_end_align s = Absent ->
  parse (sd_with_segment sd i (ss_with_section_end_align s (explicit_nullable (section_end_align seg)))) = Ok d.
Proof. exact restate_segment_document_section_end_align. Qed.

Theorem C08_restate_segment_document_sections_start_alignment : forall sd d i s seg,
  parse sd = Ok d -> sd_segment sd i = Some s -> doc_segment d i = Some seg -> ss_sections_start_alignment s = Absent ->
  parse (sd_with_segment sd i (ss_with_sections_start_alignment s (explicit_plain (sections_start_alignment seg)))) = Ok d.
Proof. exact restate_segment_document_sections_start_alignment. Qed.

Theorem C08_restate_segment_document_sections_end_alignment : forall sd d i s seg,
  parse sd = Ok d -> sd_segment sd i = Some s -> doc_segment d i = Some seg -> ss_sections_end_alignment s = Absent ->
  parse (sd_with_segment sd i (ss_with_sections_end_alignment s (explicit_plain (sections_end_alignment seg)))) = Ok d.
Proof. exact restate_segment_document_sections_end_alignment. Qed.

Theorem C08_restate_segment_document_wildcard_sections : forall sd d i s seg,
  parse sd = Ok d -> sd_segment sd i = Some s -> doc_segment d i = Some seg -> ss_wildcard_sections s = Absent ->
  parse (sd_with_segment sd i (ss_with_wildcard_sections s (explicit_plain (wildcard_sections seg)))) = Ok d.
Proof. exact restate_segment_document_wildcard_sections. Qed.

Theorem C08_restate_segment_document_fill_value : forall sd d i s seg,
  parse sd = Ok d -> sd_segment sd i = Some s -> doc_segment d i = Some seg -> ss_fill_value s = Absent ->
  parse (sd_with_segment sd i (ss_with_fill_value s (explicit_nullable (fill_value seg)))) = Ok d.
Proof. exact restate_segment_document_fill_value. Qed.

Theorem C08_restate_segment_document_sections_subgroups : forall sd d i s seg,
  parse sd = Ok d -> sd_segment sd i = Some s -> doc_segment d i = Some seg -> ss_sections_subgroups s = Absent ->
  parse (sd_with_segment sd i (ss_with_sections_subgroups s (explicit_plain (sections_subgroups seg)))) = Ok d.
Proof. exact restate_segment_document_sections_subgroups. Qed.

(* global level: `settings:` omits the option; spelling out the documented default gives the same parse
   result *)
Theorem C08_restate_global_document_alloc_sections : forall sd gs, ds_settings sd = Value gs -> sts_alloc_sections gs = Absent ->
  parse (sd_with_settings sd (Value (sts_with_alloc_sections gs (explicit_plain doc_default_alloc_sections)))) = parse sd.
Proof. exact restate_global_document_alloc_sections. Qed.

Theorem C08_restate_global_document_noload_sections : forall sd gs, ds_settings sd = Value gs -> sts_noload_sections gs = Absent ->
  parse (sd_with_settings sd (Value (sts_with_noload_sections gs (explicit_plain doc_default_noload_sections)))) = parse sd.
Proof. exact restate_global_document_noload_sections. Qed.

Theorem C08_restate_global_document_subalign : forall sd gs, ds_settings sd = Value gs -> sts_subalign gs = Absent ->
  parse (sd_with_settings sd (Value (sts_with_subalign gs (explicit_nullable doc_default_subalign)))) = parse sd.
Proof. exact restate_global_document_subalign. Qed.

Theorem C08_restate_global_document_segment_start_align : forall sd gs, ds_settings sd = Value gs -> sts_segment_start_align gs = Absent ->
  parse (sd_with_settings sd (Value (sts_with_segment_start_align gs (explicit_nullable doc_default_segment_start_align)))) = parse sd.
Proof. exact restate_global_document_segment_start_align. Qed.

Theorem C08_restate_global_document_segment_end_align : forall sd gs, ds_settings sd = Value gs -> sts_segment_end_align gs = Absent ->
  parse (sd_with_settings sd (Value (sts_with_segment_end_align gs (explicit_nullable doc_default_segment_end_align)))) = parse sd.
Proof. exact restate_global_document_segment_end_align. Qed.

Theorem C08_restate_global_document_section_start_align : forall sd gs, ds_settings sd = Value gs -> sts_section_start_align gs = Absent ->
  parse (sd_with_settings sd (Value (sts_with_section_start_align gs (explicit_nullable doc_default_section_start_align)))) = parse sd.
Proof. exact restate_global_document_section_start_align. Qed.

Theorem C08_restate_global_document_section_end_align : forall sd gs, ds_settings sd = Value gs -> sts_section_end_align gs = Absent ->
  parse (sd_with_settings sd (Value (sts_with_section_end_align gs (explicit_nullable doc_default_section_end_align)))) = parse sd.
Proof. exact restate_global_document_section_end_align. Qed.

Theorem C08_restate_global_document_sections_start_alignment : forall sd gs, ds_settings sd = Value gs -> sts_sections_start_alignment gs = Absent ->
  parse (sd_with_settings sd (Value (sts_with_sections_start_alignment gs (explicit_plain doc_default_sections_start_alignment)))) = parse sd.
Proof. exact restate_global_document_sections_start_alignment. Qed.

Theorem C08_restate_global_document_sections_end_alignment : forall sd gs, ds_settings sd = Value gs -> sts_sections_end_alignment gs = Absent ->
  parse (sd_with_settings sd (Value (sts_with_sections_end_alignment gs (explicit_plain doc_default_sections_end_alignment)))) = parse sd.
Proof. exact restate_global_document_sections_end_alignment. Qed.

Theorem C08_restate_global_document_wildcard_sections : forall sd gs, ds_settings sd = Value gs -> sts_wildcard_sections gs = Absent ->
  parse (sd_with_settings sd (Value (sts_with_wildcard_sections gs (explicit_plain doc_default_wildcard_sections)))) = parse sd.
Proof. exact restate_global_document_wildcard_sections. Qed.

Theorem C08_restate_global_document_fill_value : forall sd gs, ds_settings sd = Value gs -> sts_fill_value gs = Absent ->
  parse (sd_with_settings sd (Value (sts_with_fill_value gs (explicit_nullable doc_default_fill_value)))) = parse sd.
Proof. exact restate_global_document_fill_value. Qed.

Theorem C08_restate_global_document_sections_subgroups : forall sd gs, ds_settings sd = Value gs -> sts_sections_subgroups gs = Absent ->
  parse (sd_with_settings sd (Value (sts_with_sections_subgroups gs (explicit_plain doc_default_sections_subgroups)))) = parse sd.
Proof. exact restate_global_document_sections_subgroups. Qed.

(* an absent `settings:` entry and an empty mapping are the same *)
Theorem C08_restate_global_document_empty_mapping : forall sd,
  ds_settings sd = Absent -> parse (sd_with_settings sd (Value all_absent_settings)) = parse sd.
Proof. exact parse_with_empty_mapping. Qed.

(* all of the above as one statement over the inductive [restated] (Spec/C08Lift.v), and iterated *)
Theorem C08_restate_document : forall sd d sd', parse sd = Ok d -> restated sd d sd' -> parse sd' = Ok d.
Proof. exact restated_parse. Qed.

Theorem C08_restate_many_document : forall sd d sd', parse sd = Ok d -> restated_many sd d sd' -> parse sd' = Ok d.
Proof. exact restated_many_parse. Qed.

(* ====================================================================== *)
(* 2. outputs                                                              *)
(* ====================================================================== *)

(* run_case and cli_run take the serial document and start with [parse]: equal parse results, equal
   outputs *)
Theorem C08_same_parse_same_outputs : forall sd sd', parse sd' = parse sd -> same_cli sd sd' /\ same_run_case sd sd'.
Proof. exact same_parse_same_outputs. Qed.

(* restating never changes any output: the restated document parses to the same document [d], so both
   generators, the dependency text, the header and the file writes (functions of d and the run-time
   settings, [same_doc_outputs]) are the same, and so are the command-line tool on the serial documents
   ([same_cli]: status, stdout, writes, for every argument list) and the harness record ([same_run_case],
   which also prints the parsed document) *)
Theorem C08_restate_outputs : forall sd d sd', parse sd = Ok d -> restated sd d sd' ->
  exists d', parse sd' = Ok d' /\ d' = d /\ same_doc_outputs d d' /\ same_cli sd sd' /\ same_run_case sd sd'.
Proof. exact restate_outputs. Qed.

Theorem C08_restate_many_outputs : forall sd d sd', parse sd = Ok d -> restated_many sd d sd' ->
  exists d', parse sd' = Ok d' /\ d' = d /\ same_doc_outputs d d' /\ same_cli sd sd' /\ same_run_case sd sd'.
Proof. exact restate_many_outputs. Qed.

(* ====================================================================== *)
(* 3. shielding                                                            *)
(* ====================================================================== *)

(* after parsing, nothing in Model/Writer.v or Model/Exports.v reads one of the twelve overridable fields of
   the settings: two documents that agree on everything but those fields have the same outputs *)
Theorem C08_outputs_read_only_the_core : forall d d', same_but_overridable d d' -> same_doc_outputs d d'.
Proof. exact outputs_read_only_the_core. Qed.

(* same outputs and both documents parse: the command-line tool cannot tell them apart *)
Theorem C08_same_outputs_cli : forall sd sd' d d',
  parse sd = Ok d -> parse sd' = Ok d' -> same_doc_outputs d d' -> same_cli sd sd'.
Proof. exact same_outputs_cli. Qed.

(* generic: other settings with the same core, under which every segment of the document parses alike *)
Theorem C08_shield_document : forall sd gs gs' d d',
  parse sd = Ok d -> ds_settings sd = Value gs -> parse (sd_with_settings sd (Value gs')) = Ok d' ->
  (forall st st', parse_settings gs = Ok st -> parse_settings gs' = Ok st' ->
     same_core st st' /\
     forall s, In s (match ds_segments sd with Some l => l | None => [] end) ->
               parse_segment st' s = parse_segment st s) ->
  d' = doc_with_settings d (doc_settings d') /\ same_core (doc_settings d) (doc_settings d').
Proof. exact shield_document. Qed.

(* changing one global value changes that field of the parsed settings only *)
Theorem C08_changed_global_fill_value : forall gs v st st',
  parse_settings gs = Ok st -> parse_settings (sts_with_fill_value gs v) = Ok st' ->
  same_core st st' /\ st' = st_with_fill_value st (st_fill_value st').
Proof. exact changed_global_fill_value. Qed.

(* per segment, whatever the other segments do: segment number i gives X; the global X is changed to
   anything and the document still parses: segment i of the parsed document is the same *)
Theorem C08_shielding_segment_document_alloc_sections : forall sd gs v d d' i s,
  parse sd = Ok d -> ds_settings sd = Value gs ->
  parse (sd_with_settings sd (Value (sts_with_alloc_sections gs v))) = Ok d' ->
  sd_segment sd i = Some s -> given (ss_alloc_sections s) ->
  doc_segment d' i = doc_segment d i /\ exists seg, doc_segment d i = Some seg.
Proof. exact shielding_segment_document_alloc_sections. Qed.

Theorem C08_shielding_segment_document_noload_sections : forall sd gs v d d' i s,
  parse sd = Ok d -> ds_settings sd = Value gs ->
  parse (sd_with_settings sd (Value (sts_with_noload_sections gs v))) = Ok d' ->
  sd_segment sd i = Some s -> given (ss_noload_sections s) ->
  doc_segment d' i = doc_segment d i /\ exists seg, doc_segment d i = Some seg.
Proof. exact shielding_segment_document_noload_sections. Qed.

Theorem C08_shielding_segment_document_subalign : forall sd gs v d d' i s,
  parse sd = Ok d -> ds_settings sd = Value gs ->
  parse (sd_with_settings sd (Value (sts_with_subalign gs v))) = Ok d' ->
  sd_segment sd i = Some s -> given (ss_subalign s) ->
  doc_segment d' i = doc_segment d i /\ exists seg, doc_segment d i = Some seg.
Proof. exact shielding_segment_document_subalign. Qed.

Theorem C08_shielding_segment_document_segment_start_align : forall sd gs v d d' i s,
  parse sd = Ok d -> ds_settings sd = Value gs ->
  parse (sd_with_settings sd (Value (sts_with_segment_start_align gs v))) = Ok d' ->
  sd_segment sd i = Some s -> given (ss_segment_start_align s) ->
  doc_segment d' i = doc_segment d i /\ exists seg, doc_segment d i = Some seg.
Proof. exact shielding_segment_document_segment_start_align. Qed.

Theorem C08_shielding_segment_document_segment_end_align : forall sd gs v d d' i s,
  parse sd = Ok d -> ds_settings sd = Value gs ->
  parse (sd_with_settings sd (Value (sts_with_segment_end_align gs v))) = Ok d' ->
  sd_segment sd i = Some s -> given (ss_segment_end_align s) ->
  doc_segment d' i = doc_segment d i /\ exists seg, doc_segment d i = Some seg.
Proof. exact shielding_segment_document_segment_end_align. Qed.

Theorem C08_shielding_segment_document_section_start_align : forall sd gs v d d' i s,
  parse sd = Ok d -> ds_settings sd = Value gs ->
  parse (sd_with_settings sd (Value (sts_with_section_start_align gs v))) = Ok d' ->
  sd_segment sd i = Some s -> given (ss_section_start_align s) ->
  doc_segment d' i = doc_segment d i /\ exists seg, doc_segment d i = Some seg.
Proof. exact shielding_segment_document_section_start_align. Qed.

Theorem C08_shielding_segment_document_section_end_align : forall sd gs v d d' i s,
  parse sd = Ok d -> ds_settings sd = Value gs ->
  parse (sd_with_settings sd (Value (sts_with_section_end_align gs v))) = Ok d' ->
  sd_segment sd i = Some s -> given (ss_section_end_align s) ->
  doc_segment d' i = doc_segment d i /\ exists seg, doc_segment d i = Some seg.
Proof. exact shielding_segment_document_section_end_align. Qed.

Theorem C08_shielding_segment_document_sections_start_alignment : forall sd gs v d d' i s,
  parse sd = Ok d -> ds_settings sd = Value gs ->
  parse (sd_with_settings sd (Value (sts_with_sections_start_alignment gs v))) = Ok d' ->
  sd_segment sd i = Some s -> given (ss_sections_start_alignment s) ->
  doc_segment d' i = doc_segment d i /\ exists seg, doc_segment d i = Some seg.
Proof. exact shielding_segment_document_sections_start_alignment. Qed.

Theorem C08_shielding_segment_document_sections_end_alignment : forall sd gs v d d' i s,
  parse sd = Ok d -> ds_settings sd = Value gs ->
  parse (sd_with_settings sd (Value (sts_with_sections_end_alignment gs v))) = Ok d' ->
  sd_segment sd i = Some s -> given (ss_sections_end_alignment s) ->
  doc_segment d' i = doc_segment d i /\ exists seg, doc_segment d i = Some seg.
Proof. exact shielding_segment_document_sections_end_alignment. Qed.

Theorem C08_shielding_segment_document_wildcard_sections : forall sd gs v d d' i s,
  parse sd = Ok d -> ds_settings sd = Value gs ->
  parse (sd_with_settings sd (Value (sts_with_wildcard_sections gs v))) = Ok d' ->
  sd_segment sd i = Some s -> given (ss_wildcard_sections s) ->
  doc_segment d' i = doc_segment d i /\ exists seg, doc_segment d i = Some seg.
Proof. exact shielding_segment_document_wildcard_sections. Qed.

Theorem C08_shielding_segment_document_fill_value : forall sd gs v d d' i s,
  parse sd = Ok d -> ds_settings sd = Value gs ->
  parse (sd_with_settings sd (Value (sts_with_fill_value gs v))) = Ok d' ->
  sd_segment sd i = Some s -> given (ss_fill_value s) ->
  doc_segment d' i = doc_segment d i /\ exists seg, doc_segment d i = Some seg.
Proof. exact shielding_segment_document_fill_value. Qed.

Theorem C08_shielding_segment_document_sections_subgroups : forall sd gs v d d' i s,
  parse sd = Ok d -> ds_settings sd = Value gs ->
  parse (sd_with_settings sd (Value (sts_with_sections_subgroups gs v))) = Ok d' ->
  sd_segment sd i = Some s -> given (ss_sections_subgroups s) ->
  doc_segment d' i = doc_segment d i /\ exists seg, doc_segment d i = Some seg.
Proof. exact shielding_segment_document_sections_subgroups. Qed.

(* per option: every segment gives X (a value or null); the global X is changed to anything and the
   document still parses.  Then the parsed document is the old one but for its settings, which keep
   their core; both generators, the dependency text, the header, the file writes and the command-line
   tool give the same results.  The harness record run_case is NOT in the list: it prints the parsed
   settings (c08l_ex_shielding_run_case_differs). *)
Theorem C08_shielding_outputs_alloc_sections : forall sd gs v d d',
  parse sd = Ok d -> ds_settings sd = Value gs -> all_segments_give ss_alloc_sections sd ->
  parse (sd_with_settings sd (Value (sts_with_alloc_sections gs v))) = Ok d' ->
  d' = doc_with_settings d (doc_settings d') /\ same_core (doc_settings d) (doc_settings d') /\
  same_doc_outputs d d' /\ same_cli sd (sd_with_settings sd (Value (sts_with_alloc_sections gs v))).
Proof. exact shielding_outputs_alloc_sections. Qed.

Theorem C08_shielding_outputs_noload_sections : forall sd gs v d d',
  parse sd = Ok d -> ds_settings sd = Value gs -> all_segments_give ss_noload_sections sd ->
  parse (sd_with_settings sd (Value (sts_with_noload_sections gs v))) = Ok d' ->
  d' = doc_with_settings d (doc_settings d') /\ same_core (doc_settings d) (doc_settings d') /\
  same_doc_outputs d d' /\ same_cli sd (sd_with_settings sd (Value (sts_with_noload_sections gs v))).
Proof. exact shielding_outputs_noload_sections. Qed.

Theorem C08_shielding_outputs_subalign : forall sd gs v d d',
  parse sd = Ok d -> ds_settings sd = Value gs -> all_segments_give ss_subalign sd ->
  parse (sd_with_settings sd (Value (sts_with_subalign gs v))) = Ok d' ->
  d' = doc_with_settings d (doc_settings d') /\ same_core (doc_settings d) (doc_settings d') /\
  same_doc_outputs d d' /\ same_cli sd (sd_with_settings sd (Value (sts_with_subalign gs v))).
Proof. exact shielding_outputs_subalign. Qed.

Theorem C08_shielding_outputs_segment_start_align : forall sd gs v d d',
  parse sd = Ok d -> ds_settings sd = Value gs -> all_segments_give ss_segment_start_align sd ->
  parse (sd_with_settings sd (Value (sts_with_segment_start_align gs v))) = Ok d' ->
  d' = doc_with_settings d (doc_settings d') /\ same_core (doc_settings d) (doc_settings d') /\
  same_doc_outputs d d' /\ same_cli sd (sd_with_settings sd (Value (sts_with_segment_start_align gs v))).
Proof. exact shielding_outputs_segment_start_align. Qed.

Theorem C08_shielding_outputs_segment_end_align : forall sd gs v d d',
  parse sd = Ok d -> ds_settings sd = Value gs -> all_segments_give ss_segment_end_align sd ->
  parse (sd_with_settings sd (Value (sts_with_segment_end_align gs v))) = Ok d' ->
  d' = doc_with_settings d (doc_settings d') /\ same_core (doc_settings d) (doc_settings d') /\
  same_doc_outputs d d' /\ same_cli sd (sd_with_settings sd (Value (sts_with_segment_end_align gs v))).
Proof. exact shielding_outputs_segment_end_align. Qed.

Theorem C08_shielding_outputs_section_start_align : forall sd gs v d d',
  parse sd = Ok d -> ds_settings sd = Value gs -> all_segments_give ss_section_start_align sd ->
  parse (sd_with_settings sd (Value (sts_with_section_start_align gs v))) = Ok d' ->
  d' = doc_with_settings d (doc_settings d') /\ same_core (doc_settings d) (doc_settings d') /\
  same_doc_outputs d d' /\ same_cli sd (sd_with_settings sd (Value (sts_with_section_start_align gs v))).
Proof. exact shielding_outputs_section_start_align. Qed.

Theorem C08_shielding_outputs_section_end_align : forall sd gs v d d',
  parse sd = Ok d -> ds_settings sd = Value gs -> all_segments_give ss_section_end_align sd ->
  parse (sd_with_settings sd (Value (sts_with_section_end_align gs v))) = Ok d' ->
  d' = doc_with_settings d (doc_settings d') /\ same_core (doc_settings d) (doc_settings d') /\
  same_doc_outputs d d' /\ same_cli sd (sd_with_settings sd (Value (sts_with_section_end_align gs v))).
Proof. exact shielding_outputs_section_end_align. Qed.

Theorem C08_shielding_outputs_sections_start_alignment : forall sd gs v d d',
  parse sd = Ok d -> ds_settings sd = Value gs -> all_segments_give ss_sections_start_alignment sd ->
  parse (sd_with_settings sd (Value (sts_with_sections_start_alignment gs v))) = Ok d' ->
  d' = doc_with_settings d (doc_settings d') /\ same_core (doc_settings d) (doc_settings d') /\
  same_doc_outputs d d' /\ same_cli sd (sd_with_settings sd (Value (sts_with_sections_start_alignment gs v))).
Proof. exact shielding_outputs_sections_start_alignment. Qed.

Theorem C08_shielding_outputs_sections_end_alignment : forall sd gs v d d',
  parse sd = Ok d -> ds_settings sd = Value gs -> all_segments_give ss_sections_end_alignment sd ->
  parse (sd_with_settings sd (Value (sts_with_sections_end_alignment gs v))) = Ok d' ->
  d' = doc_with_settings d (doc_settings d') /\ same_core (doc_settings d) (doc_settings d') /\
  same_doc_outputs d d' /\ same_cli sd (sd_with_settings sd (Value (sts_with_sections_end_alignment gs v))).
Proof. exact shielding_outputs_sections_end_alignment. Qed.

Theorem C08_shielding_outputs_wildcard_sections : forall sd gs v d d',
  parse sd = Ok d -> ds_settings sd = Value gs -> all_segments_give ss_wildcard_sections sd ->
  parse (sd_with_settings sd (Value (sts_with_wildcard_sections gs v))) = Ok d' ->
  d' = doc_with_settings d (doc_settings d') /\ same_core (doc_settings d) (doc_settings d') /\
  same_doc_outputs d d' /\ same_cli sd (sd_with_settings sd (Value (sts_with_wildcard_sections gs v))).
Proof. exact shielding_outputs_wildcard_sections. Qed.

Theorem C08_shielding_outputs_fill_value : forall sd gs v d d',
  parse sd = Ok d -> ds_settings sd = Value gs -> all_segments_give ss_fill_value sd ->
  parse (sd_with_settings sd (Value (sts_with_fill_value gs v))) = Ok d' ->
  d' = doc_with_settings d (doc_settings d') /\ same_core (doc_settings d) (doc_settings d') /\
  same_doc_outputs d d' /\ same_cli sd (sd_with_settings sd (Value (sts_with_fill_value gs v))).
Proof. exact shielding_outputs_fill_value. Qed.

Theorem C08_shielding_outputs_sections_subgroups : forall sd gs v d d',
  parse sd = Ok d -> ds_settings sd = Value gs -> all_segments_give ss_sections_subgroups sd ->
  parse (sd_with_settings sd (Value (sts_with_sections_subgroups gs v))) = Ok d' ->
  d' = doc_with_settings d (doc_settings d') /\ same_core (doc_settings d) (doc_settings d') /\
  same_doc_outputs d d' /\ same_cli sd (sd_with_settings sd (Value (sts_with_sections_subgroups gs v))).
Proof. exact shielding_outputs_sections_subgroups. Qed.

(* the twelve as one statement over the inductive [global_changed] *)
Theorem C08_shielding_outputs : forall sd sd' d d',
  parse sd = Ok d -> global_changed sd sd' -> parse sd' = Ok d' ->
  same_but_overridable d d' /\ same_doc_outputs d d' /\ same_cli sd sd'.
Proof. exact shielding_outputs. Qed.

(* ====================================================================== *)
(* examples on the witness documents of Spec/DocWitness.v                  *)
(* ====================================================================== *)

(* segment level: ovl_a (number 2) omits alloc_sections and inherits the global list *)
Definition c08l_sd_seg : document_serial :=
  sd_with_segment wit_sd 2 (ss_with_alloc_sections ss_ovl_a (Value [".text"; ".data"; ".rodata"; ".sdata"])).

Example c08l_ex_restated_segment :
  parse wit_sd = Ok wit_doc /\ sd_segment wit_sd 2 = Some ss_ovl_a /\ ss_alloc_sections ss_ovl_a = Absent /\
  restated wit_sd wit_doc c08l_sd_seg.
Proof.
  split; [vm_compute; reflexivity|]. split; [reflexivity|]. split; [reflexivity|].
  exact (rs_seg_alloc_sections wit_sd wit_doc 2 ss_ovl_a _ eq_refl eq_refl eq_refl).
Qed.

Example c08l_ex_restated_segment_same :
  c08l_sd_seg <> wit_sd /\ parse c08l_sd_seg = Ok wit_doc /\
  String.eqb (run_case c08l_sd_seg wit_rt false) (run_case wit_sd wit_rt false) = true /\
  String.eqb (run_case c08l_sd_seg wit_rt true) (run_case wit_sd wit_rt true) = true.
Proof.
  split.
  { intro E.
    assert (F : option_map ss_alloc_sections (sd_segment c08l_sd_seg 2) = option_map ss_alloc_sections (sd_segment wit_sd 2))
      by (rewrite E; reflexivity).
    vm_compute in F. discriminate F. }
  split; [vm_compute; reflexivity|]. split; vm_compute; reflexivity.
Qed.

(* global level: the settings omit subalign (documented default: null) and fill_value (default 0) *)
Definition c08l_sd_glob : document_serial :=
  sd_with_settings (sd_with_settings wit_sd (Value (sts_with_subalign (sts_wit false) Null)))
                   (Value (sts_with_fill_value (sts_with_subalign (sts_wit false) Null) (Value 0%N))).

Example c08l_ex_restated_global : restated_many wit_sd wit_doc c08l_sd_glob.
Proof.
  eapply rm_step; [eapply rm_step; [apply rm_refl|]|].
  - exact (rs_glob_subalign wit_sd wit_doc (sts_wit false) eq_refl eq_refl).
  - exact (rs_glob_fill_value (sd_with_settings wit_sd (Value (sts_with_subalign (sts_wit false) Null))) wit_doc (sts_with_subalign (sts_wit false) Null) eq_refl eq_refl).
Qed.

Example c08l_ex_restated_global_same :
  parse c08l_sd_glob = Ok wit_doc /\
  String.eqb (jcli (cli_run c08l_sd_glob (CliArgs None true ["version=us"] false)))
             (jcli (cli_run wit_sd (CliArgs None true ["version=us"] false))) = true /\
  match cli_run wit_sd (CliArgs None true ["version=us"] false) with CliResult ok _ ws => ok = true /\ List.length ws = 7 end.
Proof. split; [|split]; vm_compute; try reflexivity. split; reflexivity. Qed.

(* shielding: the only segment of wit_sd_single gives section_end_align (4); the global value goes from
   omitted to 64 *)
Definition c08l_sd_shield : document_serial :=
  sd_with_settings wit_sd_single (Value (sts_with_section_end_align (sts_wit true) (Value 64%N))).

Example c08l_ex_shielding_hyp :
  parse wit_sd_single = Ok wit_doc_single /\ ds_settings wit_sd_single = Value (sts_wit true) /\
  all_segments_give ss_section_end_align wit_sd_single /\ is_ok (parse c08l_sd_shield) = true /\
  global_changed wit_sd_single c08l_sd_shield.
Proof.
  assert (Hall : all_segments_give ss_section_end_align wit_sd_single).
  { intros l E. injection E as E. subst l. repeat constructor. discriminate. }
  split; [vm_compute; reflexivity|]. split; [reflexivity|]. split; [exact Hall|]. split; [vm_compute; reflexivity|].
  exact (gc_section_end_align wit_sd_single (sts_wit true) (Value 64%N) eq_refl Hall).
Qed.

Example c08l_ex_shielding_same :
  match parse wit_sd_single, parse c08l_sd_shield with
  | Ok d, Ok d' =>
      st_section_end_align (doc_settings d) = None /\ st_section_end_align (doc_settings d') = Some 64%N /\
      doc_segments d' = doc_segments d /\ gen_normal d' wit_rt = gen_normal d wit_rt /\ is_ok (gen_normal d wit_rt) = true
  | _, _ => False
  end.
Proof. vm_compute. repeat split; reflexivity. Qed.

(* COUNTEREXAMPLE to "every output": the harness record prints the parsed settings, so it differs *)
Example c08l_ex_shielding_run_case_differs :
  String.eqb (run_case wit_sd_single wit_rt false) (run_case c08l_sd_shield wit_rt false) = false.
Proof. vm_compute. reflexivity. Qed.

(* without shielding the outputs do change: boot omits fill_value in wit_sd; a global null removes its FILL *)
Example c08l_ex_unshielded_differs :
  match parse wit_sd, parse (sd_with_settings wit_sd (Value (sts_with_fill_value (sts_wit false) Null))) with
  | Ok d, Ok d' =>
      match gen_normal d wit_rt, gen_normal d' wit_rt with
      | Ok w, Ok w' => String.eqb (script_text w) (script_text w') = false
      | _, _ => False
      end
  | _, _ => False
  end.
Proof. vm_compute. reflexivity. Qed.

(* a shielded segment among unshielded ones: in wit_sd only ovl_b (number 3) gives fill_value (null); a global
   null leaves ovl_b as it was and changes boot (number 0), which inherits *)
Example c08l_ex_shielding_one_segment :
  given (ss_fill_value ss_ovl_b) /\ sd_segment wit_sd 3 = Some ss_ovl_b /\
  match parse wit_sd, parse (sd_with_settings wit_sd (Value (sts_with_fill_value (sts_wit false) Null))) with
  | Ok d, Ok d' => doc_segment d' 3 = doc_segment d 3 /\
                   option_map fill_value (doc_segment d 0) = Some (Some 0%N) /\
                   option_map fill_value (doc_segment d' 0) = Some None
  | _, _ => False
  end.
Proof. split; [discriminate|]. split; [reflexivity|]. vm_compute. repeat split; reflexivity. Qed.

Print Assumptions C08_parse_with_segment.
Print Assumptions C08_parse_with_settings.
Print Assumptions C08_doc_segment_parsed.
Print Assumptions C08_restate_segment_document_alloc_sections.
Print Assumptions C08_restate_segment_document_noload_sections.
Print Assumptions C08_restate_segment_document_subalign.
Print Assumptions C08_restate_segment_document_segment_start_align.
Print Assumptions C08_restate_segment_document_segment_end_align.
Print Assumptions C08_restate_segment_document_section_start_align.
Print Assumptions C08_restate_segment_document_section_end_align.
Print Assumptions C08_restate_segment_document_sections_start_alignment.
Print Assumptions C08_restate_segment_document_sections_end_alignment.
Print Assumptions C08_restate_segment_document_wildcard_sections.
Print Assumptions C08_restate_segment_document_fill_value.
Print Assumptions C08_restate_segment_document_sections_subgroups.
Print Assumptions C08_restate_global_document_alloc_sections.
Print Assumptions C08_restate_global_document_noload_sections.
Print Assumptions C08_restate_global_document_subalign.
Print Assumptions C08_restate_global_document_segment_start_align.
Print Assumptions C08_restate_global_document_segment_end_align.
Print Assumptions C08_restate_global_document_section_start_align.
Print Assumptions C08_restate_global_document_section_end_align.
Print Assumptions C08_restate_global_document_sections_start_alignment.
Print Assumptions C08_restate_global_document_sections_end_alignment.
Print Assumptions C08_restate_global_document_wildcard_sections.
Print Assumptions C08_restate_global_document_fill_value.
Print Assumptions C08_restate_global_document_sections_subgroups.
Print Assumptions C08_restate_global_document_empty_mapping.
Print Assumptions C08_restate_document.
Print Assumptions C08_restate_many_document.
Print Assumptions C08_same_parse_same_outputs.
Print Assumptions C08_restate_outputs.
Print Assumptions C08_restate_many_outputs.
Print Assumptions C08_outputs_read_only_the_core.
Print Assumptions C08_same_outputs_cli.
Print Assumptions C08_shield_document.
Print Assumptions C08_changed_global_fill_value.
Print Assumptions C08_shielding_outputs_alloc_sections.
Print Assumptions C08_shielding_outputs_noload_sections.
Print Assumptions C08_shielding_outputs_subalign.
Print Assumptions C08_shielding_outputs_segment_start_align.
Print Assumptions C08_shielding_outputs_segment_end_align.
Print Assumptions C08_shielding_outputs_section_start_align.
Print Assumptions C08_shielding_outputs_section_end_align.
Print Assumptions C08_shielding_outputs_sections_start_alignment.
Print Assumptions C08_shielding_outputs_sections_end_alignment.
Print Assumptions C08_shielding_outputs_wildcard_sections.
Print Assumptions C08_shielding_outputs_fill_value.
Print Assumptions C08_shielding_outputs_sections_subgroups.
Print Assumptions C08_shielding_outputs.
Print Assumptions C08_shielding_segment_document_alloc_sections.
Print Assumptions C08_shielding_segment_document_noload_sections.
Print Assumptions C08_shielding_segment_document_subalign.
Print Assumptions C08_shielding_segment_document_segment_start_align.
Print Assumptions C08_shielding_segment_document_segment_end_align.
Print Assumptions C08_shielding_segment_document_section_start_align.
Print Assumptions C08_shielding_segment_document_section_end_align.
Print Assumptions C08_shielding_segment_document_sections_start_alignment.
Print Assumptions C08_shielding_segment_document_sections_end_alignment.
Print Assumptions C08_shielding_segment_document_wildcard_sections.
Print Assumptions C08_shielding_segment_document_fill_value.
Print Assumptions C08_shielding_segment_document_sections_subgroups.
