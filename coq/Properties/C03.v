(* C03 - Each segment starts at the VRAM address the document requests.
   Only statements, each closed by [exact]; see Proofs/C03.v.  Link-level theorems hold for every
   previous-pass environment [env]/[senv], object symbols [ext], kind of pass [final] and starting state. *)
From Slinky Require Import Model.Types Model.Parse Model.Runtime Model.Style Model.Script Model.Writer Model.LdSem.
From Slinky Require Import Spec.C17 Spec.C04 Spec.C03 Proofs.C18 Proofs.C17 Proofs.C04 Proofs.C03.
From Coq Require Import ZArith.
Local Open Scope string_scope.
Local Open Scope Z_scope.

(* ====================================================================== *)
(* script level                                                            *)
(* ====================================================================== *)

(* C03_header: the address expression of a segment is the one its (single) address field asks for *)
Theorem C03_header : forall sty seg,
  at_most_one_addr seg -> AddrSpec sty seg (segment_addr sty seg).
Proof. exact addr_spec. Qed.

(* C03_at_most_one: an accepted segment sets at most one of fixed_vram, fixed_symbol, follows_segment,
   vram_class; so does every segment of a parsed document *)
Theorem C03_at_most_one : forall st s seg, parse_segment st s = Ok seg -> at_most_one_addr seg.
Proof. exact parse_segment_at_most_one. Qed.

Theorem C03_at_most_one_document : forall d doc, parse d = Ok doc -> Forall at_most_one_addr (doc_segments doc).
Proof. exact parse_at_most_one. Qed.

(* the address is on the allocatable header only: the headers of an included segment are
   (.name, address, AT(name_ROM_START), loadable) and (.name.noload, no address, no AT, NOLOAD) *)
Theorem C03_header_placement : forall rt stg cfg classes seg ws s ws',
  add_segment rt stg cfg classes seg ws = Ok (s, ws') ->
  headers s = (if should_emit rt (sg_conds seg) then segment_headers (linker_symbols_style stg) seg else []).
Proof. exact header_placement. Qed.

(* single-segment mode: ". = fixed_vram" once (when given), in the head, before any output section;
   nothing after it sets "." by assignment and no header has an address *)
Theorem C03_single_start : forall rt stg cfg classes seg ws s ws',
  add_single_segment rt stg cfg classes seg ws = Ok (s, ws') ->
  exists rest,
    s = [SSections (single_head stg cfg seg ++ rest)] /\
    filter sets_dot (single_head stg cfg seg) = single_start seg /\
    headers (single_head stg cfg seg) = [] /\
    existsb sets_dot rest = false /\
    Forall (fun h => snd (fst (fst h)) = None) (headers rest).
Proof. exact single_start_once. Qed.

(* ====================================================================== *)
(* link level                                                              *)
(* ====================================================================== *)

(* C03_outsec_start: an output section starts at the value of its address expression when it has one,
   else at "." rounded up to the alignment its contents need; afterwards "." is its end *)
Theorem C03_outsec_start : forall env senv ext final name addr at_ noload sub body st vma,
  match addr with
  | Some e => eval_expr env senv ext st (l_dot st) e
  | None => Ok (align_up (l_dot st) (body_align (option_map Z.of_N sub) body (l_remaining st) 1))
  end = Ok vma ->
  sizes_ok st ->
  let st' := exec_outsec env senv ext final name addr at_ noload sub body st in
  exists o, l_secs st' = (l_secs st ++ [o])%list /\ os_name o = name /\ os_vma o = vma /\
            os_noload o = noload /\ 0 <= os_size o /\ l_dot st' = os_vma o + os_size o /\ sizes_ok st'.
Proof. exact outsec_start. Qed.

(* when the address cannot be evaluated nothing is placed and the link reports it *)
Theorem C03_outsec_failed : forall env senv ext final name e at_ noload sub body st err,
  eval_expr env senv ext st (l_dot st) e = Err err ->
  exec_outsec env senv ext final name (Some e) at_ noload sub body st = add_err (LForwardRef name) st.
Proof. exact outsec_failed_some. Qed.

(* C03_vram_symbol: X_VRAM = ADDR(.X) gets the address of the section .X (of this pass if already
   placed, else of the previous pass) *)
Theorem C03_vram_symbol : forall env senv ext final st x sec o,
  x <> "." -> sec_lookup sec st senv = Some o ->
  exec_top_stmt env senv ext final st (linker_symbol x (EAddr sec)) = set_sym x (os_vma o) false st.
Proof. exact vram_symbol. Qed.

(* single-segment mode: ". = fixed_vram" moves "." there; the sections that follow have no address,
   so each starts at "." (C03_outsec_start), in list order *)
Theorem C03_single_start_link : forall env senv ext final st p h r v,
  exec_top_stmt env senv ext final st (SAssign p h r "." (EHex8 v)) = set_dot (Z.of_N v) st.
Proof. exact set_dot_literal. Qed.

(* the segment as a whole, for ARBITRARY section bodies and arbitrary "."-preserving statements
   around the two output sections: where both sections are placed, "." at the end, VRAM_END,
   VRAM_SIZE, VRAM *)
Theorem C03_segment_vram_any_body :
  forall env senv ext final stg seg cls a1 addr at1 sub body1 b1 a2 at2 sub2 body2 b2 st0,
  let sty := linker_symbols_style stg in
  let name := sg_name seg in
  let VS := segment_vram_start sty name in
  let VE := segment_vram_end sty name in
  let VZ := segment_vram_size sty name in
  let O1 := SOutSec (alloc_name seg) addr at1 false sub body1 in
  let O2 := SOutSec (noload_name seg) None at2 true sub2 body2 in
  let pre := (cls ++ seg_head stg seg ++ a1)%list in
  let L := (pre ++ O1 :: b1 ++ [SBlank] ++ a2 ++ O2 :: b2 ++ [SBlank] ++ seg_foot stg seg)%list in
  let stE := run env senv ext final pre st0 in
  let st' := run env senv ext final L st0 in
  forallb keeps_dot (cls ++ a1 ++ b1 ++ a2 ++ b2) = true ->
  vram_names_distinct sty name L = true ->
  ~ In (LForwardRef (alloc_name seg)) (l_errors st') ->
  sizes_ok st0 ->
  exists o1 o2 A2,
    l_dot stE = align_up (l_dot st0) (align_z (segment_start_align seg)) /\
    outsec_vma env senv ext addr sub body1 stE = Ok (os_vma o1) /\
    l_secs st' = (l_secs st0 ++ [o1; o2])%list /\
    os_name o1 = alloc_name seg /\ os_noload o1 = false /\ 0 <= os_size o1 /\
    os_name o2 = noload_name seg /\ os_noload o2 = true /\ os_contents o2 = false /\ 0 <= os_size o2 /\
    os_vma o2 = align_up (os_vma o1 + os_size o1) A2 /\ os_vma o1 + os_size o1 <= os_vma o2 /\
    let ve := align_up (os_vma o2 + os_size o2) (align_z (segment_end_align seg)) in
    l_dot st' = ve /\ val st' VE = Some ve /\
    (forall v, val st' VS = Some v -> val st' VZ = Some (ve - v)) /\
    (forall o, sec_lookup (alloc_name seg) st0 senv = Some o -> val st' VS = Some (os_vma o)).
Proof. exact segment_vram_general. Qed.

(* the same for what add_segment emits for an included segment; [stE] is the state in which the
   address expression is evaluated *)
Theorem C03_segment_vram : forall env senv ext final rt stg cfg classes seg ws s ws' st0,
  add_segment rt stg cfg classes seg ws = Ok (s, ws') ->
  should_emit rt (sg_conds seg) = true ->
  let sty := linker_symbols_style stg in
  let name := sg_name seg in
  let st' := run env senv ext final s st0 in
  vram_names_distinct sty name s = true ->
  ~ In (LForwardRef (alloc_name seg)) (l_errors st') ->
  sizes_ok st0 ->
  exists cls ws1 body1 o1 o2 A2,
    class_part stg classes seg ws = Ok (cls, ws1) /\
    let stE := run env senv ext final (cls ++ seg_head stg seg ++ sections_kind_start sty cfg seg false) st0 in
    l_dot stE = align_up (l_dot st0) (align_z (segment_start_align seg)) /\
    outsec_vma env senv ext (segment_addr sty seg) (subalign seg) body1 stE = Ok (os_vma o1) /\
    l_secs st' = (l_secs st0 ++ [o1; o2])%list /\
    os_name o1 = alloc_name seg /\ os_noload o1 = false /\ 0 <= os_size o1 /\
    os_name o2 = noload_name seg /\ os_noload o2 = true /\ os_contents o2 = false /\ 0 <= os_size o2 /\
    os_vma o2 = align_up (os_vma o1 + os_size o1) A2 /\ os_vma o1 + os_size o1 <= os_vma o2 /\
    let ve := align_up (os_vma o2 + os_size o2) (align_z (segment_end_align seg)) in
    l_dot st' = ve /\ val st' (segment_vram_end sty name) = Some ve /\
    (forall v, val st' (segment_vram_start sty name) = Some v ->
               val st' (segment_vram_size sty name) = Some (ve - v)) /\
    (forall o, sec_lookup (alloc_name seg) st0 senv = Some o ->
               val st' (segment_vram_start sty name) = Some (os_vma o)).
Proof. exact segment_vram. Qed.

(* the statements executed before the address is evaluated assign only these names: every other
   symbol (e.g. the VRAM_END of the followed segment) still has the value it had before the segment *)
Theorem C03_prefix_frame : forall stg classes cfg seg ws cls ws1 x,
  class_part stg classes seg ws = Ok (cls, ws1) ->
  ~ In x (prefix_names stg cfg seg) ->
  existsb (assigns x) (cls ++ seg_head stg seg ++ sections_kind_start (linker_symbols_style stg) cfg seg false) = false.
Proof. exact prefix_frame. Qed.

Theorem C03_lookup_frame : forall env senv ext final l st x,
  existsb (assigns x) l = false ->
  sym_lookup x (run env senv ext final l st) env ext = sym_lookup x st env ext.
Proof. exact sym_lookup_frame. Qed.

(* the start address, by kind of request: the literal fixed_vram; the value of the fixed_symbol text;
   the VRAM_END of the followed segment; the start of the class; otherwise "." (which is the previous
   VRAM_END, see C03_default_start_after) rounded up to what the contents need *)
Theorem C03_requested_start : forall env senv ext sty seg sub body stE vma,
  at_most_one_addr seg ->
  outsec_vma env senv ext (segment_addr sty seg) sub body stE = Ok vma ->
  (forall v, sg_fixed_vram seg = Some v -> vma = Z.of_N v) /\
  (forall s, sg_fixed_symbol seg = Some s -> eval_raw env ext stE s = Ok vma) /\
  (forall f, sg_follows_segment seg = Some f -> sym_lookup (segment_vram_end sty f) stE env ext = Some vma) /\
  (forall c, sg_vram_class seg = Some c -> sym_lookup (vram_class_start sty c) stE env ext = Some vma) /\
  (sg_fixed_vram seg = None -> sg_fixed_symbol seg = None -> sg_follows_segment seg = None ->
   sg_vram_class seg = None ->
   vma = align_up (l_dot stE) (body_align (option_map Z.of_N sub) body (l_remaining stE) 1)).
Proof. exact requested_start. Qed.

(* a fixed_symbol that is a plain symbol name evaluates to the address of that symbol *)
Theorem C03_plain_symbol_value : forall env ext st s v,
  defined_arg s = None -> split_on " " s = [s] -> parse_num s = None ->
  sym_lookup s st env ext = Some v -> eval_raw env ext st s = Ok v.
Proof. exact eval_raw_plain_symbol. Qed.

Example ex_plain_symbol :
  defined_arg "entrypoint" = None /\ split_on " " "entrypoint" = ["entrypoint"] /\ parse_num "entrypoint" = None.
Proof. repeat split; reflexivity. Qed.

(* C03_noload_follows *)
Theorem C03_noload_follows : forall env senv ext final rt stg cfg classes seg ws s ws' st0,
  add_segment rt stg cfg classes seg ws = Ok (s, ws') ->
  should_emit rt (sg_conds seg) = true ->
  let sty := linker_symbols_style stg in
  let st' := run env senv ext final s st0 in
  vram_names_distinct sty (sg_name seg) s = true ->
  ~ In (LForwardRef (alloc_name seg)) (l_errors st') ->
  sizes_ok st0 ->
  exists o1 o2,
    l_secs st' = (l_secs st0 ++ [o1; o2])%list /\
    os_name o1 = alloc_name seg /\ os_name o2 = noload_name seg /\
    os_noload o1 = false /\ os_noload o2 = true /\
    0 <= os_size o1 /\ os_vma o1 + os_size o1 <= os_vma o2.
Proof. exact noload_follows. Qed.

(* C03_vram_end *)
Theorem C03_vram_end : forall env senv ext final rt stg cfg classes seg ws s ws' st0,
  add_segment rt stg cfg classes seg ws = Ok (s, ws') ->
  should_emit rt (sg_conds seg) = true ->
  let sty := linker_symbols_style stg in
  let name := sg_name seg in
  let st' := run env senv ext final s st0 in
  vram_names_distinct sty name s = true ->
  ~ In (LForwardRef (alloc_name seg)) (l_errors st') ->
  sizes_ok st0 ->
  exists o1 o2,
    l_secs st' = (l_secs st0 ++ [o1; o2])%list /\ os_name o2 = noload_name seg /\
    let ve := align_up (os_vma o2 + os_size o2) (align_z (segment_end_align seg)) in
    l_dot st' = ve /\ val st' (segment_vram_end sty name) = Some ve /\
    (forall v, val st' (segment_vram_start sty name) = Some v ->
               val st' (segment_vram_size sty name) = Some (ve - v)).
Proof. exact vram_end. Qed.

(* C03_default_start *)
Theorem C03_default_start : forall env senv ext final rt stg cfg classes seg ws s ws' st0,
  add_segment rt stg cfg classes seg ws = Ok (s, ws') ->
  should_emit rt (sg_conds seg) = true ->
  sg_fixed_vram seg = None -> sg_fixed_symbol seg = None -> sg_follows_segment seg = None ->
  sg_vram_class seg = None ->
  let sty := linker_symbols_style stg in
  let st' := run env senv ext final s st0 in
  vram_names_distinct sty (sg_name seg) s = true ->
  ~ In (LForwardRef (alloc_name seg)) (l_errors st') ->
  sizes_ok st0 ->
  exists o1 o2 A,
    l_secs st' = (l_secs st0 ++ [o1; o2])%list /\ os_name o1 = alloc_name seg /\
    os_vma o1 = align_up (align_up (l_dot st0) (align_z (segment_start_align seg))) A.
Proof. exact default_start. Qed.

(* ... and "." before the segment is the VRAM_END of the segment emitted just before it *)
Theorem C03_default_start_after : forall env senv ext final rt stg cfg classes a b ws sa ws1 sb ws2 st0,
  add_segment rt stg cfg classes a ws = Ok (sa, ws1) ->
  add_segment rt stg cfg classes b ws1 = Ok (sb, ws2) ->
  should_emit rt (sg_conds a) = true -> should_emit rt (sg_conds b) = true ->
  sg_fixed_vram b = None -> sg_fixed_symbol b = None -> sg_follows_segment b = None -> sg_vram_class b = None ->
  let sty := linker_symbols_style stg in
  let st1 := run env senv ext final sa st0 in
  let st2 := run env senv ext final (sa ++ sb) st0 in
  vram_names_distinct sty (sg_name a) sa = true ->
  vram_names_distinct sty (sg_name b) sb = true ->
  (forall n, ~ In (LForwardRef n) (l_errors st2)) ->
  sizes_ok st0 ->
  exists ve oa1 oa2 ob1 ob2 A,
    val st1 (segment_vram_end sty (sg_name a)) = Some ve /\ l_dot st1 = ve /\
    l_secs st2 = (l_secs st0 ++ [oa1; oa2; ob1; ob2])%list /\
    os_name ob1 = alloc_name b /\
    os_vma ob1 = align_up (align_up ve (align_z (segment_start_align b))) A.
Proof. exact default_start_after. Qed.

(* ====================================================================== *)
(* examples                                                                *)
(* ====================================================================== *)

Example ex_at_most_one : Forall at_most_one_addr (doc_segments ex_doc).
Proof. unfold at_most_one_addr. vm_compute. repeat constructor. Qed.

Example ex_vram_names_distinct :
  forallb (fun seg => vram_names_distinct Splat (sg_name seg) ex_sections_body)
          (included ex_rt (doc_segments ex_doc)) = true.
Proof. vm_compute. reflexivity. Qed.

(* a full link of the sample script: boot has no address request and starts at 0, its noload part
   follows its allocatable part (68 rounded up to the 8 that .bss needs), boot_VRAM_END is the end of
   the noload part; ovl_a starts at the start of its class *)
Example ex_link_vram :
  let st := layout ex_script ex_universe [("main", 5)] in
  l_errors st = [] /\
  map (fun o => (os_name o, os_vma o, os_size o)) (firstn 4 (l_secs st)) =
  [(".boot", 0, 68); (".boot.noload", 72, 100); (".ovl_a", 2148532224, 24); (".ovl_a.noload", 2148532248, 8)] /\
  val st "boot_VRAM" = Some 0 /\ val st "boot_VRAM_END" = Some 172 /\ val st "boot_VRAM_SIZE" = Some 172 /\
  val st "overlay_VRAM_CLASS_START" = Some 2148532224 /\ val st "ovl_a_VRAM" = Some 2148532224 /\
  val st "ovl_a_VRAM_END" = Some 2148532256.
Proof. vm_compute. repeat split; reflexivity. Qed.

Print Assumptions C03_header.
Print Assumptions C03_at_most_one.
Print Assumptions C03_at_most_one_document.
Print Assumptions C03_header_placement.
Print Assumptions C03_single_start.
Print Assumptions C03_outsec_start.
Print Assumptions C03_outsec_failed.
Print Assumptions C03_vram_symbol.
Print Assumptions C03_single_start_link.
Print Assumptions C03_segment_vram_any_body.
Print Assumptions C03_segment_vram.
Print Assumptions C03_prefix_frame.
Print Assumptions C03_lookup_frame.
Print Assumptions C03_requested_start.
Print Assumptions C03_plain_symbol_value.
Print Assumptions C03_noload_follows.
Print Assumptions C03_vram_end.
Print Assumptions C03_default_start.
Print Assumptions C03_default_start_after.
