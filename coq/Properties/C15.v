(* C15 - Generation is deterministic.
   The model is a function of (document, options): repeated calls, in one process or several, give
   equal results by construction.  What is proved here is the independence from the two orders the
   inputs do not fix: the iteration order of the section_order hash map (an association list in the
   model, any permutation of which must give the same output) and the order in which the custom
   options were supplied.  Only statements, each closed by [exact]; see Proofs/C15.v. *)
From Slinky Require Import Model.Types Model.Parse Model.Runtime Model.Style Model.Script Model.Writer
  Model.Exports Spec.C15 Proofs.C14 Proofs.C15.
Local Open Scope string_scope.

(* ---------- 1. the section_order map ---------- *)

(* insertion sort under a total order gives the same list for every permutation of its input (the
   order properties are only needed on the elements being sorted) *)
Theorem C15_sort_perm : forall le l1 l2,
  le_total_on (fun x => In x l1) le -> le_trans_on (fun x => In x l1) le ->
  le_antisym_on (fun x => In x l1) le ->
  Permutation l1 l2 -> sort_by le l1 = sort_by le l2.
Proof. exact sort_perm. Qed.

(* the sort key (position in the part's section list, then name) is such an order, for every list *)
Theorem C15_key_le_total : forall sections a b,
  key_le sections a b = true \/ key_le sections b a = true.
Proof. exact key_le_total. Qed.

Theorem C15_key_le_trans : forall sections a b c,
  key_le sections a b = true -> key_le sections b c = true -> key_le sections a c = true.
Proof. exact key_le_trans. Qed.

Theorem C15_key_le_antisym : forall sections a b,
  key_le sections a b = true -> key_le sections b a = true -> a = b.
Proof. exact key_le_antisym. Qed.

(* the sections emitted for an entry at a section do not depend on the order of its section_order
   (all the other fields of the two entries are arbitrary: only fi_section_order is read; no
   distinctness of the keys is needed) *)
Theorem C15_section_order_invariant : forall f1 f2 section sections,
  Permutation (fi_section_order f1) (fi_section_order f2) ->
  sections_here f1 section sections = sections_here f2 section sections.
Proof. exact sections_here_perm. Qed.

(* ... hence neither does anything emitted for the entry *)
Theorem C15_entry_section_order : forall rt sty cfg seg sections f so n stack section base ws,
  Permutation (fi_section_order f) so ->
  emit_sff rt sty cfg seg sections (with_section_order f so) n stack section base ws =
  emit_sff rt sty cfg seg sections f n stack section base ws.
Proof. exact emit_sff_section_order. Qed.

(* ... nor the generated scripts and recorded paths, when the section_order of any number of
   entries at any depth of any segment is permuted *)
Theorem C15_gen_section_order : forall rt d segs2,
  Forall2 seg_so_perm (doc_segments d) segs2 ->
  gen_normal (with_segments d segs2) rt = gen_normal d rt.
Proof. exact gen_normal_so. Qed.

Theorem C15_gen_partial_section_order : forall rt d segs2,
  Forall2 seg_so_perm (doc_segments d) segs2 ->
  gen_partial (with_segments d segs2) rt = gen_partial d rt.
Proof. exact gen_partial_so. Qed.

(* ---------- 2. the custom options ---------- *)

(* options with distinct keys: the value found for a key does not depend on the order *)
Theorem C15_option_order : forall k (l1 l2 : pairs),
  Permutation l1 l2 -> NoDup (map fst l1) -> lookup_last k l1 = lookup_last k l2.
Proof. exact lookup_last_perm. Qed.

(* the same when a key is repeated, as long as it is never given two different values *)
Theorem C15_option_order_consistent : forall k l1 l2,
  Permutation l1 l2 -> consistent_options l1 -> lookup_last k l1 = lookup_last k l2.
Proof. exact lookup_last_perm_consistent. Qed.

(* two option sequences whose last binding agrees for every key answer every query alike *)
Theorem C15_opt_get_last : forall rt1 rt2,
  (forall k, lookup_last k (rt_options rt1) = lookup_last k (rt_options rt2)) ->
  forall k, opt_get rt1 k = opt_get rt2 k.
Proof. exact same_options_of_lookup. Qed.

(* generation reads the options only through opt_get: scripts and recorded paths ... *)
Theorem C15_gen_ext : forall rt1 rt2,
  (forall k, opt_get rt1 k = opt_get rt2 k) ->
  rt_emit_version_comment rt1 = rt_emit_version_comment rt2 ->
  forall d, gen_normal d rt1 = gen_normal d rt2.
Proof. exact gen_normal_ext. Qed.

Theorem C15_gen_partial_ext : forall rt1 rt2,
  (forall k, opt_get rt1 k = opt_get rt2 k) ->
  rt_emit_version_comment rt1 = rt_emit_version_comment rt2 ->
  forall d, gen_partial d rt1 = gen_partial d rt2.
Proof. exact gen_partial_ext. Qed.

(* ... the dependency file and the header (they do not read the options at all) ... *)
Theorem C15_deps_ext : forall rt1 rt2,
  rt_emit_version_comment rt1 = rt_emit_version_comment rt2 ->
  forall w target, deps_text rt1 w target = deps_text rt2 w target.
Proof. exact deps_text_ext. Qed.

Theorem C15_header_ext : forall rt1 rt2,
  rt_emit_version_comment rt1 = rt_emit_version_comment rt2 ->
  forall st w, header_text rt1 st w = header_text rt2 st w.
Proof. exact header_text_ext. Qed.

(* ... and the list of files written besides the script, paths and contents *)
Theorem C15_other_files_ext : forall rt1 rt2,
  (forall k, opt_get rt1 k = opt_get rt2 k) ->
  rt_emit_version_comment rt1 = rt_emit_version_comment rt2 ->
  forall st w, save_other_files_normal rt1 st w = save_other_files_normal rt2 st w.
Proof. exact save_other_files_normal_ext. Qed.

Theorem C15_other_files_partial_ext : forall rt1 rt2,
  (forall k, opt_get rt1 k = opt_get rt2 k) ->
  rt_emit_version_comment rt1 = rt_emit_version_comment rt2 ->
  forall st p, save_other_files_partial rt1 st p = save_other_files_partial rt2 st p.
Proof. exact save_other_files_partial_ext. Qed.

Theorem C15_export_partial_ext : forall rt1 rt2,
  (forall k, opt_get rt1 k = opt_get rt2 k) ->
  forall st p path, export_script_partial rt1 st p path = export_script_partial rt2 st p path.
Proof. exact export_script_partial_ext. Qed.

(* the layers below, for reference *)
Theorem C15_should_emit_ext : forall rt1 rt2,
  (forall k, opt_get rt1 k = opt_get rt2 k) -> forall c, should_emit rt1 c = should_emit rt2 c.
Proof. exact should_emit_ext. Qed.

Theorem C15_escape_path_ext : forall rt1 rt2,
  (forall k, opt_get rt1 k = opt_get rt2 k) -> forall p, escape_path rt1 p = escape_path rt2 p.
Proof. exact escape_path_ext. Qed.

Theorem C15_emit_sff_ext : forall rt1 rt2,
  (forall k, opt_get rt1 k = opt_get rt2 k) ->
  forall sty cfg seg sections f n stack section base ws,
    emit_sff rt1 sty cfg seg sections f n stack section base ws =
    emit_sff rt2 sty cfg seg sections f n stack section base ws.
Proof. exact emit_sff_ext. Qed.

(* put together: supplying the same distinct options in another order changes nothing *)
Theorem C15_gen_option_order : forall d l1 l2 b,
  Permutation l1 l2 -> consistent_options l1 ->
  gen_normal d (Runtime l1 b) = gen_normal d (Runtime l2 b).
Proof. exact gen_normal_option_order. Qed.

Theorem C15_gen_partial_option_order : forall d l1 l2 b,
  Permutation l1 l2 -> consistent_options l1 ->
  gen_partial d (Runtime l1 b) = gen_partial d (Runtime l2 b).
Proof. exact gen_partial_option_order. Qed.

Theorem C15_nodup_consistent : forall l : pairs, NoDup (map fst l) -> consistent_options l.
Proof. exact nodup_keys_consistent. Qed.

(* the command-line tool: exit status, standard output and every file written (script(s),
   dependency file(s), header) are the same for two invocations giving the same options in
   different orders *)
Theorem C15_cli_option_order : forall sd a1 a2 opts1 opts2,
  cli_output a1 = cli_output a2 -> cli_partial a1 = cli_partial a2 ->
  cli_omit_version_comment a1 = cli_omit_version_comment a2 ->
  parse_key_vals (cli_options a1) = Some opts1 -> parse_key_vals (cli_options a2) = Some opts2 ->
  Permutation opts1 opts2 -> consistent_options opts1 ->
  cli_run sd a1 = cli_run sd a2.
Proof. exact cli_run_option_order. Qed.

(* ---------- examples ---------- *)

(* the hypotheses are met by concrete non-trivial inputs *)
Example C15_ex_so_permutation : Permutation ex15_so1 ex15_so2.
Proof. exact ex15_so_permutation. Qed.

Example C15_ex_sections_here :
  sections_here (ex15_file ex15_so1) ".text" [".text"; ".data"; ".rodata"] =
    [".aa"; ".zz"; ".text"; ".data"; ".rodata"] /\
  sections_here (ex15_file ex15_so2) ".text" [".text"; ".data"; ".rodata"] =
    [".aa"; ".zz"; ".text"; ".data"; ".rodata"].
Proof. vm_compute. split; reflexivity. Qed.

Example C15_ex_documents_related :
  exists d1 d2,
    parse (ex15_doc ex15_so1) = Ok d1 /\ parse (ex15_doc ex15_so2) = Ok d2 /\
    d2 = with_segments d1 (doc_segments d2) /\
    Forall2 seg_so_perm (doc_segments d1) (doc_segments d2).
Proof. exact ex15_related. Qed.

(* scripts, dependency files and header of the two documents, byte for byte *)
Example C15_ex_section_order_outputs :
  all_outputs (ex15_doc ex15_so1) ex15_opts1 = all_outputs (ex15_doc ex15_so2) ex15_opts1 /\
  is_ok (all_outputs (ex15_doc ex15_so1) ex15_opts1) = true.
Proof. vm_compute. split; reflexivity. Qed.

Example C15_ex_opts_permutation : Permutation ex15_opts1 ex15_opts2 /\ NoDup (map fst ex15_opts1).
Proof. exact (conj ex15_opts_permutation ex15_opts1_nodup). Qed.

Example C15_ex_opts3_consistent : consistent_options ex15_opts3.
Proof. exact ex15_opts3_consistent. Qed.

Example C15_ex_option_order_outputs :
  all_outputs (ex15_doc ex15_so1) ex15_opts1 = all_outputs (ex15_doc ex15_so1) ex15_opts2 /\
  all_outputs (ex15_doc ex15_so1) ex15_opts1 = all_outputs (ex15_doc ex15_so2) ex15_opts3.
Proof. vm_compute. split; reflexivity. Qed.

Example C15_ex_cli :
  cli_run (ex15_doc ex15_so1) (CliArgs (Some "{out}/ex.ld") true ["dir=src,ver=us"; "out=build"] false) =
  cli_run (ex15_doc ex15_so2) (CliArgs (Some "{out}/ex.ld") true ["out=build"; "ver=us"; "dir=src"] false) /\
  match cli_run (ex15_doc ex15_so1)
                (CliArgs (Some "{out}/ex.ld") true ["dir=src,ver=us"; "out=build"] false) with
  | CliResult ok _ writes => ok = true /\ map fst writes =
      ["build/ex.ld"; "ld/partial/main.ld"; "build/ex.d"; "build/syms.h"; "ld/partial/main.d"]
  end.
Proof. vm_compute. repeat split; reflexivity. Qed.

(* the consistency hypothesis cannot be dropped: with two different values for one key the order
   decides (HashMap::extend: the last one wins) *)
Example C15_ex_conflicting_options :
  lookup_last "ver" [("ver", "us"); ("ver", "jp")] = Some "jp" /\
  lookup_last "ver" [("ver", "jp"); ("ver", "us")] = Some "us".
Proof. vm_compute. split; reflexivity. Qed.

Print Assumptions C15_sort_perm.
Print Assumptions C15_key_le_total.
Print Assumptions C15_key_le_trans.
Print Assumptions C15_key_le_antisym.
Print Assumptions C15_section_order_invariant.
Print Assumptions C15_entry_section_order.
Print Assumptions C15_gen_section_order.
Print Assumptions C15_gen_partial_section_order.
Print Assumptions C15_option_order.
Print Assumptions C15_option_order_consistent.
Print Assumptions C15_opt_get_last.
Print Assumptions C15_gen_ext.
Print Assumptions C15_gen_partial_ext.
Print Assumptions C15_deps_ext.
Print Assumptions C15_header_ext.
Print Assumptions C15_other_files_ext.
Print Assumptions C15_other_files_partial_ext.
Print Assumptions C15_export_partial_ext.
Print Assumptions C15_should_emit_ext.
Print Assumptions C15_escape_path_ext.
Print Assumptions C15_emit_sff_ext.
Print Assumptions C15_gen_option_order.
Print Assumptions C15_gen_partial_option_order.
Print Assumptions C15_nodup_consistent.
Print Assumptions C15_cli_option_order.
