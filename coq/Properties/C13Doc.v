(* C13Doc - the symbols header characterised from the DOCUMENT.  Only statements, each closed by
   [exact]; see Spec/C13Doc.v for the lists and Proofs/C13Doc.v for the proofs.

   [doc_header_symbols d rt] is computed by recursion over the document: for every included segment,
   in order, the start/end symbols of its vram class at its first use and [seg_symbols] (ROM/VRAM
   start, per half the kind symbols around START, linker offsets, END, SIZE of each section, then VRAM
   end/size and ROM end/size); at the end the size symbol of every declared class in use.  It is the
   list [doc_named_symbols] of Spec/DocWf.v without "__romPos" and without the user's assignments, in
   script order (C13_document_named_split). *)
From Slinky Require Import Model.Types Model.Runtime Model.Style Model.Script Model.Writer Model.Exports.
From Slinky Require Import Spec.C18 Spec.C04 Spec.C13 Spec.DocLevel Spec.DocPartial Spec.DocSingle Spec.DocWf
  Spec.C13Doc.
From Slinky Require Import Proofs.C17 Proofs.C13Doc.
Local Open Scope string_scope.

(* ---------- the ordinary script, multi-segment mode ---------- *)

(* the names assigned through write_linker_symbol, in script order and with multiplicity, are the
   document's list *)
Theorem C13_document_recorded : forall d rt w,
  gen_normal d rt = Ok w -> single_segment_mode (doc_settings d) = false ->
  recorded_syms (wo_script w) = doc_header_symbols d rt.
Proof. exact document_recorded. Qed.

(* the header declares the first occurrence of each name of the list, in that order *)
Theorem C13_document_header : forall d rt w,
  gen_normal d rt = Ok w -> single_segment_mode (doc_settings d) = false ->
  linker_symbols w = keep_first String.eqb (doc_header_symbols d rt).
Proof. exact document_header. Qed.

(* without repetition in the list the header declares exactly the list, in that order *)
Theorem C13_document_header_nodup : forall d rt w,
  gen_normal d rt = Ok w -> single_segment_mode (doc_settings d) = false ->
  nodup_str (doc_header_symbols d rt) = true ->
  linker_symbols w = doc_header_symbols d rt.
Proof. exact document_header_nodup. Qed.

(* the text of the header *)
Theorem C13_document_header_text : forall d rt w,
  gen_normal d rt = Ok w -> single_segment_mode (doc_settings d) = false ->
  header_text rt (doc_settings d) w =
  header_spec rt (doc_settings d) (keep_first String.eqb (doc_header_symbols d rt)).
Proof. exact document_header_text. Qed.

Theorem C13_document_header_text_nodup : forall d rt w,
  gen_normal d rt = Ok w -> single_segment_mode (doc_settings d) = false ->
  nodup_str (doc_header_symbols d rt) = true ->
  header_text rt (doc_settings d) w = header_spec rt (doc_settings d) (doc_header_symbols d rt).
Proof. exact document_header_text_nodup. Qed.

(* a name is declared iff it is in the document's list *)
Theorem C13_document_declared_iff : forall d rt w x,
  gen_normal d rt = Ok w -> single_segment_mode (doc_settings d) = false ->
  (In x (linker_symbols w) <-> In x (doc_header_symbols d rt)).
Proof. exact document_declared_iff. Qed.

(* every name of the list is one of the 13 style functions applied to some arguments (style_name,
   Proofs/C17.v: a template of Model/Generated.v filled in), whatever the document *)
Theorem C13_document_list_forms : forall d rt,
  Forall (style_name (linker_symbols_style (doc_settings d))) (doc_header_symbols d rt).
Proof. exact doc_header_style. Qed.

(* hence, by construction, the list contains none of _gp, __romPos and "." *)
Theorem C13_document_list_not_special : forall d rt,
  ~ In "_gp" (doc_header_symbols d rt) /\ ~ In "__romPos" (doc_header_symbols d rt) /\
  ~ In "." (doc_header_symbols d rt).
Proof. exact doc_header_not_special. Qed.

(* _gp, __romPos and "." are not declared; the name of a user's symbol assignment is declared only if
   it is also a name of the list (a name slinky generated itself); every declared name is a style
   function applied to some arguments *)
Theorem C13_document_excludes : forall d rt w,
  gen_normal d rt = Ok w -> single_segment_mode (doc_settings d) = false ->
  ~ In "_gp" (linker_symbols w) /\ ~ In "__romPos" (linker_symbols w) /\ ~ In "." (linker_symbols w) /\
  (forall a, In a (doc_symbol_assignments d) -> In (sa_name a) (linker_symbols w) ->
             In (sa_name a) (doc_header_symbols d rt)) /\
  (forall x, In x (linker_symbols w) -> style_name (linker_symbols_style (doc_settings d)) x).
Proof. exact document_excludes. Qed.

(* against Spec/DocWf.v: the named symbols are __romPos, the header list and the user's assignments *)
Theorem C13_document_named_split : forall d rt x,
  count_occ string_dec (doc_named_symbols d rt) x =
  (if String.eqb "__romPos" x then 1 else 0) + count_occ string_dec (doc_header_symbols d rt) x +
  count_occ string_dec (user_symbols rt (doc_symbol_assignments d)) x.
Proof. exact named_symbols_split. Qed.

(* so the document condition of C04DocWf (doc_names_distinct) gives the header without repetition *)
Theorem C13_document_nodup_of_distinct : forall d rt,
  doc_names_distinct d rt = true -> nodup_str (doc_header_symbols d rt) = true.
Proof. exact header_nodup_of_distinct. Qed.

(* ---------- the main script of partial linking ---------- *)

(* gen_partial does not read single_segment_mode; the segments of the main script hold one partial
   object each: the same list without linker offsets *)
Theorem C13_document_main_recorded : forall d rt p,
  gen_partial d rt = Ok p ->
  recorded_syms (wo_script (po_main p)) = doc_header_symbols_main d rt.
Proof. exact main_recorded. Qed.

Theorem C13_document_main_header : forall d rt p,
  gen_partial d rt = Ok p ->
  linker_symbols (po_main p) = keep_first String.eqb (doc_header_symbols_main d rt).
Proof. exact main_header. Qed.

Theorem C13_document_main_header_nodup : forall d rt p,
  gen_partial d rt = Ok p -> nodup_str (doc_header_symbols_main d rt) = true ->
  linker_symbols (po_main p) = doc_header_symbols_main d rt.
Proof. exact main_header_nodup. Qed.

(* it is the list of the document of the clones (Spec/DocPartial.v) *)
Theorem C13_document_main_of_clones : forall d rt folder,
  doc_header_symbols (partial_doc d folder) rt = doc_header_symbols_main d rt.
Proof. exact header_of_clones. Qed.

(* and, as a multiset, the ordinary list without the linker offsets [doc_offsets] *)
Theorem C13_document_main_offsets : forall d rt x,
  count_occ string_dec (doc_header_symbols d rt) x =
  count_occ string_dec (doc_header_symbols_main d rt) x + count_occ string_dec (doc_offsets d rt) x.
Proof. exact header_main_offsets. Qed.

Theorem C13_document_main_nodup_of_ordinary : forall d rt,
  nodup_str (doc_header_symbols d rt) = true -> nodup_str (doc_header_symbols_main d rt) = true.
Proof. exact main_nodup_of_ordinary. Qed.

Theorem C13_document_main_list_forms : forall d rt,
  Forall (style_name (linker_symbols_style (doc_settings d))) (doc_header_symbols_main d rt).
Proof. exact doc_header_main_style. Qed.

(* a per-segment script records the linker offsets of its segment, nothing else *)
Theorem C13_document_sub_recorded : forall d rt p name w,
  gen_partial d rt = Ok p -> In (name, w) (po_subs p) ->
  exists seg, In seg (doc_segments d) /\ should_emit rt (sg_conds seg) = true /\ name = sg_name seg /\
              recorded_syms (wo_script w) = sub_header_symbols d rt seg.
Proof. exact sub_recorded. Qed.

(* ---------- single-segment mode ---------- *)

(* the two halves of the only segment: kind symbols, START / linker offsets / END / SIZE of each section *)
Theorem C13_document_single_recorded : forall d rt w,
  gen_normal d rt = Ok w -> single_segment_mode (doc_settings d) = true ->
  recorded_syms (wo_script w) = doc_header_symbols_single d rt.
Proof. exact single_recorded. Qed.

Theorem C13_document_single_header : forall d rt w,
  gen_normal d rt = Ok w -> single_segment_mode (doc_settings d) = true ->
  linker_symbols w = keep_first String.eqb (doc_header_symbols_single d rt).
Proof. exact single_header. Qed.

Theorem C13_document_single_list_forms : forall d rt,
  Forall (style_name (linker_symbols_style (doc_settings d))) (doc_header_symbols_single d rt).
Proof. exact doc_header_single_style. Qed.

(* ---------- examples ---------- *)

(* dl_doc (Spec/DocLevel.v): three included segments, two in one class, a gp_info and a hard-coded _gp,
   two linker offsets, a user assignment, an excluded segment *)
Example ex_dl_hypotheses :
  is_ok (gen_normal dl_doc ex_rt) = true /\ single_segment_mode (doc_settings dl_doc) = false /\
  nodup_str (doc_header_symbols dl_doc ex_rt) = true /\ doc_names_distinct dl_doc ex_rt = true.
Proof. vm_compute. repeat split; reflexivity. Qed.

Example ex_dl_recorded :
  recorded_syms dl_script = doc_header_symbols dl_doc ex_rt /\
  List.length (doc_header_symbols dl_doc ex_rt) = 77.
Proof. vm_compute. split; reflexivity. Qed.

Example ex_dl_order :
  firstn 4 (doc_header_symbols dl_doc ex_rt) = ["boot_ROM_START"; "boot_VRAM"; "boot_alloc_VRAM"; "boot_TEXT_START"] /\
  (* the class symbols come with the first segment of the class, the size at the very end *)
  firstn 3 (skipn 25 (doc_header_symbols dl_doc ex_rt)) =
    ["overlay_VRAM_CLASS_START"; "overlay_VRAM_CLASS_END"; "ovl_a_ROM_START"] /\
  last (doc_header_symbols dl_doc ex_rt) "" = "overlay_VRAM_CLASS_SIZE" /\
  mem_str "b_mid_OFFSET" (doc_header_symbols dl_doc ex_rt) = true /\
  mem_str "stack_top" (doc_header_symbols dl_doc ex_rt) = false /\
  mem_str "debug_VRAM" (doc_header_symbols dl_doc ex_rt) = false.
Proof. vm_compute. repeat split; reflexivity. Qed.

Example ex_dl_header :
  match gen_normal dl_doc ex_rt with
  | Ok w => linker_symbols w = doc_header_symbols dl_doc ex_rt /\
            header_text ex_rt (doc_settings dl_doc) w =
            header_spec ex_rt (doc_settings dl_doc) (doc_header_symbols dl_doc ex_rt)
  | Err _ => False
  end.
Proof. vm_compute. split; reflexivity. Qed.

(* the main script of the partial build of dl_doc: the same list without the two linker offsets *)
Example ex_dl_main :
  is_ok (gen_partial dl_doc ex_rt) = true /\
  recorded_syms dl_main_script = doc_header_symbols_main dl_doc ex_rt /\
  List.length (doc_header_symbols_main dl_doc ex_rt) = 75 /\
  doc_offsets dl_doc ex_rt = ["boot_mid_OFFSET"; "b_mid_OFFSET"] /\
  nodup_str (doc_header_symbols_main dl_doc ex_rt) = true.
Proof. vm_compute. repeat split; reflexivity. Qed.

(* the per-segment scripts of the partial build: only the linker offsets *)
Example ex_dl_subs :
  match gen_partial dl_doc ex_rt with
  | Ok p => map (fun nw => (fst nw, recorded_syms (wo_script (snd nw)))) (po_subs p) =
            [("boot", ["boot_mid_OFFSET"]); ("ovl_a", []); ("ovl_b", ["b_mid_OFFSET"])]
  | Err _ => False
  end.
Proof. vm_compute. reflexivity. Qed.

(* single-segment mode (Spec/DocSingle.v): no ROM/VRAM symbol of the segment, no class symbol *)
Example ex_ds_single :
  is_ok (gen_normal ds_doc ex_rt) = true /\ single_segment_mode (doc_settings ds_doc) = true /\
  recorded_syms ds_script = doc_header_symbols_single ds_doc ex_rt /\
  List.length (doc_header_symbols_single ds_doc ex_rt) = 19 /\
  firstn 3 (doc_header_symbols_single ds_doc ex_rt) = ["main_alloc_VRAM"; "main_TEXT_START"; "boot_mid_OFFSET"].
Proof. vm_compute. repeat split; reflexivity. Qed.

(* a user assignment called like a generated symbol (boot_ROM_START) is declared - slinky generated that
   name - and the other one (mine) is not *)
Example ex_shadow :
  match gen_normal shadow_doc ex_rt with
  | Ok w => mem_str "boot_ROM_START" (linker_symbols w) = true /\
            mem_str "boot_ROM_START" (doc_header_symbols shadow_doc ex_rt) = true /\
            mem_str "mine" (linker_symbols w) = false /\
            linker_symbols w = doc_header_symbols shadow_doc ex_rt
  | Err _ => False
  end.
Proof. vm_compute. repeat split; reflexivity. Qed.

(* the hypothesis of C13_document_header_nodup matters: subgroup_doc (Spec/DocWf.v) makes slinky record
   mid_OFFSET twice (in the groups of .text and of .rodata); the header declares it once *)
Example ex_subgroup_twice :
  count_occ string_dec (doc_header_symbols subgroup_doc ex_rt) "mid_OFFSET" = 2 /\
  nodup_str (doc_header_symbols subgroup_doc ex_rt) = false /\
  match gen_normal subgroup_doc ex_rt with
  | Ok w => recorded_syms (wo_script w) = doc_header_symbols subgroup_doc ex_rt /\
            count_occ string_dec (linker_symbols w) "mid_OFFSET" = 1 /\
            List.length (linker_symbols w) + 1 = List.length (doc_header_symbols subgroup_doc ex_rt)
  | Err _ => False
  end.
Proof. vm_compute. repeat split; reflexivity. Qed.

Print Assumptions C13_document_recorded.
Print Assumptions C13_document_header.
Print Assumptions C13_document_header_nodup.
Print Assumptions C13_document_header_text.
Print Assumptions C13_document_header_text_nodup.
Print Assumptions C13_document_declared_iff.
Print Assumptions C13_document_list_forms.
Print Assumptions C13_document_list_not_special.
Print Assumptions C13_document_excludes.
Print Assumptions C13_document_named_split.
Print Assumptions C13_document_nodup_of_distinct.
Print Assumptions C13_document_main_recorded.
Print Assumptions C13_document_main_header.
Print Assumptions C13_document_main_header_nodup.
Print Assumptions C13_document_main_of_clones.
Print Assumptions C13_document_main_offsets.
Print Assumptions C13_document_main_nodup_of_ordinary.
Print Assumptions C13_document_main_list_forms.
Print Assumptions C13_document_sub_recorded.
Print Assumptions C13_document_single_recorded.
Print Assumptions C13_document_single_header.
Print Assumptions C13_document_single_list_forms.
