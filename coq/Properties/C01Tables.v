(* C01 / C02 / C14 - translator obligations: input-section statements and pads *)
From Slinky Require Import Model.Types Model.Generated Model.Style Model.Script Proofs.TablesC01.
Local Open Scope string_scope.

Theorem C01_tables_input_object : forall keep path sect wild,
  render_input keep path None sect wild =
  fmt t_lw_emit_file_0 [if keep then "KEEP(" else ""; path; sect; if wild then "*" else ""; if keep then ")" else ""].
Proof. exact lw_input_object. Qed.

Theorem C01_tables_input_archive : forall keep path sub sect wild,
  render_input keep path (Some sub) sect wild =
  fmt t_lw_emit_file_1 [if keep then "KEEP(" else ""; path; sub; sect; if wild then "*" else ""; if keep then ")" else ""].
Proof. exact lw_input_archive. Qed.

Theorem C01_tables_pad : forall ind n, render_stmt ind (SDotAdd n) = [indent_str ind ++ fmt t_lw_emit_file_2 [hex_of_N n]].
Proof. exact lw_pad. Qed.

Print Assumptions C01_tables_input_object.
Print Assumptions C01_tables_input_archive.
Print Assumptions C01_tables_pad.
