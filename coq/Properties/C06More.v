(* C06 (remaining clauses) - an excluded file entry, a group with all its children included, leaves
   no trace in any output; custom options that no condition and no path mentions never change any
   output; conversely an included object / archive entry of an included segment does leave its trace
   (statement and dependency).  Only statements, each closed by [exact]; see Proofs/C06More.v. *)
From Slinky Require Import Model.Types Model.Parse Model.Runtime Model.Style Model.Script Model.Writer
  Model.Exports.
From Slinky Require Import Spec.C06 Proofs.C06 Spec.C14 Proofs.C14 Spec.C15 Proofs.C15 Spec.C19 Proofs.C19
  Proofs.C06More.
From Slinky Require Import Spec.C01.

(* ---------- an excluded entry emits nothing ---------- *)

(* anywhere in a chain of sub-group expansions: no statement, no recorded path; the only possible
   failures are those of walking the chain itself (a cyclic sections_subgroups, the recursion bound) *)
Theorem C06_file_excluded_emits_nothing : forall rt sty cfg seg sections f,
  should_emit rt (fi_conds f) = false ->
  forall n stack section base ws,
    emit_sff rt sty cfg seg sections f n stack section base ws = Ok ([], ws) \/
    exists e, emit_sff rt sty cfg seg sections f n stack section base ws = Err e /\
              ((exists s, e = ESubgroupCycle (sg_name seg) s) \/ (exists w, e = ECrash w)).
Proof. exact excluded_chain. Qed.

(* as the writer calls it (C19: the bound is not reached) *)
Theorem C06_file_excluded_top : forall rt sty cfg seg sections f section base ws,
  should_emit rt (fi_conds f) = false ->
  emit_sff rt sty cfg seg sections f (chain_fuel seg) [] section base ws = Ok ([], ws) \/
  exists s, emit_sff rt sty cfg seg sections f (chain_fuel seg) [] section base ws =
            Err (ESubgroupCycle (sg_name seg) s).
Proof. exact excluded_top. Qed.

(* for a group this covers its whole subtree: [f]'s children are never visited, its dir and their
   paths are never escaped, so a `{key}` without a value inside an excluded entry is not an error *)
Theorem C06_file_excluded_no_option_error :
  forall rt sty cfg seg sections f n stack section base ws path key,
    should_emit rt (fi_conds f) = false ->
    emit_sff rt sty cfg seg sections f n stack section base ws <> Err (ECustomOptionNotProvided path key).
Proof. exact excluded_no_option_error. Qed.

(* ---------- no trace: deleting excluded entries at any depth ---------- *)

(* one list of entries (of a segment or of a group), every section and base path, every writer
   state: same statements, same recorded paths *)
Theorem C06_no_trace_file : forall rt sty cfg seg sections l l',
  prune rt l l' ->
  forall section base ws o,
    fold_out (fun f ws => emit_sff rt sty cfg seg sections f (chain_fuel seg) [] section base ws) l ws = Ok o ->
    fold_out (fun f ws => emit_sff rt sty cfg seg sections f (chain_fuel seg) [] section base ws) l' ws = Ok o.
Proof. exact prune_fold. Qed.

(* an entry whose children are replaced by a list generating the same generates the same *)
Theorem C06_no_trace_group_children : forall rt sty cfg seg sections f kids',
  prune rt (fi_files f) kids' ->
  forall n stack section base ws o,
    emit_sff rt sty cfg seg sections f n stack section base ws = Ok o ->
    emit_sff rt sty cfg seg sections (with_files f kids') n stack section base ws = Ok o.
Proof. exact no_trace_group_children. Qed.

Theorem C06_no_trace_file_section : forall rt sty cfg seg fl sections base_path section ws o,
  prune rt (sg_files seg) fl ->
  emit_section rt sty cfg seg sections base_path section ws = Ok o ->
  emit_section rt sty cfg (clone_with_new_files seg fl) sections base_path section ws = Ok o.
Proof. exact no_trace_file_section. Qed.

Theorem C06_no_trace_file_segment : forall rt st cfg classes seg fl ws o,
  prune rt (sg_files seg) fl ->
  add_segment rt st cfg classes seg ws = Ok o ->
  add_segment rt st cfg classes (clone_with_new_files seg fl) ws = Ok o.
Proof. exact no_trace_file_segment. Qed.

Theorem C06_no_trace_file_single_segment : forall rt st cfg classes seg fl ws o,
  prune rt (sg_files seg) fl ->
  add_single_segment rt st cfg classes seg ws = Ok o ->
  add_single_segment rt st cfg classes (clone_with_new_files seg fl) ws = Ok o.
Proof. exact no_trace_file_single_segment. Qed.

(* whole documents: if the document generates, the pruned document generates exactly the same
   script(s) and records the same paths; dependency files and the header are functions of these *)
Theorem C06_no_trace_file_normal : forall rt d segs2 w,
  Forall2 (seg_prune rt) (doc_segments d) segs2 ->
  gen_normal d rt = Ok w -> gen_normal (with_segments d segs2) rt = Ok w.
Proof. exact no_trace_file_normal. Qed.

Theorem C06_no_trace_file_partial : forall rt d segs2 p,
  Forall2 (seg_prune rt) (doc_segments d) segs2 ->
  gen_partial d rt = Ok p -> gen_partial (with_segments d segs2) rt = Ok p.
Proof. exact no_trace_file_partial. Qed.

(* ---------- options that nothing mentions ---------- *)

(* lookups of the condition check and of path escaping *)
Theorem C06_should_emit_keys : forall rt1 rt2 c,
  agree rt1 rt2 (conds_keys c) -> should_emit rt1 c = should_emit rt2 c.
Proof. exact should_emit_agree. Qed.

Theorem C06_escape_path_keys : forall rt1 rt2 p,
  agree rt1 rt2 (path_keys p) -> escape_path rt1 p = escape_path rt2 p.
Proof. exact escape_path_agree. Qed.

(* two option sets that agree on every key mentioned by a condition or a path of the document (and
   on the version-comment flag) give the same scripts, recorded paths, errors *)
Theorem C06_unmentioned_options : forall rt1 rt2,
  rt_emit_version_comment rt1 = rt_emit_version_comment rt2 ->
  forall d, agree rt1 rt2 (mentioned d) -> gen_normal d rt1 = gen_normal d rt2.
Proof. exact gen_normal_agree. Qed.

Theorem C06_unmentioned_options_partial : forall rt1 rt2,
  rt_emit_version_comment rt1 = rt_emit_version_comment rt2 ->
  forall d, agree rt1 rt2 (mentioned d) -> gen_partial d rt1 = gen_partial d rt2.
Proof. exact gen_partial_agree. Qed.

(* dependency file and header texts do not read the options at all *)
Theorem C06_unmentioned_options_deps : forall rt1 rt2,
  rt_emit_version_comment rt1 = rt_emit_version_comment rt2 ->
  forall w target, deps_text rt1 w target = deps_text rt2 w target.
Proof. exact deps_text_agree. Qed.

Theorem C06_unmentioned_options_header : forall rt1 rt2,
  rt_emit_version_comment rt1 = rt_emit_version_comment rt2 ->
  forall st w, header_text rt1 st w = header_text rt2 st w.
Proof. exact header_text_agree. Qed.

(* the files written besides the scripts: their paths and contents *)
Theorem C06_unmentioned_options_other_files : forall rt1 rt2,
  rt_emit_version_comment rt1 = rt_emit_version_comment rt2 ->
  forall st w, agree rt1 rt2 (settings_keys st) ->
    save_other_files_normal rt1 st w = save_other_files_normal rt2 st w.
Proof. exact save_other_files_normal_agree. Qed.

Theorem C06_unmentioned_options_other_files_partial : forall rt1 rt2,
  rt_emit_version_comment rt1 = rt_emit_version_comment rt2 ->
  forall st p, agree rt1 rt2 (settings_keys st) ->
    save_other_files_partial rt1 st p = save_other_files_partial rt2 st p.
Proof. exact save_other_files_partial_agree. Qed.

(* the command-line tool: status, standard output and every file written *)
Theorem C06_unmentioned_options_cli : forall sd d a1 a2 opts1 opts2,
  cli_output a1 = cli_output a2 -> cli_partial a1 = cli_partial a2 ->
  cli_omit_version_comment a1 = cli_omit_version_comment a2 ->
  parse_key_vals (cli_options a1) = Some opts1 -> parse_key_vals (cli_options a2) = Some opts2 ->
  forallb (fun kv => key_valid (fst kv)) opts1 = forallb (fun kv => key_valid (fst kv)) opts2 ->
  parse sd = Ok d ->
  agree (Runtime opts1 (negb (cli_omit_version_comment a2))) (Runtime opts2 (negb (cli_omit_version_comment a2)))
        (mentioned d ++ opt_path_keys (cli_output a2)) ->
  cli_run sd a1 = cli_run sd a2.
Proof. exact cli_run_unmentioned. Qed.

(* ---------- the converse: an included entry leaves its trace ---------- *)

(* [seg_base rt cfg seg base_path b]: [b] is the directory the entries of the segment are placed under,
   the escaped base_path followed (unless the script references partial objects) by the escaped dir of
   the segment.  [deep_inputs] (Spec/C01.v): the input statements of a statement, looking inside output
   sections and SECTIONS.  [member_of f]: the archive member of an archive entry, None for an object. *)

(* an included object (or archive) entry listed in an included segment, a configured section [sec] that
   the entry's section_order does not redirect (in particular: no section_order): the segment's
   statements contain the entry's input statement for [sec] - whatever sub-groups, other entries and
   writer state there are ... *)
Theorem C06_included_file_emitted : forall rt st cfg classes seg f sec ws stmts ws',
  should_emit rt (sg_conds seg) = true ->
  In f (sg_files seg) -> should_emit rt (fi_conds f) = true ->
  (fi_kind f = KObject \/ fi_kind f = KArchive) ->
  In sec (alloc_sections seg ++ noload_sections seg) -> lookup sec (fi_section_order f) = None ->
  add_segment rt st cfg classes seg ws = Ok (stmts, ws') ->
  exists b p, seg_base rt cfg seg (base_path st) b /\ escape_path rt (fi_path f) = Ok p /\
    In (SInput (keeps (fi_keep f) sec) (display (push b p)) (member_of f) sec (wildcard_sections seg))
       (flat_map deep_inputs stmts).
Proof. exact included_file_emitted. Qed.

(* ... and the entry's path is among the recorded paths (the dependency file lists it, C12_text) *)
Theorem C06_included_file_dependency : forall rt st cfg classes seg f sec ws stmts ws',
  should_emit rt (sg_conds seg) = true ->
  In f (sg_files seg) -> should_emit rt (fi_conds f) = true ->
  (fi_kind f = KObject \/ fi_kind f = KArchive) ->
  In sec (alloc_sections seg ++ noload_sections seg) -> lookup sec (fi_section_order f) = None ->
  add_segment rt st cfg classes seg ws = Ok (stmts, ws') ->
  exists b p, seg_base rt cfg seg (base_path st) b /\ escape_path rt (fi_path f) = Ok p /\
    In (components (push b p)) (ws_paths ws').
Proof. exact included_file_dependency. Qed.

(* with a section_order: for every section [k] the entry writes in the group of [section]
   ([here_spec], C01_here_spec: [section] itself unless redirected, and the keys sent to it).
   [file_traced rt seg f b k stmts ws']: for the escaped path [p] of [f], the statement
   [trace_stmt seg f b p k] = SInput (keeps (fi_keep f) k) (display (push b p)) (member_of f) k wild
   is in [flat_map deep_inputs stmts] and [components (push b p)] is in [ws_paths ws'] *)
Theorem C06_included_file_traced : forall rt st cfg classes seg f k section ws stmts ws',
  should_emit rt (sg_conds seg) = true ->
  In f (sg_files seg) -> should_emit rt (fi_conds f) = true ->
  (fi_kind f = KObject \/ fi_kind f = KArchive) ->
  In section (alloc_sections seg ++ noload_sections seg) -> here_spec f section k ->
  add_segment rt st cfg classes seg ws = Ok (stmts, ws') ->
  exists b, seg_base rt cfg seg (base_path st) b /\ file_traced rt seg f b k stmts ws'.
Proof. exact included_file_traced. Qed.

(* entries at any depth, sub-groups included - the converse of C01_nothing_unlisted: every leaf of the
   segment's file list ([leaves], Spec/C01.v: the included object / archive entries under included
   groups, with the accumulated directory [bc] and the chain of entries above) and every section [k]
   reached from a configured section through that chain ([reach_via]: at each entry its section_order,
   then the sub-groups) has its statement among the segment's statements and its path recorded *)
Theorem C06_included_leaf_traced : forall rt st cfg classes seg b c0 c bc chain k section sections ws stmts ws',
  should_emit rt (sg_conds seg) = true ->
  seg_base rt cfg seg (base_path st) b -> In c0 (sg_files seg) -> In (c, bc, chain) (leaves rt b c0) ->
  In section (alloc_sections seg ++ noload_sections seg) ->
  reach_via cfg seg sections chain section k ->
  add_segment rt st cfg classes seg ws = Ok (stmts, ws') ->
  file_traced rt seg c bc k stmts ws'.
Proof. exact included_leaf_traced. Qed.

(* the same for the single-segment writer (single_segment_mode, per-segment scripts of a partial build),
   which does not look at the segment's conditions *)
Theorem C06_included_leaf_traced_single :
  forall rt st cfg classes seg b c0 c bc chain k section sections ws stmts ws',
  seg_base rt cfg seg (base_path st) b -> In c0 (sg_files seg) -> In (c, bc, chain) (leaves rt b c0) ->
  In section (alloc_sections seg ++ noload_sections seg) ->
  reach_via cfg seg sections chain section k ->
  add_single_segment rt st cfg classes seg ws = Ok (stmts, ws') ->
  file_traced rt seg c bc k stmts ws'.
Proof. exact included_leaf_traced_single. Qed.

(* whole documents.  [out_traced rt seg c bc k w]: the statement is in [wo_script w] (deeply) and the
   path in [wo_paths w].  The ordinary script: *)
Theorem C06_included_leaf_normal : forall d rt w seg b c0 c bc chain k section sections,
  gen_normal d rt = Ok w -> In seg (doc_segments d) ->
  (single_segment_mode (doc_settings d) = true \/ should_emit rt (sg_conds seg) = true) ->
  seg_base rt cfg_normal seg (base_path (doc_settings d)) b ->
  In c0 (sg_files seg) -> In (c, bc, chain) (leaves rt b c0) ->
  In section (alloc_sections seg ++ noload_sections seg) ->
  reach_via cfg_normal seg sections chain section k ->
  out_traced rt seg c bc k w.
Proof. exact included_leaf_normal. Qed.

(* a partial build: the trace is in the per-segment script of the segment (the main script names the
   partial object instead, C11_main_places_partial) *)
Theorem C06_included_leaf_partial : forall d rt po seg b c0 c bc chain k section sections,
  gen_partial d rt = Ok po -> In seg (doc_segments d) -> should_emit rt (sg_conds seg) = true ->
  seg_base rt cfg_sub_partial seg (base_path (doc_settings d)) b ->
  In c0 (sg_files seg) -> In (c, bc, chain) (leaves rt b c0) ->
  In section (alloc_sections seg ++ noload_sections seg) ->
  reach_via cfg_sub_partial seg sections chain section k ->
  exists w, In (sg_name seg, w) (po_subs po) /\ out_traced rt seg c bc k w.
Proof. exact included_leaf_partial. Qed.

(* ---------- examples ---------- *)

(* an excluded group whose dir and child paths use options that are not given, and an excluded
   object inside a kept group: the hypotheses of the no-trace theorems hold ... *)
Example C06_ex_prune : prune ex06_rt ex06_files ex06_files_pruned.
Proof. exact ex06_prune. Qed.

Example C06_ex_seg_prune :
  Forall2 (seg_prune ex06_rt) (doc_segments (ex06_doc ex06_files)) [ex06_seg ex06_files_pruned] /\
  with_segments (ex06_doc ex06_files) [ex06_seg ex06_files_pruned] = ex06_doc ex06_files_pruned.
Proof. split; [exact ex06_seg_prune | reflexivity]. Qed.

(* ... the document generates (no error for {nowhere} and {missing}) and the two documents give the
   same ordinary and partial outputs *)
Example C06_ex_no_trace :
  is_ok (gen_normal (ex06_doc ex06_files) ex06_rt) = true /\
  gen_normal (ex06_doc ex06_files) ex06_rt = gen_normal (ex06_doc ex06_files_pruned) ex06_rt /\
  is_ok (gen_partial (ex06_doc ex06_files) ex06_rt) = true /\
  gen_partial (ex06_doc ex06_files) ex06_rt = gen_partial (ex06_doc ex06_files_pruned) ex06_rt.
Proof. vm_compute. repeat split; reflexivity. Qed.

(* the same entries when they are not excluded do need the options *)
Example C06_ex_included_needs_option :
  gen_normal (ex06_doc ex06_files) (Runtime [("version", "eu"); ("dir", "src")] true) =
  Err (ECustomOptionNotProvided "{nowhere}" "nowhere").
Proof. vm_compute. reflexivity. Qed.

(* the keys the example document mentions, and two option sequences that agree on them but differ
   elsewhere (other keys, overridden values, order) *)
Example C06_ex_mentioned :
  nodup string_dec (mentioned (ex06_doc ex06_files_pruned)) = ["version"; "dir"; "debug"]%string.
Proof. vm_compute. reflexivity. Qed.

Example C06_ex_agree : agree ex06_rt2 ex06_rt3 (mentioned (ex06_doc ex06_files_pruned)).
Proof. exact ex06_agree. Qed.

Example C06_ex_unmentioned :
  is_ok (gen_normal (ex06_doc ex06_files_pruned) ex06_rt2) = true /\
  gen_normal (ex06_doc ex06_files_pruned) ex06_rt2 = gen_normal (ex06_doc ex06_files_pruned) ex06_rt3 /\
  gen_partial (ex06_doc ex06_files_pruned) ex06_rt2 = gen_partial (ex06_doc ex06_files_pruned) ex06_rt3.
Proof. vm_compute. repeat split; reflexivity. Qed.

(* the converse: the first entry of the sample segment and section .data meet the hypotheses of
   C06_included_file_emitted / C06_included_file_dependency ... *)
Example C06_ex_included_hyps :
  let seg := ex06_seg ex06_files in
  let f := ex06_obj "{dir}/a.o" no_conds in
  should_emit ex06_rt (sg_conds seg) = true /\ In f (sg_files seg) /\
  should_emit ex06_rt (fi_conds f) = true /\ (fi_kind f = KObject \/ fi_kind f = KArchive) /\
  In ".data" (alloc_sections seg ++ noload_sections seg) /\ lookup ".data" (fi_section_order f) = None /\
  is_ok (add_segment ex06_rt ex06_settings cfg_normal [] seg ws0) = true.
Proof. exact ex06_included_hyps. Qed.

(* ... b.o inside the group "lib" and the sub-group section .text.hot reached from .text those of
   C06_included_leaf_normal ... *)
Example C06_ex_leaf_hyps :
  let seg := ex06_seg ex06_files in
  let b := push "build/us" "" in
  In seg (doc_segments (ex06_doc ex06_files)) /\ should_emit ex06_rt (sg_conds seg) = true /\
  seg_base ex06_rt cfg_normal seg (base_path (doc_settings (ex06_doc ex06_files))) b /\
  In ex06_lib (sg_files seg) /\
  In (ex06_obj "b.o" no_conds, push b "lib", [ex06_lib; ex06_obj "b.o" no_conds]) (leaves ex06_rt b ex06_lib) /\
  In ".text" (alloc_sections seg ++ noload_sections seg) /\
  reach_via cfg_normal seg [] [ex06_lib; ex06_obj "b.o" no_conds] ".text" ".text.hot".
Proof. exact ex06_leaf_hyps. Qed.

(* ... and these are the traces in the ordinary script and in the per-segment script *)
Example C06_ex_included_trace :
  match gen_normal (ex06_doc ex06_files) ex06_rt with
  | Ok w => mem_str "build/us/src/a.o(.data)" (script_inputs (wo_script w)) = true /\
            mem_str "build/us/lib/b.o(.text.hot)" (script_inputs (wo_script w)) = true /\
            map (join "/") (wo_paths w) = ["build/us/src/a.o"; "build/us/lib/b.o"; "build/us/lib/d.o"]%string
  | Err _ => False
  end /\
  match gen_partial (ex06_doc ex06_files) ex06_rt with
  | Ok p => map (fun s => (fst s, mem_str "build/us/src/a.o(.data)" (script_inputs (wo_script (snd s))),
                           mem_str "build/us/lib/b.o(.text.hot)" (script_inputs (wo_script (snd s))),
                           map (join "/") (wo_paths (snd s)))) (po_subs p) =
            [("main", true, true, ["build/us/src/a.o"; "build/us/lib/b.o"; "build/us/lib/d.o"])]%string
  | Err _ => False
  end.
Proof. exact ex06_included_trace. Qed.


Print Assumptions C06_file_excluded_emits_nothing.
Print Assumptions C06_file_excluded_top.
Print Assumptions C06_file_excluded_no_option_error.
Print Assumptions C06_no_trace_file.
Print Assumptions C06_no_trace_group_children.
Print Assumptions C06_no_trace_file_section.
Print Assumptions C06_no_trace_file_segment.
Print Assumptions C06_no_trace_file_single_segment.
Print Assumptions C06_no_trace_file_normal.
Print Assumptions C06_no_trace_file_partial.
Print Assumptions C06_should_emit_keys.
Print Assumptions C06_escape_path_keys.
Print Assumptions C06_unmentioned_options.
Print Assumptions C06_unmentioned_options_partial.
Print Assumptions C06_unmentioned_options_deps.
Print Assumptions C06_unmentioned_options_header.
Print Assumptions C06_unmentioned_options_other_files.
Print Assumptions C06_unmentioned_options_other_files_partial.
Print Assumptions C06_unmentioned_options_cli.
Print Assumptions C06_included_file_emitted.
Print Assumptions C06_included_file_dependency.
Print Assumptions C06_included_file_traced.
Print Assumptions C06_included_leaf_traced.
Print Assumptions C06_included_leaf_traced_single.
Print Assumptions C06_included_leaf_normal.
Print Assumptions C06_included_leaf_partial.
