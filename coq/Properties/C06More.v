(* C06 (remaining clauses) - an excluded file entry, a group with all its children included, leaves
   no trace in any output; custom options that no condition and no path mentions never change any
   output.  Only statements, each closed by [exact]; see Proofs/C06More.v. *)
From Slinky Require Import Model.Types Model.Parse Model.Runtime Model.Style Model.Script Model.Writer
  Model.Exports.
From Slinky Require Import Spec.C06 Proofs.C06 Spec.C14 Proofs.C14 Spec.C15 Proofs.C15 Spec.C19 Proofs.C19
  Proofs.C06More.

(* ---------- an excluded entry emits nothing ---------- *)

(* anywhere in a chain of sub-group expansions: no statement, no recorded path; the only possible
   failures are those of walking the chain itself (a cyclic sections_subgroups, the recursion bound) *)
Theorem C06_file_excluded_emits_nothing : forall rt sty cfg seg sections f,
  should_emit rt (fi_conds f) = false ->
  forall n stack section base ws,
    emit_sff rt sty cfg seg sections f n stack section base ws = Ok ([], ws) \/
    exists e, emit_sff rt sty cfg seg sections f n stack section base ws = Err e /\
              ((exists s, e = ESubgroupCycle (sg_name seg) s) \/ (exists w, e = ECrash w)).
Proof. exact excluded_chain. Qed.

(* as the writer calls it (C19: the bound is not reached) *)
Theorem C06_file_excluded_top : forall rt sty cfg seg sections f section base ws,
  should_emit rt (fi_conds f) = false ->
  emit_sff rt sty cfg seg sections f (chain_fuel seg) [] section base ws = Ok ([], ws) \/
  exists s, emit_sff rt sty cfg seg sections f (chain_fuel seg) [] section base ws =
            Err (ESubgroupCycle (sg_name seg) s).
Proof. exact excluded_top. Qed.

(* for a group this covers its whole subtree: [f]'s children are never visited, its dir and their
   paths are never escaped, so a `{key}` without a value inside an excluded entry is not an error *)
Theorem C06_file_excluded_no_option_error :
  forall rt sty cfg seg sections f n stack section base ws path key,
    should_emit rt (fi_conds f) = false ->
    emit_sff rt sty cfg seg sections f n stack section base ws <> Err (ECustomOptionNotProvided path key).
Proof. exact excluded_no_option_error. Qed.

(* ---------- no trace: deleting excluded entries at any depth ---------- *)

(* one list of entries (of a segment or of a group), every section and base path, every writer
   state: same statements, same recorded paths *)
Theorem C06_no_trace_file : forall rt sty cfg seg sections l l',
  prune rt l l' ->
  forall section base ws o,
    fold_out (fun f ws => emit_sff rt sty cfg seg sections f (chain_fuel seg) [] section base ws) l ws = Ok o ->
    fold_out (fun f ws => emit_sff rt sty cfg seg sections f (chain_fuel seg) [] section base ws) l' ws = Ok o.
Proof. exact prune_fold. Qed.

(* an entry whose children are replaced by a list generating the same generates the same *)
Theorem C06_no_trace_group_children : forall rt sty cfg seg sections f kids',
  prune rt (fi_files f) kids' ->
  forall n stack section base ws o,
    emit_sff rt sty cfg seg sections f n stack section base ws = Ok o ->
    emit_sff rt sty cfg seg sections (with_files f kids') n stack section base ws = Ok o.
Proof. exact no_trace_group_children. Qed.

Theorem C06_no_trace_file_section : forall rt sty cfg seg fl sections base_path section ws o,
  prune rt (sg_files seg) fl ->
  emit_section rt sty cfg seg sections base_path section ws = Ok o ->
  emit_section rt sty cfg (clone_with_new_files seg fl) sections base_path section ws = Ok o.
Proof. exact no_trace_file_section. Qed.

Theorem C06_no_trace_file_segment : forall rt st cfg classes seg fl ws o,
  prune rt (sg_files seg) fl ->
  add_segment rt st cfg classes seg ws = Ok o ->
  add_segment rt st cfg classes (clone_with_new_files seg fl) ws = Ok o.
Proof. exact no_trace_file_segment. Qed.

Theorem C06_no_trace_file_single_segment : forall rt st cfg classes seg fl ws o,
  prune rt (sg_files seg) fl ->
  add_single_segment rt st cfg classes seg ws = Ok o ->
  add_single_segment rt st cfg classes (clone_with_new_files seg fl) ws = Ok o.
Proof. exact no_trace_file_single_segment. Qed.

(* whole documents: if the document generates, the pruned document generates exactly the same
   script(s) and records the same paths; dependency files and the header are functions of these *)
Theorem C06_no_trace_file_normal : forall rt d segs2 w,
  Forall2 (seg_prune rt) (doc_segments d) segs2 ->
  gen_normal d rt = Ok w -> gen_normal (with_segments d segs2) rt = Ok w.
Proof. exact no_trace_file_normal. Qed.

Theorem C06_no_trace_file_partial : forall rt d segs2 p,
  Forall2 (seg_prune rt) (doc_segments d) segs2 ->
  gen_partial d rt = Ok p -> gen_partial (with_segments d segs2) rt = Ok p.
Proof. exact no_trace_file_partial. Qed.

(* ---------- options that nothing mentions ---------- *)

(* lookups of the condition check and of path escaping *)
Theorem C06_should_emit_keys : forall rt1 rt2 c,
  agree rt1 rt2 (conds_keys c) -> should_emit rt1 c = should_emit rt2 c.
Proof. exact should_emit_agree. Qed.

Theorem C06_escape_path_keys : forall rt1 rt2 p,
  agree rt1 rt2 (path_keys p) -> escape_path rt1 p = escape_path rt2 p.
Proof. exact escape_path_agree. Qed.

(* two option sets that agree on every key mentioned by a condition or a path of the document (and
   on the version-comment flag) give the same scripts, recorded paths, errors *)
Theorem C06_unmentioned_options : forall rt1 rt2,
  rt_emit_version_comment rt1 = rt_emit_version_comment rt2 ->
  forall d, agree rt1 rt2 (mentioned d) -> gen_normal d rt1 = gen_normal d rt2.
Proof. exact gen_normal_agree. Qed.

Theorem C06_unmentioned_options_partial : forall rt1 rt2,
  rt_emit_version_comment rt1 = rt_emit_version_comment rt2 ->
  forall d, agree rt1 rt2 (mentioned d) -> gen_partial d rt1 = gen_partial d rt2.
Proof. exact gen_partial_agree. Qed.

(* dependency file and header texts do not read the options at all *)
Theorem C06_unmentioned_options_deps : forall rt1 rt2,
  rt_emit_version_comment rt1 = rt_emit_version_comment rt2 ->
  forall w target, deps_text rt1 w target = deps_text rt2 w target.
Proof. exact deps_text_agree. Qed.

Theorem C06_unmentioned_options_header : forall rt1 rt2,
  rt_emit_version_comment rt1 = rt_emit_version_comment rt2 ->
  forall st w, header_text rt1 st w = header_text rt2 st w.
Proof. exact header_text_agree. Qed.

(* the files written besides the scripts: their paths and contents *)
Theorem C06_unmentioned_options_other_files : forall rt1 rt2,
  rt_emit_version_comment rt1 = rt_emit_version_comment rt2 ->
  forall st w, agree rt1 rt2 (settings_keys st) ->
    save_other_files_normal rt1 st w = save_other_files_normal rt2 st w.
Proof. exact save_other_files_normal_agree. Qed.

Theorem C06_unmentioned_options_other_files_partial : forall rt1 rt2,
  rt_emit_version_comment rt1 = rt_emit_version_comment rt2 ->
  forall st p, agree rt1 rt2 (settings_keys st) ->
    save_other_files_partial rt1 st p = save_other_files_partial rt2 st p.
Proof. exact save_other_files_partial_agree. Qed.

(* the command-line tool: status, standard output and every file written *)
Theorem C06_unmentioned_options_cli : forall sd d a1 a2 opts1 opts2,
  cli_output a1 = cli_output a2 -> cli_partial a1 = cli_partial a2 ->
  cli_omit_version_comment a1 = cli_omit_version_comment a2 ->
  parse_key_vals (cli_options a1) = Some opts1 -> parse_key_vals (cli_options a2) = Some opts2 ->
  forallb (fun kv => key_valid (fst kv)) opts1 = forallb (fun kv => key_valid (fst kv)) opts2 ->
  parse sd = Ok d ->
  agree (Runtime opts1 (negb (cli_omit_version_comment a2))) (Runtime opts2 (negb (cli_omit_version_comment a2)))
        (mentioned d ++ opt_path_keys (cli_output a2)) ->
  cli_run sd a1 = cli_run sd a2.
Proof. exact cli_run_unmentioned. Qed.

(* ---------- examples ---------- *)

(* an excluded group whose dir and child paths use options that are not given, and an excluded
   object inside a kept group: the hypotheses of the no-trace theorems hold ... *)
Example C06_ex_prune : prune ex06_rt ex06_files ex06_files_pruned.
Proof. exact ex06_prune. Qed.

Example C06_ex_seg_prune :
  Forall2 (seg_prune ex06_rt) (doc_segments (ex06_doc ex06_files)) [ex06_seg ex06_files_pruned] /\
  with_segments (ex06_doc ex06_files) [ex06_seg ex06_files_pruned] = ex06_doc ex06_files_pruned.
Proof. split; [exact ex06_seg_prune | reflexivity]. Qed.

(* ... the document generates (no error for {nowhere} and {missing}) and the two documents give the
   same ordinary and partial outputs *)
Example C06_ex_no_trace :
  is_ok (gen_normal (ex06_doc ex06_files) ex06_rt) = true /\
  gen_normal (ex06_doc ex06_files) ex06_rt = gen_normal (ex06_doc ex06_files_pruned) ex06_rt /\
  is_ok (gen_partial (ex06_doc ex06_files) ex06_rt) = true /\
  gen_partial (ex06_doc ex06_files) ex06_rt = gen_partial (ex06_doc ex06_files_pruned) ex06_rt.
Proof. vm_compute. repeat split; reflexivity. Qed.

(* the same entries when they are not excluded do need the options *)
Example C06_ex_included_needs_option :
  gen_normal (ex06_doc ex06_files) (Runtime [("version", "eu"); ("dir", "src")] true) =
  Err (ECustomOptionNotProvided "{nowhere}" "nowhere").
Proof. vm_compute. reflexivity. Qed.

(* the keys the example document mentions, and two option sequences that agree on them but differ
   elsewhere (other keys, overridden values, order) *)
Example C06_ex_mentioned :
  nodup string_dec (mentioned (ex06_doc ex06_files_pruned)) = ["version"; "dir"; "debug"]%string.
Proof. vm_compute. reflexivity. Qed.

Example C06_ex_agree : agree ex06_rt2 ex06_rt3 (mentioned (ex06_doc ex06_files_pruned)).
Proof. exact ex06_agree. Qed.

Example C06_ex_unmentioned :
  is_ok (gen_normal (ex06_doc ex06_files_pruned) ex06_rt2) = true /\
  gen_normal (ex06_doc ex06_files_pruned) ex06_rt2 = gen_normal (ex06_doc ex06_files_pruned) ex06_rt3 /\
  gen_partial (ex06_doc ex06_files_pruned) ex06_rt2 = gen_partial (ex06_doc ex06_files_pruned) ex06_rt3.
Proof. vm_compute. repeat split; reflexivity. Qed.

Print Assumptions C06_file_excluded_emits_nothing.
Print Assumptions C06_file_excluded_top.
Print Assumptions C06_file_excluded_no_option_error.
Print Assumptions C06_no_trace_file.
Print Assumptions C06_no_trace_group_children.
Print Assumptions C06_no_trace_file_section.
Print Assumptions C06_no_trace_file_segment.
Print Assumptions C06_no_trace_file_single_segment.
Print Assumptions C06_no_trace_file_normal.
Print Assumptions C06_no_trace_file_partial.
Print Assumptions C06_should_emit_keys.
Print Assumptions C06_escape_path_keys.
Print Assumptions C06_unmentioned_options.
Print Assumptions C06_unmentioned_options_partial.
Print Assumptions C06_unmentioned_options_deps.
Print Assumptions C06_unmentioned_options_header.
Print Assumptions C06_unmentioned_options_other_files.
Print Assumptions C06_unmentioned_options_other_files_partial.
Print Assumptions C06_unmentioned_options_cli.
