(* C19 - Generation never crashes: reading a document and generating every output returns either
   success or an error value.  In the model the only stand-in for a panic / stack overflow is the
   error [ECrash], produced when the recursion bound of emit_sff is reached; everything else is a
   total function by construction.  Only statements, each closed by [exact]; see Proofs/C19.v. *)
From Slinky Require Import Model.Types Model.Parse Model.Runtime Model.Style Model.Script Model.Writer
  Model.Exports.
From Slinky Require Import Spec.C14 Proofs.C14 Spec.C19 Proofs.C19.

(* the recursion bound given at the top of every chain of sub-group expansions is never exhausted:
   all files (any nesting of groups), all segments (any sections_subgroups, cyclic or not), all
   sections, options and writer configurations *)
Theorem C19_fuel_sufficient : forall rt sty cfg seg sections f section base ws w,
  emit_sff rt sty cfg seg sections f (chain_fuel seg) [] section base ws <> Err (ECrash w).
Proof. exact fuel_sufficient. Qed.

(* the invariant behind it, for any point of a chain: distinct sections on the stack, all in the
   universe except possibly the one the chain started from, and enough fuel for the rest *)
Theorem C19_chain_invariant : forall rt sty cfg seg sections f s0,
  Forall (top_errs rt sty cfg seg sections gen_error) (fi_files f) ->
  forall n stack section base ws,
    NoDup stack -> incl stack (s0 :: chain_universe seg) -> In section (s0 :: chain_universe seg) ->
    2 + List.length (chain_universe seg) <= n + List.length stack ->
    errs gen_error (emit_sff rt sty cfg seg sections f n stack section base ws).
Proof. exact chain_invariant. Qed.

(* generation of the ordinary and of the partial scripts, for ALL documents (parsed or not) and
   all run-time settings, and parsing of all serial documents: never the crash value *)
Theorem C19_no_crash_normal : forall d rt w, gen_normal d rt <> Err (ECrash w).
Proof. exact gen_normal_no_crash. Qed.

Theorem C19_no_crash_partial : forall d rt w, gen_partial d rt <> Err (ECrash w).
Proof. exact gen_partial_no_crash. Qed.

Theorem C19_no_crash_parse : forall sd w, parse sd <> Err (ECrash w).
Proof. exact parse_no_crash. Qed.

(* the command-line tool is a total function into its result type *)
Theorem C19_cli_total : forall sd a, exists ok out writes, cli_run sd a = CliResult ok out writes.
Proof. exact cli_run_total. Qed.

(* the errors of generation are values of four kinds (five for the partial writer) *)
Theorem C19_errors_are_values : forall d rt e, gen_normal d rt = Err e -> gen_error e.
Proof. exact gen_normal_errs. Qed.

Theorem C19_errors_are_values_partial : forall d rt e, gen_partial d rt = Err e -> gen_partial_error e.
Proof. exact gen_partial_errs. Qed.

Theorem C19_escape_path_errors : forall rt p e,
  escape_path rt p = Err e -> exists path key, e = ECustomOptionNotProvided path key.
Proof. exact escape_path_opt. Qed.

(* the repaired defect: a section that is a member of its own sub-group.  An entry that is not a
   group (a group leaves the expansion of sub-groups to its files: [subgroups_for]) is never
   generated ... *)
Theorem C19_cycle_never_ok : forall rt sty cfg seg sections f n stack s others base ws,
  reference_partial cfg = false ->
  fi_kind f <> KGroup ->
  In s (sections_here f s sections) ->
  lookup s (sections_subgroups seg) = Some others -> In s others ->
  forall o, emit_sff rt sty cfg seg sections f n stack s base ws <> Ok o.
Proof. exact self_cycle_never_ok. Qed.

(* ... and the value returned is the cycle error when nothing fails before the cycle is met *)
Theorem C19_cycle_detected_general : forall rt sty cfg seg sections f n stack s rest base ws,
  reference_partial cfg = false ->
  fi_kind f <> KGroup ->
  fi_section_order f = [] ->
  lookup s (sections_subgroups seg) = Some (s :: rest) ->
  mem_str s stack = false ->
  (exists o, emit_file_of rt sty cfg seg sections f base s ws = Ok o) ->
  emit_sff rt sty cfg seg sections f (S (S n)) stack s base ws = Err (ESubgroupCycle (sg_name seg) s).
Proof. exact self_cycle_detected. Qed.

(* the same two, for any entry, in terms of the table the entry consults (empty for a group) *)
Theorem C19_cycle_never_ok_for : forall rt sty cfg seg sections f n stack s others base ws,
  reference_partial cfg = false ->
  In s (sections_here f s sections) ->
  lookup s (subgroups_for seg f) = Some others -> In s others ->
  forall o, emit_sff rt sty cfg seg sections f n stack s base ws <> Ok o.
Proof. exact self_cycle_never_ok_for. Qed.

Theorem C19_cycle_detected_for : forall rt sty cfg seg sections f n stack s rest base ws,
  reference_partial cfg = false ->
  fi_section_order f = [] ->
  lookup s (subgroups_for seg f) = Some (s :: rest) ->
  mem_str s stack = false ->
  (exists o, emit_file_of rt sty cfg seg sections f base s ws = Ok o) ->
  emit_sff rt sty cfg seg sections f (S (S n)) stack s base ws = Err (ESubgroupCycle (sg_name seg) s).
Proof. exact self_cycle_detected_for. Qed.

Theorem C19_cycle_detected : forall rt sty cfg seg sections f s base ws p,
  reference_partial cfg = false ->
  sections_subgroups seg = [(s, [s])] ->
  should_emit rt (fi_conds f) = true -> fi_kind f = KObject -> fi_section_order f = [] ->
  escape_path rt (fi_path f) = Ok p ->
  emit_sff rt sty cfg seg sections f (chain_fuel seg) [] s base ws =
  Err (ESubgroupCycle (sg_name seg) s).
Proof. exact cycle_detected_object. Qed.

(* when every edge of the expansion graph (for this entry and the entries below it) goes down a
   rank, no cycle error is produced; [chain_decreasing] reads the table through [subgroups_for]:
   nothing is asked of a group itself, only of the files below it *)
Theorem C19_acyclic_no_cycle_error : forall rt sty cfg seg sections rank f,
  chain_decreasing_deep seg sections rank f ->
  forall section base ws s c,
    emit_sff rt sty cfg seg sections f (chain_fuel seg) [] section base ws <> Err (ESubgroupCycle s c).
Proof. exact acyclic_no_cycle. Qed.

(* the rendered text of any statement list is well bracketed: blocks are a header line, "{" on its
   own line, the body one level deeper, "}" on its own line, and no other line is a lone brace *)
Theorem C19_balanced : forall l, blocks 0 (render l).
Proof. exact render_blocks. Qed.

Theorem C19_balanced_stmt : forall s ind r, blocks ind r -> blocks ind (render_stmt ind s ++ r).
Proof. exact render_stmt_blocks. Qed.

(* ... hence a reader counting lone braces ends at depth 0 and never closes an unopened block *)
Theorem C19_balanced_count : forall l, depth_after 0 (render l) = Some 0.
Proof. exact render_depth. Qed.

(* capitalize (repaired to be safe on character boundaries) returns a string for every input, the
   empty one and a non-ASCII first byte included: the tail is kept as it is *)
Theorem C19_capitalize_empty : capitalize "" = ""%string.
Proof. exact capitalize_empty. Qed.

Theorem C19_capitalize_total : forall c r, capitalize (String c r) = String (upper_ascii c) r.
Proof. exact capitalize_cons. Qed.

Theorem C19_capitalize_length : forall s, String.length (capitalize s) = String.length s.
Proof. exact capitalize_length. Qed.

(* ---------- examples: the three repaired crash inputs, through parse and the generators ---------- *)

Example C19_ex_cycle_direct :
  ex19_normal ex19_cyclic_direct = Some (ESubgroupCycle "boot" ".text") /\
  ex19_partial ex19_cyclic_direct = Some (ESubgroupCycle "boot" ".text").
Proof. vm_compute. split; reflexivity. Qed.

(* a cycle of length three, met inside a group *)
Example C19_ex_cycle_indirect :
  ex19_normal ex19_cyclic_indirect = Some (ESubgroupCycle "boot" ".text").
Proof. vm_compute. reflexivity. Qed.

(* the hypotheses of C19_cycle_detected on the parsed first example *)
Example C19_ex_cycle_hyps :
  match parse ex19_cyclic_direct with
  | Ok d => match doc_segments d with
            | [seg] => match sg_files seg with
                       | [f] => sections_subgroups seg = [(".text", [".text"])] /\
                                should_emit ex19_rt (fi_conds f) = true /\ fi_kind f = KObject /\
                                fi_section_order f = [] /\ escape_path ex19_rt (fi_path f) = Ok "a.o"%string
                       | _ => False
                       end
            | _ => False
            end
  | Err _ => False
  end.
Proof. vm_compute. repeat split; reflexivity. Qed.

(* the hypothesis "not a group" of C19_cycle_never_ok is needed: a group does not expand sub-groups
   itself, so a group without files generates nothing, without error, whatever the table says *)
Example C19_ex_group_leaves_expansion_to_files :
  fi_kind ex19_empty_group = KGroup /\
  In ".text"%string (sections_here ex19_empty_group ".text" [".text"%string]) /\
  lookup ".text" (sections_subgroups ex19_cyclic_seg) = Some [".text"%string] /\
  subgroups_for ex19_cyclic_seg ex19_empty_group = [] /\
  emit_sff ex19_rt Splat cfg_normal ex19_cyclic_seg [".text"%string] ex19_empty_group
           (chain_fuel ex19_cyclic_seg) [] ".text" "" ws0 = Ok ([], ws0).
Proof. vm_compute. repeat split; try reflexivity. left; reflexivity. Qed.

Example C19_ex_two_segments_single_mode :
  ex19_normal ex19_two_single = Some (EInvalidSegmentCount 2).
Proof. vm_compute. reflexivity. Qed.

Example C19_ex_makerom_non_ascii :
  ex19_normal ex19_makerom = None /\ ex19_partial ex19_makerom = None /\
  convert_section_name Makerom ex19_nonascii_section =
    String (ascii_of_nat 195) (String (ascii_of_nat 169) "tat") /\
  convert_section_name Makerom "." = ""%string /\ convert_section_name Makerom "" = ""%string.
Proof. vm_compute. repeat split; reflexivity. Qed.

(* three levels of sub-groups without a cycle: generation succeeds and emits every level, in depth-
   first order; the ranks 2, 1, 0 witness the hypothesis of C19_acyclic_no_cycle_error *)
Example C19_ex_acyclic :
  ex19_normal ex19_acyclic = None /\
  filter (fun s => negb (is_empty s))
         (match parse ex19_acyclic with
          | Ok d => match gen_normal d ex19_rt with
                    | Ok w => input_lines (wo_script w)
                    | Err _ => []
                    end
          | Err _ => []
          end) =
  ["a.o(.text*);"; "a.o(.text.hot*);"; "a.o(.text.hot.inner*);"; "a.o(.text.cold*);";
   "a.o(.data*);"; "a.o(.rodata*);"; "a.o(.sdata*);"; "a.o(.sbss*);"; "a.o(.scommon*);";
   "a.o(.bss*);"; "a.o(COMMON*);"]%string.
Proof. vm_compute. split; reflexivity. Qed.

Example C19_ex_acyclic_hyps : forall f,
  fi_section_order f = [] ->
  chain_decreasing (Segment "boot" [] None None None None "" None no_conds [".text"] [] None None None
                            None None [] [] true None ex19_acyclic_subgroups KAbsent)
                   [".text"] ex19_rank f.
Proof. exact ex19_acyclic_decreasing. Qed.

(* the brace count of a generated script *)
Example C19_ex_balanced :
  depth_after 0 (ex19_lines ex19_acyclic) = Some 0 /\ 20 < List.length (ex19_lines ex19_acyclic).
Proof. vm_compute. split; [reflexivity | repeat constructor]. Qed.

Print Assumptions C19_fuel_sufficient.
Print Assumptions C19_chain_invariant.
Print Assumptions C19_no_crash_normal.
Print Assumptions C19_no_crash_partial.
Print Assumptions C19_no_crash_parse.
Print Assumptions C19_cli_total.
Print Assumptions C19_errors_are_values.
Print Assumptions C19_errors_are_values_partial.
Print Assumptions C19_escape_path_errors.
Print Assumptions C19_cycle_never_ok.
Print Assumptions C19_cycle_detected_general.
Print Assumptions C19_cycle_never_ok_for.
Print Assumptions C19_cycle_detected_for.
Print Assumptions C19_cycle_detected.
Print Assumptions C19_acyclic_no_cycle_error.
Print Assumptions C19_balanced.
Print Assumptions C19_balanced_stmt.
Print Assumptions C19_balanced_count.
Print Assumptions C19_capitalize_empty.
Print Assumptions C19_capitalize_total.
Print Assumptions C19_capitalize_length.
