(* C17Doc - the link-level half of C17 over a whole generated document:
   "... each included required symbol is forced into the link and fails the link if it stays undefined;
   each included assert fails the link with its message exactly when its check evaluates to zero.  _gp is
   defined exactly once iff hardcoded_gp_value or an included gp_info is given - as the hardcoded value,
   or as the start of the named section group of that segment (after its start alignment) plus offset,
   with the requested PROVIDE/HIDDEN wrapping - and is otherwise not defined."
   Only statements, each closed by [exact]; see Proofs/C17Doc.v, definitions in Spec/C17Doc.v.
   Sections 1-3 hold for BOTH modes of the generator with no condition beyond [gen_normal d rt = Ok w];
   the gp_info theorem of section 4 needs multi-segment mode and [doc_link_wf d rt] (Spec/DocLevel.v).
   Conclusions are about [exec_script env senv ext final (wo_script w) (init_state u)] for EVERY pass,
   and about [layout]: there the previous-pass symbols are [last_env (wo_script w) u ext0] and the object
   symbols (with the markers of the placed sections) [last_ext (wo_script w) u ext0]. *)
From Slinky Require Import Model.Types Model.Runtime Model.Style Model.Script Model.Writer Model.LdSem.
From Slinky Require Import Spec.C18 Spec.C17 Spec.C04 Spec.C12 Spec.DocLevel Spec.C01Doc Spec.C17Doc.
From Slinky Require Import Proofs.C17Doc.
From Coq Require Import ZArith.
Local Open Scope string_scope.
Local Open Scope Z_scope.

(* ====================================================================== *)
(* 1. the errors of the final state                                        *)
(* ====================================================================== *)

(* ChecksOutcome (Spec/C17Doc.v): the errors of the final state are [before ++ reports] where [before]
   (everything up to and including the user's symbol assignments) holds no assertion failure, and
   [reports] is, for each included required symbol (condition DEFINED(n), message required_msg n) and
   then each included assert (its check and message), in document order, what ASSERT reports when the
   condition is evaluated with the script symbols of the FINAL state: the message iff the value is 0 *)
Theorem C17_document_checks : forall env senv ext final d rt w u,
  gen_normal d rt = Ok w ->
  ChecksOutcome env ext final rt d (exec_script env senv ext final (wo_script w) (init_state u)).
Proof. exact document_checks. Qed.

Theorem C17_document_checks_layout : forall d rt w u ext0,
  gen_normal d rt = Ok w ->
  ChecksOutcome (last_env (wo_script w) u ext0) (last_ext (wo_script w) u ext0) true rt d
                (layout (wo_script w) u ext0).
Proof. exact document_checks_layout. Qed.

Example C17_document_checks_ex :
  (exists w, gen_normal dl_doc ex_rt = Ok w) /\
  doc_checks ex_rt dl_doc =
  [("DEFINED(main)", "Required symbol 'main' was not linked"); ("boot_ROM_SIZE <= 0x1000", "boot too big")].
Proof. split; [eexists; vm_compute; reflexivity | vm_compute; reflexivity]. Qed.

(* "the state where the tail statement is executed": whatever ASSERT of the script is picked (the script
   is version; SECTIONS { B }; ENTRY, assignments, t1, ASSERT(c, m), t2), the state [st_i] in which it is
   executed has the script symbols of the final state, so its condition has the same value there *)
Theorem C17_document_check_state : forall env senv ext final d rt w u t1 c m t2,
  gen_normal d rt = Ok w ->
  (required_stmts rt (doc_required_symbols d) ++ assert_stmts rt (doc_asserts d))%list = (t1 ++ SAssert c m :: t2)%list ->
  exists B,
    wo_script w = (version_stmts rt ++ [SSections B] ++ tail_stmts rt d)%list /\
    let st_i := run env senv ext final
                    (entry_stmts (doc_entry d) ++ assignment_stmts rt (doc_symbol_assignments d) ++ t1)
                    (run env senv ext final B (init_state u)) in
    let st' := exec_script env senv ext final (wo_script w) (init_state u) in
    st' = run env senv ext final (SAssert c m :: t2) st_i /\ l_syms st_i = l_syms st' /\
    eval_raw env ext st_i c = eval_raw env ext st' c.
Proof. exact document_check_state. Qed.

(* ====================================================================== *)
(* 2. asserts                                                              *)
(* ====================================================================== *)

(* an included assert whose check evaluates to 0 is reported with its message *)
Theorem C17_document_asserts : forall env senv ext final d rt w u a,
  gen_normal d rt = Ok w -> In a (doc_asserts d) -> should_emit rt (ae_conds a) = true ->
  let st' := exec_script env senv ext final (wo_script w) (init_state u) in
  eval_raw env ext st' (ae_check a) = Ok 0 ->
  In (LAssertFailed (ae_error_message a)) (l_errors st').
Proof. exact document_assert_fails. Qed.

Theorem C17_document_asserts_layout : forall d rt w u ext0 a,
  gen_normal d rt = Ok w -> In a (doc_asserts d) -> should_emit rt (ae_conds a) = true ->
  let st' := layout (wo_script w) u ext0 in
  eval_raw (last_env (wo_script w) u ext0) (last_ext (wo_script w) u ext0) st' (ae_check a) = Ok 0 ->
  In (LAssertFailed (ae_error_message a)) (l_errors st').
Proof. exact document_assert_fails_layout. Qed.

(* boot takes 68 bytes of ROM: "boot_ROM_SIZE <= 0x10" is 0 in the final state *)
Example C17_document_asserts_ex :
  let a := AssertEntry "boot_ROM_SIZE <= 0x10" "boot too big" no_conds in
  let s := script_of failing_doc in
  (exists w, gen_normal failing_doc ex_rt = Ok w) /\
  In a (doc_asserts failing_doc) /\ should_emit ex_rt (ae_conds a) = true /\
  eval_raw (last_env s dl_universe [("main", 5)]) (last_ext s dl_universe [("main", 5)])
           (layout s dl_universe [("main", 5)]) (ae_check a) = Ok 0 /\
  l_errors (layout s dl_universe [("main", 5)]) = [LAssertFailed "boot too big"].
Proof.
  split; [eexists; vm_compute; reflexivity|]. split; [left; reflexivity|].
  split; [vm_compute; reflexivity|]. split; vm_compute; reflexivity.
Qed.

(* the converse: an assertion failure among the final errors is the message of an included assert whose
   check evaluates to 0, or required_msg n for an included required symbol n that is defined nowhere *)
Theorem C17_document_failure_origin : forall env senv ext final d rt w u m',
  gen_normal d rt = Ok w ->
  let st' := exec_script env senv ext final (wo_script w) (init_state u) in
  In (LAssertFailed m') (l_errors st') ->
  (exists a, In a (doc_asserts d) /\ should_emit rt (ae_conds a) = true /\ ae_error_message a = m' /\
             eval_raw env ext st' (ae_check a) = Ok 0) \/
  (exists r, In r (doc_required_symbols d) /\ should_emit rt (rq_conds r) = true /\
             m' = required_msg (rq_name r) /\ sym_lookup (rq_name r) st' env ext = None).
Proof. exact document_failure_origin. Qed.

Theorem C17_document_failure_origin_layout : forall d rt w u ext0 m',
  gen_normal d rt = Ok w ->
  let st' := layout (wo_script w) u ext0 in
  let env := last_env (wo_script w) u ext0 in
  let ext := last_ext (wo_script w) u ext0 in
  In (LAssertFailed m') (l_errors st') ->
  (exists a, In a (doc_asserts d) /\ should_emit rt (ae_conds a) = true /\ ae_error_message a = m' /\
             eval_raw env ext st' (ae_check a) = Ok 0) \/
  (exists r, In r (doc_required_symbols d) /\ should_emit rt (rq_conds r) = true /\
             m' = required_msg (rq_name r) /\ sym_lookup (rq_name r) st' env ext = None).
Proof. exact document_failure_origin_layout. Qed.

(* hence a message is NOT reported when every included assert carrying it holds (or cannot be evaluated)
   and every included required symbol it names is defined *)
Theorem C17_document_assert_holds : forall env senv ext final d rt w u m',
  gen_normal d rt = Ok w ->
  let st' := exec_script env senv ext final (wo_script w) (init_state u) in
  (forall a, In a (doc_asserts d) -> should_emit rt (ae_conds a) = true ->
             ae_error_message a = m' -> eval_raw env ext st' (ae_check a) <> Ok 0) ->
  (forall r, In r (doc_required_symbols d) -> should_emit rt (rq_conds r) = true ->
             m' = required_msg (rq_name r) -> sym_lookup (rq_name r) st' env ext <> None) ->
  ~ In (LAssertFailed m') (l_errors st').
Proof. exact document_assert_holds. Qed.

(* ====================================================================== *)
(* 3. required symbols                                                     *)
(* ====================================================================== *)

(* an included required symbol that is defined nowhere - not by the script in this pass, not in the
   previous pass, not by the objects - is reported *)
Theorem C17_document_required : forall env senv ext final d rt w u r,
  gen_normal d rt = Ok w -> In r (doc_required_symbols d) -> should_emit rt (rq_conds r) = true ->
  let st' := exec_script env senv ext final (wo_script w) (init_state u) in
  sym_lookup (rq_name r) st' env ext = None ->
  In (LAssertFailed (required_msg (rq_name r))) (l_errors st').
Proof. exact document_required_fails. Qed.

Theorem C17_defined_nowhere : forall n st env ext,
  sym_lookup n st env ext = None <->
  lookup n (l_syms st) = None /\ lookup n env = None /\ lookup n ext = None.
Proof. exact sym_lookup_none. Qed.

(* layout: not assigned by the script (last pass, previous pass), not among the symbols [ext0] of the
   objects, not the marker of an input section *)
Theorem C17_document_required_layout : forall d rt w u ext0 r,
  gen_normal d rt = Ok w -> In r (doc_required_symbols d) -> should_emit rt (rq_conds r) = true ->
  let st' := layout (wo_script w) u ext0 in
  lookup (rq_name r) (l_syms st') = None -> lookup (rq_name r) (last_env (wo_script w) u ext0) = None ->
  lookup (rq_name r) ext0 = None -> ~ In (rq_name r) (map u_marker u) ->
  In (LAssertFailed (required_msg (rq_name r))) (l_errors st').
Proof. exact document_required_fails_layout. Qed.

Example C17_document_required_ex :
  let r := RequiredSymbol "main" no_conds in
  In r (doc_required_symbols dl_doc) /\ should_emit ex_rt (rq_conds r) = true /\
  lookup "main" (l_syms (layout dl_script dl_universe [])) = None /\
  lookup "main" (last_env dl_script dl_universe []) = None /\
  ~ In "main" (map u_marker dl_universe) /\
  l_errors (layout dl_script dl_universe []) = [LAssertFailed (required_msg "main")].
Proof.
  split; [left; reflexivity|]. split; [vm_compute; reflexivity|]. split; [vm_compute; reflexivity|].
  split; [vm_compute; reflexivity|]. split; [vm_compute; intuition discriminate | vm_compute; reflexivity].
Qed.

(* a required symbol that IS defined is not reported because of its entry: the message appears only if
   an included assert of the user carries the very same message and fails *)
Theorem C17_document_required_holds : forall env senv ext final d rt w u n v,
  gen_normal d rt = Ok w ->
  let st' := exec_script env senv ext final (wo_script w) (init_state u) in
  sym_lookup n st' env ext = Some v ->
  (forall a, In a (doc_asserts d) -> should_emit rt (ae_conds a) = true ->
             ae_error_message a = required_msg n -> eval_raw env ext st' (ae_check a) <> Ok 0) ->
  ~ In (LAssertFailed (required_msg n)) (l_errors st').
Proof. exact document_required_holds. Qed.

Theorem C17_document_required_holds_layout : forall d rt w u ext0 n v,
  gen_normal d rt = Ok w ->
  let st' := layout (wo_script w) u ext0 in
  let env := last_env (wo_script w) u ext0 in
  let ext := last_ext (wo_script w) u ext0 in
  sym_lookup n st' env ext = Some v ->
  (forall a, In a (doc_asserts d) -> should_emit rt (ae_conds a) = true ->
             ae_error_message a = required_msg n -> eval_raw env ext st' (ae_check a) <> Ok 0) ->
  ~ In (LAssertFailed (required_msg n)) (l_errors st').
Proof. exact document_required_holds_layout. Qed.

Example C17_document_required_holds_ex :
  sym_lookup "main" (layout dl_script dl_universe [("main", 5)])
             (last_env dl_script dl_universe [("main", 5)]) (last_ext dl_script dl_universe [("main", 5)]) = Some 5 /\
  (forall a, In a (doc_asserts dl_doc) -> ae_error_message a <> required_msg "main") /\
  l_errors (layout dl_script dl_universe [("main", 5)]) = [].
Proof.
  split; [vm_compute; reflexivity|]. split; [|vm_compute; reflexivity].
  intros a [Ea|[]]. subst a. vm_compute. discriminate.
Qed.

Theorem C17_required_msg_injective : forall a b, required_msg a = required_msg b -> a = b.
Proof. exact required_msg_inj. Qed.

(* ====================================================================== *)
(* 4. _gp                                                                  *)
(* ====================================================================== *)

(* how many statements of the generated script, at any depth, assign "_gp" (assignments, ALIGN and MAX
   statements alike): the hard-coded value, the included gp_info of the emitted segments, the user's own
   assignments named _gp; the two counts of Spec/C17.v and Spec/DocLevel.v agree on generated scripts *)
Theorem C17_document_gp_count : forall d rt w,
  gen_normal d rt = Ok w ->
  count_assigns "_gp" (wo_script w) =
  (hardcoded_count (doc_settings d) +
   (if single_segment_mode (doc_settings d) then list_sum (map (gp_occurrences rt) (doc_segments d))
    else segments_gp rt (doc_segments d)) +
   user_gp rt d)%nat.
Proof. exact document_gp_count. Qed.

Theorem C17_no_user_gp : forall rt d, no_user_gp rt d = true <-> user_gp rt d = 0%nat.
Proof. exact no_user_gp_count. Qed.

(* only the hard-coded value (both modes, from any state): _gp has that value at the end of the pass *)
Theorem C17_document_gp_hardcoded : forall env senv ext final d rt w st v,
  gen_normal d rt = Ok w -> hardcoded_gp_value (doc_settings d) = Some v ->
  (if single_segment_mode (doc_settings d) then list_sum (map (gp_occurrences rt) (doc_segments d))
   else segments_gp rt (doc_segments d)) = 0%nat ->
  user_gp rt d = 0%nat ->
  val (exec_script env senv ext final (wo_script w) st) "_gp" = Some (Z.of_N v).
Proof. exact document_gp_hardcoded_doc. Qed.

Theorem C17_document_gp_hardcoded_layout : forall d rt w u ext0 v,
  gen_normal d rt = Ok w -> hardcoded_gp_value (doc_settings d) = Some v ->
  (if single_segment_mode (doc_settings d) then list_sum (map (gp_occurrences rt) (doc_segments d))
   else segments_gp rt (doc_segments d)) = 0%nat ->
  user_gp rt d = 0%nat ->
  val (layout (wo_script w) u ext0) "_gp" = Some (Z.of_N v).
Proof. exact document_gp_hardcoded_layout. Qed.

Example C17_document_gp_hardcoded_ex :
  (exists w, gen_normal gp_doc_hard ex_rt = Ok w) /\
  hardcoded_gp_value (doc_settings gp_doc_hard) = Some 2147516416%N /\
  single_segment_mode (doc_settings gp_doc_hard) = false /\
  segments_gp ex_rt (doc_segments gp_doc_hard) = 0%nat /\ user_gp ex_rt gp_doc_hard = 0%nat /\
  val (layout (script_of gp_doc_hard) dl_universe [("main", 5)]) "_gp" = Some 2147516416.
Proof.
  split; [eexists; vm_compute; reflexivity|]. repeat split; vm_compute; reflexivity.
Qed.

(* the same with the condition on the script itself *)
Theorem C17_document_gp_hardcoded_once : forall env senv ext final d rt w st v,
  gen_normal d rt = Ok w -> hardcoded_gp_value (doc_settings d) = Some v ->
  count_assigns "_gp" (wo_script w) = 1%nat ->
  val (exec_script env senv ext final (wo_script w) st) "_gp" = Some (Z.of_N v).
Proof. exact document_gp_hardcoded. Qed.

(* an included gp_info [g] on the included segment [seg], naming its section [sec], the only gp_info
   statement of the script, no user assignment named _gp (a hard-coded value may be present: it comes
   first and is overridden); PROVIDE only if the objects do not define _gp.  At the end of the pass:
   _gp = START + (offset mod 2^32) where START is the value of seg_SEC_START - the start of the section
   group after its start alignments - which is START + offset modulo 2^32.
   Error condition: when [sec] is an allocatable section, no LForwardRef for the output section .seg
   (a noload section needs none). *)
Theorem C17_document_gp : forall env senv ext final d rt w st seg sec g,
  gen_normal d rt = Ok w -> doc_link_wf d rt = true ->
  In seg (included rt (doc_segments d)) -> In sec (seg_sections seg) -> GpHere rt seg sec g ->
  (gp_provide g && is_some (lookup "_gp" ext))%bool = false ->
  segments_gp rt (doc_segments d) = 1%nat -> user_gp rt d = 0%nat ->
  let sty := linker_symbols_style (doc_settings d) in
  let st' := exec_script env senv ext final (wo_script w) st in
  (In sec (alloc_sections seg) -> ~ In (LForwardRef (alloc_name seg)) (l_errors st')) ->
  exists S,
    val st' (segment_section_start sty (sg_name seg) sec) = Some S /\
    val st' "_gp" = Some (S + gp_offset g mod 4294967296) /\
    (S + gp_offset g mod 4294967296) mod 4294967296 = (S + gp_offset g) mod 4294967296.
Proof. exact document_gp_info_doc. Qed.

Theorem C17_document_gp_layout : forall d rt w u ext0 seg sec g,
  gen_normal d rt = Ok w -> doc_link_wf d rt = true ->
  In seg (included rt (doc_segments d)) -> In sec (seg_sections seg) -> GpHere rt seg sec g ->
  (gp_provide g && is_some (lookup "_gp" (last_ext (wo_script w) u ext0)))%bool = false ->
  segments_gp rt (doc_segments d) = 1%nat -> user_gp rt d = 0%nat ->
  let sty := linker_symbols_style (doc_settings d) in
  let st' := layout (wo_script w) u ext0 in
  (In sec (alloc_sections seg) -> ~ In (LForwardRef (alloc_name seg)) (l_errors st')) ->
  exists S,
    val st' (segment_section_start sty (sg_name seg) sec) = Some S /\
    val st' "_gp" = Some (S + gp_offset g mod 4294967296) /\
    (S + gp_offset g mod 4294967296) mod 4294967296 = (S + gp_offset g) mod 4294967296.
Proof. exact document_gp_info_layout. Qed.

(* the same with the condition on the script itself: the gp_info statement is the only statement after
   begin_sections that assigns _gp *)
Theorem C17_document_gp_counted : forall env senv ext final d rt w st seg sec g,
  gen_normal d rt = Ok w -> doc_link_wf d rt = true ->
  In seg (included rt (doc_segments d)) -> In sec (seg_sections seg) -> GpHere rt seg sec g ->
  (gp_provide g && is_some (lookup "_gp" ext))%bool = false ->
  count_assigns "_gp" (wo_script w) = (hardcoded_count (doc_settings d) + 1)%nat ->
  let sty := linker_symbols_style (doc_settings d) in
  let st' := exec_script env senv ext final (wo_script w) st in
  (In sec (alloc_sections seg) -> ~ In (LForwardRef (alloc_name seg)) (l_errors st')) ->
  exists S,
    val st' (segment_section_start sty (sg_name seg) sec) = Some S /\
    val st' "_gp" = Some (S + gp_offset g mod 4294967296) /\
    (S + gp_offset g mod 4294967296) mod 4294967296 = (S + gp_offset g) mod 4294967296.
Proof. exact document_gp_info. Qed.

(* gp_doc_info: no hard-coded value, boot has gp_info {.sdata, 0x7FF0, PROVIDE}; the objects do not
   define _gp; boot_SDATA_START = 68, _gp = 68 + 0x7FF0 *)
Example C17_document_gp_ex :
  let seg := ex_segment "boot" ex_files_boot None (Some ex_gp) no_conds in
  let s := script_of gp_doc_info in
  (exists w, gen_normal gp_doc_info ex_rt = Ok w) /\ doc_link_wf gp_doc_info ex_rt = true /\
  In seg (included ex_rt (doc_segments gp_doc_info)) /\ In ".sdata" (seg_sections seg) /\
  GpHere ex_rt seg ".sdata" ex_gp /\
  lookup "_gp" (last_ext s dl_universe [("main", 5)]) = None /\
  segments_gp ex_rt (doc_segments gp_doc_info) = 1%nat /\ user_gp ex_rt gp_doc_info = 0%nat /\
  l_errors (layout s dl_universe [("main", 5)]) = [] /\
  val (layout s dl_universe [("main", 5)]) "boot_SDATA_START" = Some 68 /\
  val (layout s dl_universe [("main", 5)]) "_gp" = Some (68 + 32752).
Proof.
  split; [eexists; vm_compute; reflexivity|]. split; [vm_compute; reflexivity|].
  split; [left; reflexivity|]. split; [vm_compute; tauto|]. split; [repeat split|].
  repeat split; vm_compute; reflexivity.
Qed.

(* dl_doc has both: the hard-coded value comes first and the gp_info statement overrides it *)
Example C17_document_gp_both_ex :
  count_assigns "_gp" dl_script = (hardcoded_count (doc_settings dl_doc) + 1)%nat /\
  val (layout dl_script dl_universe [("main", 5)]) "_gp" = Some (68 + 32752).
Proof. split; vm_compute; reflexivity. Qed.

(* neither: the script does not touch _gp *)
Theorem C17_document_gp_undefined : forall env senv ext final d rt w st,
  gen_normal d rt = Ok w -> count_assigns "_gp" (wo_script w) = 0%nat ->
  val (exec_script env senv ext final (wo_script w) st) "_gp" = val st "_gp".
Proof. exact document_gp_undefined. Qed.

Print Assumptions C17_document_checks.
Print Assumptions C17_document_checks_layout.
Print Assumptions C17_document_check_state.
Print Assumptions C17_document_asserts.
Print Assumptions C17_document_asserts_layout.
Print Assumptions C17_document_failure_origin.
Print Assumptions C17_document_failure_origin_layout.
Print Assumptions C17_document_assert_holds.
Print Assumptions C17_document_required.
Print Assumptions C17_defined_nowhere.
Print Assumptions C17_document_required_layout.
Print Assumptions C17_document_required_holds.
Print Assumptions C17_document_required_holds_layout.
Print Assumptions C17_required_msg_injective.
Print Assumptions C17_document_gp_count.
Print Assumptions C17_no_user_gp.
Print Assumptions C17_document_gp_hardcoded.
Print Assumptions C17_document_gp_hardcoded_layout.
Print Assumptions C17_document_gp_hardcoded_once.
Print Assumptions C17_document_gp.
Print Assumptions C17_document_gp_layout.
Print Assumptions C17_document_gp_counted.
Print Assumptions C17_document_gp_undefined.
