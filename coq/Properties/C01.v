(* C01 - Every listed input section is placed exactly once, inside its own segment and section group.
   Only statements, each closed by [exact]; see Proofs/C01.v.  The declarative description of what an
   entry contributes ([leaves], [EntryStmts], [Expands], [Reaches]) is in Spec/C01.v; Properties/C02.v
   (C02_order, C02_order_files) shows that the writer's output meets it. *)
From Slinky Require Import Model.Types Model.Runtime Model.Style Model.Script Model.Writer Model.LdSem.
From Slinky Require Import Spec.C09 Spec.C02 Proofs.C01.
From Coq Require Import ZArith Permutation.

(* ---------- no statement names something the document does not list ---------- *)

(* every input statement among the files of a group names (displayed path, member) of a leaf of the
   segment's file list - an included object or archive entry, under the directories of the groups above
   it - and a section reached from the group's section through the chain of entries above the leaf:
   at each entry, the section itself unless section_order redirects it, a section_order key mapped to
   it, or a sub-group member of such a section.  No hypothesis. *)
Theorem C01_nothing_unlisted : forall rt sty cfg seg sections base_path section ws l ws',
  emit_section rt sty cfg seg sections base_path section ws = Ok (l, ws') ->
  exists b, forall s, In s l -> is_input s = true ->
    exists c0, In c0 (sg_files seg) /\
    exists c bc chain, In (c, bc, chain) (leaves rt b c0) /\ names_leaf rt seg c bc (input_section s) s /\
                       reach_via cfg seg sections chain section (input_section s).
Proof. exact nothing_unlisted. Qed.

(* the first step of [Reaches], spelled out without the sort *)
Theorem C01_here_spec : forall sections f section k, In k (here sections f section) <-> here_spec f section k.
Proof. exact in_here. Qed.

(* ---------- exactly one input statement per configured section ---------- *)

(* the sections written for one entry that is not a group over all groups of a segment: when the
   sub-groups form a forest below the configured sections and the entry's section_order only moves
   configured sections to configured sections, every section of the closure is written exactly once,
   and nothing else *)
Theorem C01_each_once_keys : forall cfg seg f,
  WF_subgroups seg -> WF_section_order seg f -> fi_kind f <> KGroup ->
  forall Keys,
  Forall2 (fun s keys => exists sections, Expands cfg seg sections f s keys) (configured seg) Keys ->
  NoDup (List.concat Keys) /\
  (forall k, In k (List.concat Keys) <-> InClosure cfg seg (configured seg) k).
Proof. exact each_once_keys. Qed.

(* a group does not follow the sub-groups itself: it asks its entries for the sections of [here], and
   over all groups of a segment that is every configured section exactly once *)
Theorem C01_group_keys : forall cfg seg sections f s l,
  fi_kind f = KGroup -> Expands cfg seg sections f s l -> l = here sections f s.
Proof. exact expands_group. Qed.

Theorem C01_group_asks_each_once : forall seg f V Hs,
  WF_subgroups seg -> WF_section_order seg f -> Permutation V (configured seg) ->
  Forall2 (fun s h => exists sections, h = here sections f s) V Hs ->
  Permutation (List.concat Hs) (configured seg).
Proof. exact group_asks_each_once. Qed.

(* hence for an included object / archive entry listed directly in the segment: its statements over
   all groups (allocatable and noload, each written with its own section list) are input statements
   naming that entry, exactly one for every section of the closure of the configured sections *)
Theorem C01_each_once : forall rt sty cfg seg f base ls,
  WF_subgroups seg -> WF_section_order seg f ->
  (fi_kind f = KObject \/ fi_kind f = KArchive) -> should_emit rt (fi_conds f) = true ->
  Forall2 (fun s l => exists sections, EntryStmts rt sty cfg seg sections f s base l) (configured seg) ls ->
  inputs_of (List.concat ls) = List.concat ls /\
  NoDup (map input_section (List.concat ls)) /\
  (forall k, In k (map input_section (List.concat ls)) <-> InClosure cfg seg (configured seg) k) /\
  Forall (fun st => names_leaf rt seg f base (input_section st) st) (List.concat ls).
Proof. exact each_once. Qed.

(* the hypotheses can be met: section_order and sub-groups together *)
Example C01_each_once_example :
  let seg := c01_seg [c01_obj "a.o" []; c01_obj "m.o" [(".data", ".text")]] [".text"; ".data"] [".bss"]
                     [(".data", [".data.x"])] in
  WF_subgroups seg /\ WF_section_order seg (c01_obj "m.o" [(".data", ".text")]) /\
  inputs_of_doc (c01_doc [c01_obj "a.o" []; c01_obj "m.o" [(".data", ".text")]] [".text"; ".data"] [".bss"]
                         [(".data", [".data.x"])]) =
  ["a.o(.text)"; "m.o(.text)"; "m.o(.data)"; "m.o(.data.x)"; "a.o(.data)"; "a.o(.data.x)"; "a.o(.bss)"; "m.o(.bss)"].
Proof. exact each_once_example. Qed.

(* entries at any depth inside groups: for an entry of the segment's list (or of any list of entries),
   the input statements written over the groups of all configured sections are, up to order, one part
   per leaf below it ([leaves]: the included object / archive entries, with the directories of the
   groups above them), and the part of a leaf is exactly one input statement naming it for every
   section of the closure.  The section_order of every entry on the way (groups included) only moves
   configured sections to configured sections. *)
Theorem C01_each_once_deep : forall rt sty cfg seg f base ls,
  WF_subgroups seg -> WF_section_order_deep seg f ->
  Forall2 (fun s l => exists sections, EntryStmts rt sty cfg seg sections f s base l) (configured seg) ls ->
  exists parts, Permutation (inputs_of (List.concat ls)) (List.concat parts) /\
                Forall2 (leaf_once rt cfg seg) (leaves rt base f) parts.
Proof. exact each_once_deep. Qed.

Theorem C01_each_once_files : forall rt sty cfg seg files base rows,
  WF_subgroups seg -> Forall (WF_section_order_deep seg) files ->
  Forall2 (fun s l => exists sections, KidsStmts rt sty cfg seg sections files s base l) (configured seg) rows ->
  exists parts, Permutation (inputs_of (List.concat rows)) (List.concat parts) /\
                Forall2 (leaf_once rt cfg seg) (flat_map (leaves rt base) files) parts.
Proof. exact each_once_files. Qed.

(* ... and for the writer: what emit_section returns for the files of a segment, over all configured
   sections (each group written with its own section list and from any state) *)
Theorem C01_each_once_segment : forall rt sty cfg seg base_path b rows,
  WF_subgroups seg -> Forall (WF_section_order_deep seg) (sg_files seg) ->
  (exists b0, escape_path rt base_path = Ok b0 /\
              (if reference_partial cfg then b = b0
               else exists d, escape_path rt (sg_dir seg) = Ok d /\ b = push b0 d)) ->
  Forall2 (fun s l => exists sections ws ws',
               emit_section rt sty cfg seg sections base_path s ws = Ok (l, ws')) (configured seg) rows ->
  exists parts, Permutation (inputs_of (List.concat rows)) (List.concat parts) /\
                Forall2 (leaf_once rt cfg seg) (flat_map (leaves rt b) (sg_files seg)) parts.
Proof. exact each_once_segment. Qed.

(* REPAIRED (was the finding C01_refuted_group_subgroups: sub-groups were expanded once for a group and
   once more for each of its entries, so a file inside a group got two statements for every sub-group
   section): the same document now yields every statement once; it meets the hypotheses of
   C01_each_once_deep *)
Example C01_group_subgroups_once :
  let g := c01_group "g" [c01_obj "a.o" []] in
  let seg := c01_seg [g] [".text"] [".bss"] [(".text", [".text.hot"])] in
  WF_subgroups seg /\ WF_section_order_deep seg g /\
  inputs_of_doc (c01_doc [g] [".text"] [".bss"] [(".text", [".text.hot"])]) =
  ["g/a.o(.text)"; "g/a.o(.text.hot)"; "g/a.o(.bss)"].
Proof. exact group_subgroups_once. Qed.

(* ---------- KNOWN FINDINGS ---------- *)

(* a section_order destination that is not among the segment's sections silently drops the section:
   with alloc_sections [.text, .data] and section_order {.data: .rodata} nothing names m.o(.data) *)
Theorem C01_refuted_dropped_section :
  inputs_of_doc (c01_doc [c01_obj "a.o" []; c01_obj "m.o" [(".data", ".rodata")]] [".text"; ".data"] [".bss"] []) =
  ["a.o(.text)"; "m.o(.text)"; "a.o(.data)"; "a.o(.bss)"; "m.o(.bss)"].
Proof. exact refuted_dropped_section. Qed.

(* a duplicate entry in alloc_sections places every file twice *)
Theorem C01_refuted_duplicate_list :
  inputs_of_doc (c01_doc [c01_obj "a.o" []] [".text"; ".text"] [".bss"] []) =
  ["a.o(.text)"; "a.o(.text)"; "a.o(.bss)"].
Proof. exact refuted_duplicate_list. Qed.

Local Open Scope Z_scope.

(* ---------- after linking ---------- *)

(* executing any script from a state with non-negative sizes: every input section that gets placed
   lies inside [vma, vma + size] of an output section laid out by the same script, carrying its name;
   nothing is ever removed from the placements; what is discarded was waiting at that moment *)
Theorem C01_placed_in_section : forall env ext senv final script st,
  nonneg_sizes (l_remaining st) ->
  let st' := exec_script env senv ext final script st in
  nonneg_sizes (l_remaining st') /\
  incl (l_remaining st') (l_remaining st) /\
  (exists extra, l_discarded st' = (l_discarded st ++ extra)%list /\ incl extra (map u_marker (l_remaining st))) /\
  exists new secs, l_placed st' = (l_placed st ++ new)%list /\ l_secs st' = (l_secs st ++ secs)%list /\
                   Forall (in_some_section secs) new.
Proof. exact script_post. Qed.

(* an input statement moves exactly the sections it selects from the universe to the placements of
   the open output section: they are no longer there for /DISCARD/ or an allowlist entry to take *)
Theorem C01_not_discarded : forall env ext senv final vma sub outsec ss kp path member sect wild,
  let ss' := exec_sec_stmt env senv ext final vma sub outsec ss (SInput kp path member sect wild) in
  l_remaining (s_st ss') =
    filter (fun u => negb (sel false path member sect wild u)) (l_remaining (s_st ss)) /\
  l_discarded (s_st ss') = l_discarded (s_st ss) /\
  exists new, l_placed (s_st ss') = (l_placed (s_st ss) ++ new)%list /\
              map pl_marker new = map u_marker (filter (sel false path member sect wild) (l_remaining (s_st ss))) /\
              Forall (fun p => pl_outsec p = outsec) new.
Proof. exact input_moves. Qed.

(* every input section is, at any time, in exactly one of: placed, discarded, waiting *)
Theorem C01_conservation : forall env ext senv final script st,
  Permutation (all_markers (exec_script env senv ext final script st)) (all_markers st).
Proof. exact script_conserves. Qed.

Theorem C01_placed_not_discarded : forall env senv ext final script st,
  NoDup (all_markers st) ->
  let st' := exec_script env senv ext final script st in
  NoDup (all_markers st') /\
  forall p, In p (l_placed st') -> ~ In (pl_marker p) (l_discarded st') /\
                                   ~ In (pl_marker p) (map u_marker (l_remaining st')).
Proof. exact placed_not_discarded. Qed.

Example C01_link_example :
  exists w, gen_normal (c01_doc [c01_obj "a.o" []; c01_obj "b.o" []] [".text"; ".data"] [".bss"] []) c01_rt = Ok w /\
    let st := layout (wo_script w) c09_universe [] in
    map (fun p => (pl_marker p, pl_addr p, pl_outsec p)) (l_placed st) =
      [("a_text", 0, ".s"); ("b_text", 10, ".s"); ("a_data", 16, ".s"); ("b_bss", 24, ".s.noload")] /\
    l_remaining st = []%list /\ l_discarded st = []%list.
Proof. exact link_example. Qed.

Print Assumptions C01_nothing_unlisted.
Print Assumptions C01_here_spec.
Print Assumptions C01_each_once_keys.
Print Assumptions C01_group_keys.
Print Assumptions C01_group_asks_each_once.
Print Assumptions C01_each_once.
Print Assumptions C01_each_once_deep.
Print Assumptions C01_each_once_files.
Print Assumptions C01_each_once_segment.
Print Assumptions C01_refuted_dropped_section.
Print Assumptions C01_refuted_duplicate_list.
Print Assumptions C01_placed_in_section.
Print Assumptions C01_not_discarded.
Print Assumptions C01_conservation.
Print Assumptions C01_placed_not_discarded.
