(* C04 / C03 / C05 / C10 - translator obligations: the linker_writer.rs templates (ROM bookkeeping, header
   pieces, ADDR, ABSOLUTE, class size, MAX, FILL, version comment) *)
From Slinky Require Import Model.Types Model.Generated Model.Style Model.Script Proofs.TablesC04.
Local Open Scope string_scope.

Theorem C04_tables_linker_writer :
  t_sb_write_symbol_max_self_0_spec = [""; ""; ""] /\
  t_lw_new_0_spec = [""; ""; ""] /\
  t_lw_end_sections_0_spec = [""; ""] /\
  t_lw_add_segment_0_spec = [":08X"] /\
  t_lw_add_segment_1_spec = [""] /\
  t_lw_add_segment_2_spec = [""] /\
  t_lw_add_single_segment_1_spec = [":08X"] /\
  t_lw_write_sym_end_size_0_spec = [""; ""] /\
  t_lw_write_segment_start_0_spec = [""; ""] /\
  t_lw_write_segment_start_5_spec = [""] /\
  t_lw_write_segment_start_6_spec = [""] /\
  t_lw_write_segment_0_spec = [":08X"] /\
  t_lw_write_single_segment_2_spec = [":08X"].
Proof. exact specs_C04. Qed.

Theorem C04_tables_romadd : forall ind name,
  render_stmt ind (SRomAdd ("." ++ name)) = [indent_str ind ++ fmt t_lw_add_segment_2 [name]].
Proof. exact lw_romadd. Qed.

Theorem C04_tables_header_alloc : forall name addr rom sub,
  render_header ("." ++ name) addr (Some rom) false sub =
  fmt t_lw_write_segment_start_0 [name; ""] ++
  match addr with Some e => " " ++ render_expr e | None => "" end ++
  fmt t_lw_write_segment_start_5 [rom] ++
  match sub with Some n => fmt t_lw_write_segment_start_6 [dec_of_N n] | None => "" end.
Proof. exact lw_header_alloc. Qed.

Theorem C04_tables_addr : forall name, render_expr (EAddr ("." ++ name)) = fmt t_lw_add_segment_1 [name].
Proof. exact lw_addr. Qed.

Theorem C04_tables_absolute : forall a b, render_expr (EAbsSub a b) = fmt t_lw_write_sym_end_size_0 [a; b].
Proof. exact lw_absolute. Qed.

Theorem C04_tables_class_size : forall a b, render_expr (ESub a b) = fmt t_lw_end_sections_0 [a; b].
Proof. exact lw_class_size. Qed.

Theorem C04_tables_max : forall ind sym other,
  render_stmt ind (SMaxSelf sym other) = [indent_str ind ++ fmt t_sb_write_symbol_max_self_0 [sym; sym; other]].
Proof. exact sb_max. Qed.

Theorem C04_tables_fill : forall ind n, render_stmt ind (SFill n) = [indent_str ind ++ fmt t_lw_write_segment_0 [hex8_of_N n]].
Proof. exact lw_fill. Qed.

Theorem C04_tables_dot_set : forall ind v,
  render_stmt ind (SAssign false false false "." (EHex8 v)) = [indent_str ind ++ fmt t_lw_add_single_segment_1 [hex8_of_N v]].
Proof. exact lw_dot_set. Qed.

Theorem C04_tables_version_comment : forall ind,
  render_stmt ind (SComment version_comment_text) =
  [indent_str ind ++ fmt t_lw_new_0 [dec_of_N version_major; dec_of_N version_minor; dec_of_N version_patch]].
Proof. exact lw_version_comment. Qed.

Print Assumptions C04_tables_linker_writer.
Print Assumptions C04_tables_romadd.
Print Assumptions C04_tables_header_alloc.
Print Assumptions C04_tables_addr.
Print Assumptions C04_tables_absolute.
Print Assumptions C04_tables_class_size.
Print Assumptions C04_tables_max.
Print Assumptions C04_tables_fill.
Print Assumptions C04_tables_dot_set.
Print Assumptions C04_tables_version_comment.
