(* C04 - ROM positions are contiguous, ordered and exclude noload data.
   Only statements, each closed by [exact]; see Proofs/C04.v.  "Link level" theorems are about LdSem
   executing the generated statements, for every previous-pass environment [env]/[senv], every set of
   object symbols [ext], both kinds of pass ([final]) and every starting state. *)
From Slinky Require Import Model.Types Model.Runtime Model.Style Model.Script Model.Writer Model.LdSem.
From Slinky Require Import Spec.C17 Spec.C04 Proofs.C18 Proofs.C17 Proofs.C04.
From Coq Require Import ZArith.
Local Open Scope string_scope.
Local Open Scope Z_scope.

(* ====================================================================== *)
(* script level                                                            *)
(* ====================================================================== *)

(* the SECTIONS block starts with "__romPos = 0x0", which ld evaluates to 0 *)
Theorem C04_rom_starts_at_zero : forall st,
  begin_sections_body st = rom_init :: (hardcoded_gp_stmts st ++ [SBlank])%list.
Proof. exact begin_sections_rom. Qed.

Theorem C04_zero_literal : forall env ext st, eval_raw env ext st "0x0" = Ok 0.
Proof. exact eval_raw_0x0. Qed.

(* C04_script, multi-segment mode.  In the whole SECTIONS body: the statements that assign __romPos
   (at any depth) are the initial assignment and, per included segment in document order, the
   optional start alignment, one "__romPos += SIZEOF(.name)" and the optional end alignment; the
   output-section headers are, per included segment, ".name" with the requested address and
   AT(name_ROM_START), then ".name.noload" marked NOLOAD with neither; SIZEOF is never taken of a
   noload section *)
Theorem C04_script : forall rt stg cfg classes segs ws s ws',
  single_segment_mode stg = false ->
  add_all_segments rt stg cfg classes segs ws = Ok (s, ws') ->
  exists all rest,
    s = [SSections all] /\ all = rom_init :: rest /\
    filter (assigns "__romPos") all = rom_init :: flat_map segment_rom_stmts (included rt segs) /\
    headers all = flat_map (segment_headers (linker_symbols_style stg)) (included rt segs) /\
    rom_adds all = map alloc_name (included rt segs).
Proof. exact script_multi. Qed.

(* the same, one segment at a time (also the main partial script, which uses add_segment) *)
Theorem C04_script_segment : forall rt stg cfg classes seg ws s ws',
  add_segment rt stg cfg classes seg ws = Ok (s, ws') ->
  filter (assigns "__romPos") s = (if should_emit rt (sg_conds seg) then segment_rom_stmts seg else []) /\
  headers s = (if should_emit rt (sg_conds seg) then segment_headers (linker_symbols_style stg) seg else []) /\
  rom_adds s = (if should_emit rt (sg_conds seg) then [alloc_name seg] else []).
Proof. exact script_segment. Qed.

(* single-segment mode: no ROM bookkeeping, one header per configured section, the noload ones
   marked NOLOAD, none with an address or AT *)
Theorem C04_script_single : forall rt stg cfg classes seg ws s ws',
  add_single_segment rt stg cfg classes seg ws = Ok (s, ws') ->
  exists all,
    s = [SSections all] /\
    filter (assigns "__romPos") all = [] /\
    headers all = (map (fun sec => (sec, None, None, false)) (alloc_sections seg) ++
                   map (fun sec => (sec, None, None, true)) (noload_sections seg))%list /\
    rom_adds all = [].
Proof. exact script_single. Qed.

(* the generated names are never "__romPos" or "." *)
Theorem C04_generated_name_not_rompos : forall sty s,
  style_name sty s -> s <> "__romPos" /\ s <> "." /\ s <> "_gp".
Proof. exact generated_name_not_special. Qed.

Example ex_generated_names : forall sty n sec,
  style_name sty (segment_rom_start sty n) /\ style_name sty (segment_rom_end sty n) /\
  style_name sty (segment_rom_size sty n) /\ style_name sty (segment_section_start sty n sec) /\
  style_name sty (linker_offset sty n) /\ style_name sty (vram_class_end sty n).
Proof. intros. repeat split; eexists _, _; (split; [|reflexivity]); simpl; tauto. Qed.

(* ====================================================================== *)
(* link level                                                              *)
(* ====================================================================== *)

(* executing the head of the SECTIONS block leaves __romPos = 0 *)
Theorem C04_rom_zero_link : forall env senv ext final stg st,
  let st' := run env senv ext final (begin_sections_body stg) st in
  val st' "__romPos" = Some 0 /\ l_secs st' = l_secs st /\ l_remaining st' = l_remaining st /\
  l_errors st' = l_errors st /\ l_dot st' = l_dot st.
Proof. exact run_begin. Qed.

(* frame: a statement list that does not assign x leaves x as it is *)
Theorem C04_frame : forall env senv ext final l x st,
  existsb (assigns x) l = false ->
  lookup x (l_syms (run env senv ext final l st)) = lookup x (l_syms st).
Proof. exact run_syms. Qed.

(* a NOLOAD output section is created no-load and without file contents whatever it receives *)
Theorem C04_noload_section : forall env senv ext final name at_ sub body st,
  let st' := exec_outsec env senv ext final name None at_ true sub body st in
  exists o, l_secs st' = (l_secs st ++ [o])%list /\ os_name o = name /\
            os_noload o = true /\ os_contents o = false /\
            os_vma o = align_up (l_dot st) (body_align (option_map Z.of_N sub) body (l_remaining st) 1).
Proof. exact noload_section. Qed.

(* C04_segment_rom, for the statements of a segment with ARBITRARY section bodies [body1] (the
   allocatable section), arbitrary statements [a1], [b1] around it and an arbitrary noload part [s2]:
   ROM_START = align_up r sa; the section .name gets load address ROM_START and is loadable; __romPos
   and ROM_END = align_up (ROM_START + SIZEOF(.name)) ea; ROM_SIZE = ROM_END - ROM_START.
   Hypotheses: no other output section is called .name, the other statements do not assign __romPos
   (true of what the writer emits: C04_script), each of the three ROM symbols is assigned once in the
   list (rom_names_distinct, see ex_rom_names_distinct) and the address of .name could be evaluated *)
Theorem C04_segment_rom_any_body : forall env senv ext final stg seg cls a1 addr sub body1 b1 s2 st0 r,
  let sty := linker_symbols_style stg in
  let name := sg_name seg in
  let RS := segment_rom_start sty name in
  let RE := segment_rom_end sty name in
  let RZ := segment_rom_size sty name in
  let L1 := (cls ++ seg_head stg seg ++ a1 ++ [SOutSec (alloc_name seg) addr (Some RS) false sub body1] ++ b1)%list in
  let L := (L1 ++ [SBlank] ++ s2 ++ [SBlank] ++ seg_foot stg seg)%list in
  let st1 := run env senv ext final L1 st0 in
  let st' := run env senv ext final L st0 in
  val st0 "__romPos" = Some r ->
  find_sec (alloc_name seg) (l_secs st0) = None ->
  ~ In (alloc_name seg) (flat_map makes_sec (cls ++ a1)) ->
  no_assign "__romPos" (cls ++ a1 ++ body1 ++ b1 ++ s2) = true ->
  rom_names_distinct sty name L = true ->
  ~ In (LForwardRef (alloc_name seg)) (l_errors st') ->
  sizes_ok st0 ->
  let rs := align_up r (align_z (segment_start_align seg)) in
  exists o,
    find_sec (alloc_name seg) (l_secs st1) = Some o /\
    find_sec (alloc_name seg) (l_secs st') = Some o /\
    os_lma o = Some rs /\ os_noload o = false /\ 0 <= os_size o /\
    let re := align_up (rs + os_size o) (align_z (segment_end_align seg)) in
    val st' "__romPos" = Some re /\ val st' RS = Some rs /\ val st' RE = Some re /\ val st' RZ = Some (re - rs).
Proof. exact segment_rom_general. Qed.

(* ... hence the noload part contributes nothing: with any other noload statements [s2'] the ROM
   position and the three ROM symbols are the same *)
Theorem C04_noload_takes_no_rom : forall env senv ext final stg seg cls a1 addr sub body1 b1 s2 s2' st0 r,
  let sty := linker_symbols_style stg in
  let name := sg_name seg in
  let RS := segment_rom_start sty name in
  let L1 := (cls ++ seg_head stg seg ++ a1 ++ [SOutSec (alloc_name seg) addr (Some RS) false sub body1] ++ b1)%list in
  let L := fun s2 => (L1 ++ [SBlank] ++ s2 ++ [SBlank] ++ seg_foot stg seg)%list in
  val st0 "__romPos" = Some r ->
  find_sec (alloc_name seg) (l_secs st0) = None ->
  ~ In (alloc_name seg) (flat_map makes_sec (cls ++ a1)) ->
  no_assign "__romPos" (cls ++ a1 ++ body1 ++ b1 ++ s2) = true ->
  no_assign "__romPos" (cls ++ a1 ++ body1 ++ b1 ++ s2') = true ->
  rom_names_distinct sty name (L s2) = true ->
  rom_names_distinct sty name (L s2') = true ->
  ~ In (LForwardRef (alloc_name seg)) (l_errors (run env senv ext final (L s2) st0)) ->
  ~ In (LForwardRef (alloc_name seg)) (l_errors (run env senv ext final (L s2') st0)) ->
  sizes_ok st0 ->
  forall x, In x ["__romPos"; RS; segment_rom_end sty name; segment_rom_size sty name] ->
            val (run env senv ext final (L s2) st0) x = val (run env senv ext final (L s2') st0) x.
Proof. exact noload_independent. Qed.

(* C04_segment_rom for what add_segment emits for an included segment *)
Theorem C04_segment_rom : forall env senv ext final rt stg cfg classes seg ws s ws' st0 r,
  add_segment rt stg cfg classes seg ws = Ok (s, ws') ->
  should_emit rt (sg_conds seg) = true ->
  let sty := linker_symbols_style stg in
  let name := sg_name seg in
  let st' := run env senv ext final s st0 in
  val st0 "__romPos" = Some r ->
  find_sec (alloc_name seg) (l_secs st0) = None ->
  rom_names_distinct sty name s = true ->
  ~ In (LForwardRef (alloc_name seg)) (l_errors st') ->
  sizes_ok st0 ->
  let rs := align_up r (align_z (segment_start_align seg)) in
  exists o,
    find_sec (alloc_name seg) (l_secs st') = Some o /\
    os_lma o = Some rs /\ os_noload o = false /\ 0 <= os_size o /\
    let re := align_up (rs + os_size o) (align_z (segment_end_align seg)) in
    val st' "__romPos" = Some re /\
    val st' (segment_rom_start sty name) = Some rs /\
    val st' (segment_rom_end sty name) = Some re /\
    val st' (segment_rom_size sty name) = Some (re - rs).
Proof. exact segment_rom. Qed.

(* C04_chain: over all the segments, read in the state at the end: the first emitted segment starts at
   align_up r sa_1, each next one at align_up (previous ROM_END) sa, ... (RomChain, Spec/C04.v).
   The names of the output sections of the emitted segments must be pairwise different (SIZEOF(.name)
   reads the first section of that name) and each ROM symbol must be assigned once *)
Theorem C04_chain : forall env senv ext final rt stg cfg classes segs ws body ws' st0 r,
  fold_out (add_segment rt stg cfg classes) segs ws = Ok (body, ws') ->
  let sty := linker_symbols_style stg in
  val st0 "__romPos" = Some r ->
  (forall seg, In seg (included rt segs) -> find_sec (alloc_name seg) (l_secs st0) = None) ->
  NoDup (out_names (included rt segs)) ->
  (forall seg, In seg (included rt segs) -> rom_names_distinct sty (sg_name seg) body = true) ->
  (forall n, ~ In (LForwardRef n) (l_errors (run env senv ext final body st0))) ->
  sizes_ok st0 ->
  RomChain sty (run env senv ext final body st0) r (included rt segs).
Proof. exact rom_chain_fold. Qed.

(* the whole SECTIONS body of a multi-segment script: the chain starts at 0 *)
Theorem C04_chain_sections : forall env senv ext final rt stg cfg classes segs ws body ws' st0,
  fold_out (add_segment rt stg cfg classes) segs ws = Ok (body, ws') ->
  let sty := linker_symbols_style stg in
  let all := (begin_sections_body stg ++ body ++ end_sections_body stg classes ws')%list in
  (forall seg, In seg (included rt segs) -> find_sec (alloc_name seg) (l_secs st0) = None) ->
  NoDup (out_names (included rt segs)) ->
  (forall seg, In seg (included rt segs) -> rom_names_distinct sty (sg_name seg) all = true) ->
  (forall n, ~ In (LForwardRef n) (l_errors (run env senv ext final all st0))) ->
  sizes_ok st0 ->
  RomChain sty (run env senv ext final all st0) 0 (included rt segs).
Proof. exact rom_chain_sections. Qed.

(* ROM addresses never go backwards: for an earlier segment a and a later one b,
   r <= ROM_START a <= ROM_END a <= ROM_START b *)
Theorem C04_rom_monotone : forall sty st l1 a l2 b l3 r,
  RomChain sty st r (l1 ++ a :: l2 ++ b :: l3) ->
  exists sa ea sb,
    val st (segment_rom_start sty (sg_name a)) = Some sa /\
    val st (segment_rom_end sty (sg_name a)) = Some ea /\
    val st (segment_rom_start sty (sg_name b)) = Some sb /\
    r <= sa /\ sa <= ea /\ ea <= sb.
Proof. exact rom_monotone. Qed.

(* ====================================================================== *)
(* examples: the sample document meets the hypotheses                      *)
(* ====================================================================== *)

(* every ROM symbol of every emitted segment is assigned exactly once in the SECTIONS body *)
Example ex_rom_names_distinct :
  forallb (fun seg => rom_names_distinct Splat (sg_name seg) ex_sections_body)
          (included ex_rt (doc_segments ex_doc)) = true /\
  List.length (included ex_rt (doc_segments ex_doc)) = 2%nat.
Proof. split; vm_compute; reflexivity. Qed.

Example ex_out_names_distinct : NoDup (out_names (included ex_rt (doc_segments ex_doc))).
Proof. vm_compute. repeat constructor; simpl; intuition discriminate. Qed.

(* a full link of the sample script against a small set of objects ends without error, and the ROM
   symbols have the chained values: boot occupies [0, 68), ovl_a starts at align_up 68 16 = 80 *)
Example ex_link_rom :
  let st := layout ex_script ex_universe [("main", 5)] in
  l_errors st = [] /\
  val st "boot_ROM_START" = Some 0 /\ val st "boot_ROM_END" = Some 68 /\ val st "boot_ROM_SIZE" = Some 68 /\
  val st "ovl_a_ROM_START" = Some 80 /\ val st "ovl_a_ROM_END" = Some 104 /\ val st "__romPos" = Some 104 /\
  map (fun o => (os_name o, os_lma o, os_noload o, os_contents o)) (firstn 4 (l_secs st)) =
  [(".boot", Some 0, false, true); (".boot.noload", None, true, false);
   (".ovl_a", Some 80, false, true); (".ovl_a.noload", None, true, false)].
Proof. vm_compute. repeat split; reflexivity. Qed.

Print Assumptions C04_rom_starts_at_zero.
Print Assumptions C04_zero_literal.
Print Assumptions C04_script.
Print Assumptions C04_script_segment.
Print Assumptions C04_script_single.
Print Assumptions C04_generated_name_not_rompos.
Print Assumptions C04_rom_zero_link.
Print Assumptions C04_frame.
Print Assumptions C04_noload_section.
Print Assumptions C04_segment_rom_any_body.
Print Assumptions C04_noload_takes_no_rom.
Print Assumptions C04_segment_rom.
Print Assumptions C04_chain.
Print Assumptions C04_chain_sections.
Print Assumptions C04_rom_monotone.
