(* C09DocPartial - C09 at document level (Properties/C09Doc.v: requested alignments hold in the linked
   image) for the MAIN script of a partial build (gen_partial, po_main).  Only statements, each closed by
   [exact]; see Proofs/C09DocPartial.v.  Hypotheses as in Properties/C11DocPartial.v: the generator
   succeeds, [doc_link_wf_partial d rt], no negative size in the universe of the partial objects, no
   LForwardRef for the allocatable section. *)
From Slinky Require Import Model.Types Model.Runtime Model.Style Model.Script Model.Writer Model.LdSem.
From Slinky Require Import Spec.C18 Spec.C04 Spec.C03 Spec.C05 Spec.C09 Spec.C10 Spec.DocLevel Spec.DocWf
  Spec.DocPartial Spec.C09Doc.
From Slinky Require Import Proofs.C09DocPartial.
From Coq Require Import ZArith.
Local Open Scope string_scope.
Local Open Scope Z_scope.

(* the section .seg is loaded at X_ROM_START, a multiple of segment_start_align; X_ROM_END and X_VRAM_END
   are multiples of segment_end_align *)
Theorem C09_partial_document_segments : forall env senv ext final d rt p u,
  gen_partial d rt = Ok p -> doc_link_wf_partial d rt = true ->
  Forall (fun x => 0 <= u_size x) u ->
  let sty := linker_symbols_style (doc_settings d) in
  let segs := included rt (doc_segments d) in
  let st' := exec_script env senv ext final (wo_script (po_main p)) (init_state u) in
  (forall seg, In seg segs -> ~ In (LForwardRef (alloc_name seg)) (l_errors st')) ->
  forall seg, In seg segs -> SegmentAligned sty st' seg.
Proof. exact partial_segments_aligned. Qed.

Theorem C09_partial_document_segments_layout : forall d rt p u ext0,
  gen_partial d rt = Ok p -> doc_link_wf_partial d rt = true ->
  Forall (fun x => 0 <= u_size x) u ->
  let sty := linker_symbols_style (doc_settings d) in
  let segs := included rt (doc_segments d) in
  let st' := layout (wo_script (po_main p)) u ext0 in
  (forall seg, In seg segs -> ~ In (LForwardRef (alloc_name seg)) (l_errors st')) ->
  forall seg, In seg segs -> SegmentAligned sty st' seg.
Proof. exact partial_segments_aligned_layout. Qed.

(* every section group of both halves: START / END relative to the start of the output section honour
   the sections_start_alignment / sections_end_alignment entries, and section_start_align /
   section_end_align when compatible with the entry *)
Theorem C09_partial_document_groups : forall env senv ext final d rt p u seg,
  gen_partial d rt = Ok p -> doc_link_wf_partial d rt = true ->
  Forall (fun x => 0 <= u_size x) u ->
  In seg (included rt (doc_segments d)) ->
  let sty := linker_symbols_style (doc_settings d) in
  let st' := exec_script env senv ext final (wo_script (po_main p)) (init_state u) in
  ~ In (LForwardRef (alloc_name seg)) (l_errors st') ->
  SegmentGroupsAligned sty st' seg.
Proof. exact partial_groups_aligned. Qed.

Theorem C09_partial_document_groups_layout : forall d rt p u ext0 seg,
  gen_partial d rt = Ok p -> doc_link_wf_partial d rt = true ->
  Forall (fun x => 0 <= u_size x) u ->
  In seg (included rt (doc_segments d)) ->
  let sty := linker_symbols_style (doc_settings d) in
  let st' := layout (wo_script (po_main p)) u ext0 in
  ~ In (LForwardRef (alloc_name seg)) (l_errors st') ->
  SegmentGroupsAligned sty st' seg.
Proof. exact partial_groups_aligned_layout. Qed.

(* with powers of two all four requests hold *)
Theorem C09_partial_document_groups_pow2 : forall env senv ext final d rt p u seg,
  gen_partial d rt = Ok p -> doc_link_wf_partial d rt = true ->
  Forall (fun x => 0 <= u_size x) u ->
  In seg (included rt (doc_segments d)) ->
  group_aligns_pow2 seg ->
  let sty := linker_symbols_style (doc_settings d) in
  let st' := exec_script env senv ext final (wo_script (po_main p)) (init_state u) in
  ~ In (LForwardRef (alloc_name seg)) (l_errors st') ->
  SegmentGroupsAlignedAll sty st' seg.
Proof. exact partial_groups_pow2. Qed.

Theorem C09_partial_document_groups_pow2_layout : forall d rt p u ext0 seg,
  gen_partial d rt = Ok p -> doc_link_wf_partial d rt = true ->
  Forall (fun x => 0 <= u_size x) u ->
  In seg (included rt (doc_segments d)) ->
  group_aligns_pow2 seg ->
  let sty := linker_symbols_style (doc_settings d) in
  let st' := layout (wo_script (po_main p)) u ext0 in
  ~ In (LForwardRef (alloc_name seg)) (l_errors st') ->
  SegmentGroupsAlignedAll sty st' seg.
Proof. exact partial_groups_pow2_layout. Qed.

(* ---------- examples ---------- *)

(* dl_doc in partial mode: segment_start_align 16, .data groups aligned to 8 *)
Example ex_c09_partial_hypotheses :
  doc_link_wf_partial dl_doc ex_rt = true /\
  (exists p, gen_partial dl_doc ex_rt = Ok p /\ wo_script (po_main p) = dl_main_script) /\
  Forall (fun x => 0 <= u_size x) dl_universe_partial /\
  l_errors (layout dl_main_script dl_universe_partial [("main", 5)]) = [] /\
  map (fun s => (sg_name s, segment_start_align s, segment_end_align s, lookup ".data" (sections_start_alignment s)))
      (included ex_rt (doc_segments dl_doc)) =
  [("boot", Some 16%N, None, Some 8%N); ("ovl_a", Some 16%N, None, Some 8%N); ("ovl_b", Some 16%N, None, Some 8%N)].
Proof.
  split; [vm_compute; reflexivity|]. split; [eexists; split; vm_compute; reflexivity|].
  split; [repeat constructor; vm_compute; discriminate|]. split; vm_compute; reflexivity.
Qed.

Example ex_c09_partial_link :
  let st := layout dl_main_script dl_universe_partial [("main", 5)] in
  val st "boot_ROM_START" = Some 0 /\ val st "ovl_a_ROM_START" = Some (16 * 5) /\
  val st "ovl_b_ROM_START" = Some (16 * 7) /\
  (exists o, find_sec ".boot" (l_secs st) = Some o /\ os_vma o = 0 /\ os_lma o = Some 0 /\
             val st "boot_DATA_START" = Some (os_vma o + 8 * 5)) /\
  (exists o, find_sec ".ovl_b" (l_secs st) = Some o /\ os_lma o = Some (16 * 7) /\
             val st "ovl_b_DATA_START" = Some (os_vma o + 8 * 6)).
Proof.
  vm_compute. split; [reflexivity|]. split; [reflexivity|]. split; [reflexivity|].
  split; eexists; repeat split; reflexivity.
Qed.

Print Assumptions C09_partial_document_segments.
Print Assumptions C09_partial_document_segments_layout.
Print Assumptions C09_partial_document_groups.
Print Assumptions C09_partial_document_groups_layout.
Print Assumptions C09_partial_document_groups_pow2.
Print Assumptions C09_partial_document_groups_pow2_layout.
