(* C03 / C05 / C09 over a whole generated script in SINGLE-SEGMENT mode (gen_normal with
   single_segment_mode = true and exactly one segment), and over the per-segment scripts of partial
   linking (gen_partial, po_subs), which the same add_single_segment produces.
   Only statements, each closed by [exact]; see Proofs/DocSingle.v.  Definitions: Spec/DocSingle.v.
   Conclusions are about [exec_script env senv ext final (wo_script w) (init_state u)] for EVERY
   previous-pass environment [env]/[senv], every set of object symbols [ext], both kinds of pass [final]
   and every object universe [u] without negative sizes - hence about every pass of [layout], stated as
   the [..._layout] corollaries.  No error hypothesis is needed: an output section without address
   expression cannot fail in LdSem.
   In this mode every entry of alloc_sections ++ noload_sections is an output section of its own and the
   section symbols / alignment statements are top-level statements, where "." is an absolute address. *)
From Slinky Require Import Model.Types Model.Runtime Model.Style Model.Script Model.Writer Model.LdSem.
From Slinky Require Import Spec.C18 Spec.C04 Spec.C09 Spec.C05 Spec.DocLevel Spec.C01Doc Spec.DocSingle.
From Slinky Require Import Proofs.C04 Proofs.DocLevel Proofs.DocSingle.
From Coq Require Import ZArith.
Local Open Scope string_scope.
Local Open Scope Z_scope.

(* ====================================================================== *)
(* 1. the script and what LdSem executes                                   *)
(* ====================================================================== *)

(* the script is "version comment; SECTIONS { hard-coded _gp (if any); . = fixed_vram (if any); the
   statements of the allocatable half; blank; those of the noload half; blank; end }; tail" - each half
   (single_part) being "kind symbols; one group per section: alignments, START, the output section named
   after the section, alignments, END, SIZE; kind symbols", the file statements of the groups produced
   by emit_section from the writer state the previous group left (emit_chain) - and executing it is
   executing the SECTIONS body and then the tail with exec_top_stmt *)
Theorem DocSingle_script_shape : forall d rt w,
  gen_normal d rt = Ok w -> single_segment_mode (doc_settings d) = true ->
  let stg := doc_settings d in
  let classes := doc_vram_classes d in
  exists seg s1 ws1 s2 ws',
    doc_segments d = [seg] /\
    write_single_segment rt stg cfg_normal seg (alloc_sections seg) false ws0 = Ok (s1, ws1) /\
    write_single_segment rt stg cfg_normal seg (noload_sections seg) true ws1 = Ok (s2, ws') /\
    single_part rt stg cfg_normal seg (alloc_sections seg) false ws0 s1 ws1 /\
    single_part rt stg cfg_normal seg (noload_sections seg) true ws1 s2 ws' /\
    add_single_segment rt stg cfg_normal classes seg ws0 =
      Ok ([SSections (single_sections_body stg cfg_normal classes seg s1 s2 ws')], ws') /\
    wo_script w = (version_stmts rt ++
                   [SSections (single_sections_body stg cfg_normal classes seg s1 s2 ws')] ++
                   tail_stmts rt d)%list /\
    wo_paths w = ws_paths ws' /\
    forall env senv ext final st,
      exec_script env senv ext final (wo_script w) st =
      run env senv ext final (tail_stmts rt d)
          (run env senv ext final (single_sections_body stg cfg_normal classes seg s1 s2 ws') st).
Proof. exact single_script_shape. Qed.

(* for any cfg (also the one of partial sub-scripts): the statements of one half *)
Theorem DocSingle_part_shape : forall rt stg cfg seg sections noload ws s ws',
  write_single_segment rt stg cfg seg sections noload ws = Ok (s, ws') ->
  single_part rt stg cfg seg sections noload ws s ws'.
Proof. exact single_part_of_write. Qed.

(* a well-formed document: the facts packed in doc_single_wf *)
Theorem DocSingle_wf_facts : forall d rt,
  doc_single_wf d rt = true ->
  let stg := doc_settings d in
  let sty := linker_symbols_style stg in
  exists seg s ws',
    doc_segments d = [seg] /\ single_segment_mode stg = true /\
    add_single_segment rt stg cfg_normal (doc_vram_classes d) seg ws0 = Ok (s, ws') /\
    NoDup (seg_sections seg) /\
    (forall sec, In sec (seg_sections seg) -> ~ In sec (aux_section_names stg)) /\
    (forall sec x, In sec (seg_sections seg) -> In x (sec_syms3 sty (sg_name seg) sec) ->
                   count_assigns x (s ++ tail_stmts rt d) = 1%nat).
Proof. exact single_wf_facts. Qed.

(* ====================================================================== *)
(* 2. C03: the output sections, in order (no well-formedness needed)       *)
(* ====================================================================== *)

(* the exact layout (SingleChain, Spec/DocSingle.v, started at "." = fixed_vram, 0 without): l_secs begins
   with one output section per entry of alloc_sections ++ noload_sections, in that order; for each one,
   "." being lo before its group: START position S = lo aligned by section_start_align then by the
   sections_start_alignment entry; the output section starts at S aligned up by the alignment A >= 1 ld
   gives it; END position E = its end aligned by section_end_align then by the sections_end_alignment
   entry; the next group starts from lo = E *)
Theorem C03_single_document_chain : forall env senv ext final d rt w u seg,
  gen_normal d rt = Ok w -> single_segment_mode (doc_settings d) = true -> doc_segments d = [seg] ->
  Forall (fun x => 0 <= u_size x) u ->
  let sty := linker_symbols_style (doc_settings d) in
  let st' := exec_script env senv ext final (wo_script w) (init_state u) in
  exists osecs rest hi,
    l_secs st' = (osecs ++ rest)%list /\
    SingleChain false sty cfg_normal seg (l_syms st') (single_dot0 seg) (single_secs seg) osecs hi.
Proof. exact single_document_chain. Qed.

Theorem C03_single_document_chain_layout : forall d rt w u ext0 seg,
  gen_normal d rt = Ok w -> single_segment_mode (doc_settings d) = true -> doc_segments d = [seg] ->
  Forall (fun x => 0 <= u_size x) u ->
  let sty := linker_symbols_style (doc_settings d) in
  let st' := layout (wo_script w) u ext0 in
  exists osecs rest hi,
    l_secs st' = (osecs ++ rest)%list /\
    SingleChain false sty cfg_normal seg (l_syms st') (single_dot0 seg) (single_secs seg) osecs hi.
Proof. exact single_document_chain_layout. Qed.

(* its readable projection (SingleSections): names = alloc_sections ++ noload_sections in order, NOLOAD
   as configured (then no file contents), no load address, sizes >= 0; the first section starts at or
   after fixed_vram - at fixed_vram aligned by the section's start alignments and by ld's alignment of
   the output section; os_vma o_{k+1} >= os_vma o_k + os_size o_k *)
Theorem C03_single_document_sections : forall env senv ext final d rt w u seg,
  gen_normal d rt = Ok w -> single_segment_mode (doc_settings d) = true -> doc_segments d = [seg] ->
  Forall (fun x => 0 <= u_size x) u ->
  let st' := exec_script env senv ext final (wo_script w) (init_state u) in
  exists osecs rest, l_secs st' = (osecs ++ rest)%list /\ SingleSections cfg_normal seg osecs.
Proof. exact single_document_sections. Qed.

Theorem C03_single_document_sections_layout : forall d rt w u ext0 seg,
  gen_normal d rt = Ok w -> single_segment_mode (doc_settings d) = true -> doc_segments d = [seg] ->
  Forall (fun x => 0 <= u_size x) u ->
  let st' := layout (wo_script w) u ext0 in
  exists osecs rest, l_secs st' = (osecs ++ rest)%list /\ SingleSections cfg_normal seg osecs.
Proof. exact single_document_sections_layout. Qed.

(* any chain has these projections *)
Theorem C03_single_chain_sections : forall b sty cfg seg syms osecs hi,
  SingleChain b sty cfg seg syms (single_dot0 seg) (single_secs seg) osecs hi -> SingleSections cfg seg osecs.
Proof. exact SingleChain_sections. Qed.

(* ====================================================================== *)
(* 3. C05: the section symbols (well-formed documents)                     *)
(* ====================================================================== *)

(* the chain with the symbols: in the state at the END of the pass, for every section,
   START = S, END = E, SIZE = E - S for the positions S and E of the chain *)
Theorem C05_single_document_chain : forall env senv ext final d rt w u seg,
  gen_normal d rt = Ok w -> doc_single_wf d rt = true -> doc_segments d = [seg] ->
  Forall (fun x => 0 <= u_size x) u ->
  let sty := linker_symbols_style (doc_settings d) in
  let st' := exec_script env senv ext final (wo_script w) (init_state u) in
  exists osecs rest hi,
    l_secs st' = (osecs ++ rest)%list /\
    SingleChain true sty cfg_normal seg (l_syms st') (single_dot0 seg) (single_secs seg) osecs hi.
Proof. exact single_document_chain_wf. Qed.

Theorem C05_single_document_chain_layout : forall d rt w u ext0 seg,
  gen_normal d rt = Ok w -> doc_single_wf d rt = true -> doc_segments d = [seg] ->
  Forall (fun x => 0 <= u_size x) u ->
  let sty := linker_symbols_style (doc_settings d) in
  let st' := layout (wo_script w) u ext0 in
  exists osecs rest hi,
    l_secs st' = (osecs ++ rest)%list /\
    SingleChain true sty cfg_normal seg (l_syms st') (single_dot0 seg) (single_secs seg) osecs hi.
Proof. exact single_document_chain_wf_layout. Qed.

(* one section (SectionSymbols, Spec/DocSingle.v): its output section is found under its name; START, END,
   SIZE are defined; SIZE = END - START; fixed_vram <= START <= start of o <= end of o <= END; the start
   of o is START aligned up (ld's alignment of the output section), END is the end of o aligned by the
   end alignments; START and END honour the configured alignments (C09); every placement labelled with
   this output section lies with its whole size inside o, hence inside [START, END], at non-decreasing
   addresses *)
Theorem C05_single_document_symbols : forall env senv ext final d rt w u seg sec,
  gen_normal d rt = Ok w -> doc_single_wf d rt = true -> doc_segments d = [seg] ->
  Forall (fun x => 0 <= u_size x) u -> In sec (seg_sections seg) ->
  let sty := linker_symbols_style (doc_settings d) in
  let st' := exec_script env senv ext final (wo_script w) (init_state u) in
  SectionSymbols sty seg u st' sec.
Proof. exact single_document_symbols. Qed.

Theorem C05_single_document_symbols_layout : forall d rt w u ext0 seg sec,
  gen_normal d rt = Ok w -> doc_single_wf d rt = true -> doc_segments d = [seg] ->
  Forall (fun x => 0 <= u_size x) u -> In sec (seg_sections seg) ->
  let sty := linker_symbols_style (doc_settings d) in
  SectionSymbols sty seg u (layout (wo_script w) u ext0) sec.
Proof. exact single_document_symbols_layout. Qed.

(* ====================================================================== *)
(* 4. C09: alignments, measured absolutely                                 *)
(* ====================================================================== *)

(* START(sec) is a multiple of the sections_start_alignment entry, and of section_start_align when the
   two are compatible (one divides the other; always so for powers of two, C09_pow2_compatible); END(sec)
   likewise of the sections_end_alignment entry and section_end_align.  These are absolute addresses:
   the statements are executed at the top level *)
Theorem C09_single_document_alignment : forall env senv ext final d rt w u seg sec,
  gen_normal d rt = Ok w -> doc_single_wf d rt = true -> doc_segments d = [seg] ->
  Forall (fun x => 0 <= u_size x) u -> In sec (seg_sections seg) ->
  let sty := linker_symbols_style (doc_settings d) in
  let st' := exec_script env senv ext final (wo_script w) (init_state u) in
  exists S E,
    val st' (segment_section_start sty (sg_name seg) sec) = Some S /\
    val st' (segment_section_end sty (sg_name seg) sec) = Some E /\
    aligned_to (section_start_align seg) (lookup sec (sections_start_alignment seg)) S /\
    aligned_to (section_end_align seg) (lookup sec (sections_end_alignment seg)) E.
Proof. exact single_document_alignment. Qed.

Theorem C09_single_document_alignment_layout : forall d rt w u ext0 seg sec,
  gen_normal d rt = Ok w -> doc_single_wf d rt = true -> doc_segments d = [seg] ->
  Forall (fun x => 0 <= u_size x) u -> In sec (seg_sections seg) ->
  let sty := linker_symbols_style (doc_settings d) in
  let st' := layout (wo_script w) u ext0 in
  exists S E,
    val st' (segment_section_start sty (sg_name seg) sec) = Some S /\
    val st' (segment_section_end sty (sg_name seg) sec) = Some E /\
    aligned_to (section_start_align seg) (lookup sec (sections_start_alignment seg)) S /\
    aligned_to (section_end_align seg) (lookup sec (sections_end_alignment seg)) E.
Proof. exact single_document_alignment_layout. Qed.

(* the positions of the chain honour the alignments whenever section symbols are emitted *)
Theorem C09_single_start_pos_aligned : forall cfg seg sec lo,
  section_syms cfg = true ->
  aligned_to (section_start_align seg) (lookup sec (sections_start_alignment seg)) (sec_start_pos cfg seg sec lo).
Proof. exact sec_start_aligned. Qed.

Theorem C09_single_end_pos_aligned : forall cfg seg sec e,
  section_syms cfg = true ->
  aligned_to (section_end_align seg) (lookup sec (sections_end_alignment seg)) (sec_end_pos cfg seg sec e).
Proof. exact sec_end_aligned. Qed.

(* ====================================================================== *)
(* 5. the per-segment scripts of partial linking                           *)
(* ====================================================================== *)

(* every (name, w) of po_subs is the script of an included segment called name, and (SubScriptLayout):
   the same chain holds for it with the configuration of sub-scripts - no section symbol and no
   alignment statement is emitted there, so C05 and C09 have no content and each output section starts
   at the end of the previous one aligned up by ld's alignment (contiguous_from); when the section names
   of the segment are distinct and none is an allow-list name, every placement labelled with an output
   section lies inside it *)
Theorem C03_single_partial_sections : forall env senv ext final d rt p name w u,
  gen_partial d rt = Ok p -> In (name, w) (po_subs p) ->
  Forall (fun x => 0 <= u_size x) u ->
  exists seg, In seg (doc_segments d) /\ should_emit rt (sg_conds seg) = true /\ name = sg_name seg /\
              SubScriptLayout env senv ext final d u seg w.
Proof. exact single_partial_layout. Qed.

Theorem C03_single_partial_sections_layout : forall d rt p name w u ext0,
  gen_partial d rt = Ok p -> In (name, w) (po_subs p) ->
  Forall (fun x => 0 <= u_size x) u ->
  let p1 := exec_script [] [] ext0 false (wo_script w) (init_state u) in
  let p2 := exec_script (l_syms p1) (l_secs p1) (ext0 ++ markers_of p1)%list false (wo_script w) (init_state u) in
  exists seg, In seg (doc_segments d) /\ should_emit rt (sg_conds seg) = true /\ name = sg_name seg /\
              SubScriptLayout (l_syms p2) (l_secs p2) (ext0 ++ markers_of p2)%list true d u seg w.
Proof. exact single_partial_layout_layout. Qed.

(* the generic statements behind all of the above: any cfg, any statements [tl] after SECTIONS *)
Theorem DocSingle_body_chain : forall env senv ext final b rt stg cfg classes seg ws s1 ws1 s2 ws' tl st0,
  write_single_segment rt stg cfg seg (alloc_sections seg) false ws = Ok (s1, ws1) ->
  write_single_segment rt stg cfg seg (noload_sections seg) true ws1 = Ok (s2, ws') ->
  sizes_ok st0 ->
  let sty := linker_symbols_style stg in
  let body := single_sections_body stg cfg classes seg s1 s2 ws' in
  (b = true -> section_syms cfg = true /\
     forall sec x, In sec (seg_sections seg) -> In x (sec_syms3 sty (sg_name seg) sec) ->
                   count_assigns x (body ++ tl) = 1%nat) ->
  let st' := run env senv ext final (body ++ tl) st0 in
  exists osecs rest hi,
    l_secs st' = (l_secs st0 ++ osecs ++ rest)%list /\
    SingleChain b sty cfg seg (l_syms st')
                (match sg_fixed_vram seg with Some v => Z.of_N v | None => l_dot st0 end)
                (single_secs seg) osecs hi.
Proof. exact single_body_chain. Qed.

(* ====================================================================== *)
(* examples                                                                *)
(* ====================================================================== *)

(* a single-segment document (fixed_vram 0x80000400, section_start_align 16, section_end_align 4,
   .data start-aligned 8, .bss end-aligned 32, a _gp, user statements) meets the hypotheses *)
Example ex_doc_single_wf :
  doc_single_wf ds_doc ex_rt = true /\
  (exists w, gen_normal ds_doc ex_rt = Ok w) /\
  single_segment_mode (doc_settings ds_doc) = true /\
  doc_segments ds_doc = [ds_segment] /\
  seg_sections ds_segment = [".text"; ".data"; ".sdata"; ".bss"] /\
  Forall (fun x => 0 <= u_size x) ds_universe.
Proof.
  split; [vm_compute; reflexivity|]. split; [eexists; vm_compute; reflexivity|].
  split; [reflexivity|]. split; [reflexivity|]. split; [reflexivity|].
  repeat constructor; vm_compute; discriminate.
Qed.

(* a full link of it ends without error; the values are the chained ones: .text at 0x80000400
   (= 2147484672) of size 64; "." aligned to 4 -> END(.text) = 2147484736; .data START = that aligned to
   16 then 8; .sdata is empty; .bss (NOLOAD) follows, its END aligned to 4 then 32 *)
Example ex_doc_single_link :
  let st := layout ds_script ds_universe [("main", 5)] in
  l_errors st = [] /\
  map (fun o => (os_name o, os_vma o, os_size o, os_lma o, os_noload o)) (firstn 4 (l_secs st)) =
  [(".text", 2147484672, 64, None, false); (".data", 2147484736, 28, None, false);
   (".sdata", 2147484768, 0, None, false); (".bss", 2147484768, 108, None, true)] /\
  val st "main_TEXT_START" = Some 2147484672 /\ val st "main_TEXT_END" = Some 2147484736 /\
  val st "main_TEXT_SIZE" = Some 64 /\
  val st "main_DATA_START" = Some 2147484736 /\ val st "main_DATA_END" = Some 2147484764 /\
  val st "main_DATA_SIZE" = Some 28 /\
  val st "main_SDATA_START" = Some 2147484768 /\ val st "main_SDATA_END" = Some 2147484768 /\
  val st "main_BSS_START" = Some 2147484768 /\ val st "main_BSS_END" = Some 2147484896 /\
  val st "main_BSS_SIZE" = Some 128 /\
  map (fun p => (pl_marker p, pl_addr p, pl_outsec p)) (l_placed st) =
  [("boot_text", 2147484672, ".text"); ("util_text", 2147484712, ".text"); ("boot_data", 2147484736, ".data");
   ("boot_bss", 2147484768, ".bss"); ("util_bss", 2147484868, ".bss")].
Proof. vm_compute. repeat split; reflexivity. Qed.

(* the literal reading "the first section starts AT fixed_vram" is false of LdSem (as of ld): with
   fixed_vram = 0x80000404 and no alignment configured, START(.text) = fixed_vram but the output section
   .text - which receives an input section aligned to 16 - starts at 0x80000410; the theorems say
   "at fixed_vram aligned up" *)
Example C03_single_first_not_at_fixed_vram :
  doc_single_wf ds_off_doc ex_rt = true /\ sg_fixed_vram ds_off_segment = Some 2147484676%N /\
  let st := layout ds_off_script ds_universe [] in
  l_errors st = [] /\
  map (fun o => (os_name o, os_vma o, os_size o)) (firstn 2 (l_secs st)) =
  [(".text", 2147484688, 40); (".bss", 2147484728, 100)] /\
  val st "main_TEXT_START" = Some 2147484676.
Proof. vm_compute. repeat split; reflexivity. Qed.

(* doc_single_wf is needed for the symbols: a user statement that reassigns main_TEXT_END is rejected by
   it, and the link then ends with SIZE <> END - START *)
Example C05_single_wf_needed :
  doc_single_wf ds_bad_doc ex_rt = false /\
  let st := layout ds_bad_script ds_universe [] in
  l_errors st = [] /\ val st "main_TEXT_START" = Some 2147484672 /\ val st "main_TEXT_END" = Some 1 /\
  val st "main_TEXT_SIZE" = Some 64.
Proof. vm_compute. repeat split; reflexivity. Qed.

(* partial linking: the two per-segment scripts of ex_doc; the one of "boot" places its sections
   contiguously from 0 (no fixed_vram, no alignment statements) *)
Example ex_partial_subs :
  (exists p, gen_partial ex_doc ex_rt = Ok p /\
             map (fun nw => (fst nw, wo_script (snd nw))) (po_subs p) = ds_subs) /\
  map fst ds_subs = ["boot"; "ovl_a"] /\
  match ds_subs with
  | (_, s) :: _ =>
      let st := layout s ds_universe [] in
      l_errors st = [] /\
      map (fun o => (os_name o, os_vma o, os_size o, os_noload o)) (firstn 4 (l_secs st)) =
      [(".text", 0, 64, false); (".data", 64, 28, false); (".sdata", 92, 0, false); (".bss", 96, 108, true)]
  | [] => False
  end.
Proof.
  split; [eexists; split; [vm_compute; reflexivity | vm_compute; reflexivity]|].
  split; [vm_compute; reflexivity|]. vm_compute. repeat split; reflexivity.
Qed.

Print Assumptions DocSingle_script_shape.
Print Assumptions DocSingle_part_shape.
Print Assumptions DocSingle_wf_facts.
Print Assumptions C03_single_document_chain.
Print Assumptions C03_single_document_chain_layout.
Print Assumptions C03_single_document_sections.
Print Assumptions C03_single_document_sections_layout.
Print Assumptions C03_single_chain_sections.
Print Assumptions C05_single_document_chain.
Print Assumptions C05_single_document_chain_layout.
Print Assumptions C05_single_document_symbols.
Print Assumptions C05_single_document_symbols_layout.
Print Assumptions C09_single_document_alignment.
Print Assumptions C09_single_document_alignment_layout.
Print Assumptions C09_single_start_pos_aligned.
Print Assumptions C09_single_end_pos_aligned.
Print Assumptions C03_single_partial_sections.
Print Assumptions C03_single_partial_sections_layout.
Print Assumptions DocSingle_body_chain.
