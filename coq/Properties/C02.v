(* C02 - Script order mirrors document order.
   Only statements, each closed by [exact]; see Proofs/C02.v.  The declarative description of what an
   entry contributes ([EntryStmts], [Expands], [own_stmts]) is in Spec/C01.v. *)
From Slinky Require Import Model.Types Model.Runtime Model.Style Model.Script Model.Writer Model.LdSem.
From Slinky Require Import Spec.C18 Spec.C09 Spec.C02 Proofs.C18 Proofs.C02.
From Coq Require Import ZArith.

(* ---------- inside a group: the statements of one entry ---------- *)

(* whatever emit_section_for_file writes for an entry is what the description says: for every section
   of the entry's expansion, in order, the entry's own statement (or, for a group, its children
   depth-first in list order).  Holds for every fuel, stack of sections being expanded, and state. *)
Theorem C02_order : forall rt sty cfg seg sections f n stack section base ws s ws',
  emit_sff rt sty cfg seg sections f n stack section base ws = Ok (s, ws') ->
  EntryStmts rt sty cfg seg sections f section base s.
Proof. exact emit_sff_sound. Qed.

(* the files of a segment for one section: the entries of the segment in list order *)
Theorem C02_order_files : forall rt sty cfg seg sections base_path section ws s ws',
  emit_section rt sty cfg seg sections base_path section ws = Ok (s, ws') ->
  exists b, (exists b0, escape_path rt base_path = Ok b0 /\
                        (if reference_partial cfg then b = b0
                         else exists d, escape_path rt (sg_dir seg) = Ok d /\ b = push b0 d)) /\
            KidsStmts rt sty cfg seg sections (sg_files seg) section b s.
Proof. exact emit_section_sound. Qed.

(* the files of a segment / the children of a group: one contribution per entry, in list order *)
Theorem C02_files_in_order : forall rt sty cfg seg sections files k base l,
  KidsStmts rt sty cfg seg sections files k base l ->
  exists ls, Forall2 (fun c lc => EntryStmts rt sty cfg seg sections c k base lc) files ls /\ l = List.concat ls.
Proof. exact kids_entries. Qed.

(* an entry that is not a group: the concatenation, over the sections k of its expansion in order, of
   its own statement for k *)
Theorem C02_order_leaf : forall rt sty cfg seg sections f section base l,
  EntryStmts rt sty cfg seg sections f section base l -> fi_kind f <> KGroup ->
  exists keys, Expands cfg seg sections f section keys /\
    l = flat_map (fun k => if should_emit rt (fi_conds f) then own_stmts rt sty seg f k base else []) keys.
Proof. exact entry_leaf. Qed.

(* an included group: for every section of its own expansion in order, its children in list order *)
Theorem C02_order_group : forall rt sty cfg seg sections f keys base l d,
  KeysStmts rt sty cfg seg sections f keys base l ->
  should_emit rt (fi_conds f) = true -> fi_kind f = KGroup -> escape_path rt (fi_dir f) = Ok d ->
  exists ls, Forall2 (fun k lk => KidsStmts rt sty cfg seg sections (fi_files f) k (push base d) lk) keys ls /\
             l = List.concat ls.
Proof. exact keys_group. Qed.

(* sub-group sections directly follow their lead section for the same file: the expansion is, for
   every k of [here f section] in order, k followed by the expansions of the members of its sub-group *)
Theorem C02_subgroups_follow_lead : forall cfg seg sections f section l,
  Expands cfg seg sections f section l ->
  exists ls, Forall2 (fun k lk => exists lm, ExpandsMembers cfg seg sections f (entry_members cfg seg f k) lm /\ lk = k :: lm)
                     (here sections f section) ls /\ l = List.concat ls.
Proof. exact expands_shape. Qed.

Theorem C02_subgroup_members_in_order : forall cfg seg sections f ms l,
  ExpandsMembers cfg seg sections f ms l ->
  exists ls, Forall2 (Expands cfg seg sections f) ms ls /\ l = List.concat ls.
Proof. exact members_shape. Qed.

(* pads and linker offsets sit at their list position (C02_order) and only in their own section *)
Theorem C02_pad_own_section : forall rt sty seg f k base s,
  fi_kind f = KPad ->
  (In s (own_stmts rt sty seg f k base) <-> fi_section f = k /\ s = SDotAdd (fi_pad_amount f)).
Proof. exact own_pad_iff. Qed.

Theorem C02_offset_own_section : forall rt sty seg f k base s,
  fi_kind f = KLinkerOffset ->
  (In s (own_stmts rt sty seg f k base) <->
   fi_section f = k /\ s = SAssign false false true (linker_offset sty (fi_linker_offset_name f)) EDot).
Proof. exact own_offset_iff. Qed.

Example C02_order_example :
  exists s ws',
    emit_section ex_rt Splat cfg_normal
                 (Segment "boot" ex_files_boot None None None None "src" None no_conds [".text"; ".data"] [".bss"]
                          None None None None None [] [] true None [(".text", [".text.hot"])] KAbsent)
                 [".text"; ".data"] "build" ".text" ws0 = Ok (s, ws') /\
    render s = ["build/src/boot.o(.text*);"; "build/src/boot.o(.text.hot*);";
                "build/src/lib/libc.a:mem.o(.text*);"; "build/src/lib/libc.a:mem.o(.text.hot*);";
                "build/src/lib/util.o(.text*);"; "build/src/lib/util.o(.text.hot*);";
                "boot_mid_OFFSET = .;";
                "build/src/boot.o(.text*);"; "build/src/boot.o(.text.hot*);"].
Proof. eexists. eexists. split; [vm_compute; reflexivity|]. vm_compute. reflexivity. Qed.

(* ---------- segments and groups ---------- *)

(* the output sections of the SECTIONS block: for each emitted segment in document order `.name` then
   `.name.noload`; in single-segment mode the allocatable sections then the noload sections *)
Theorem C02_segments_in_order : forall rt st cfg classes segs ws s ws',
  add_all_segments rt st cfg classes segs ws = Ok (s, ws') ->
  exists body, s = [SSections body] /\
    if single_segment_mode st
    then exists seg, segs = [seg] /\ outsec_names body = (alloc_sections seg ++ noload_sections seg)%list
    else outsec_names body = flat_map segment_outsecs (emitted_segments rt segs).
Proof. exact segments_in_order. Qed.

(* inside an output section: one group per configured section, in the order of the section list *)
Theorem C02_groups_in_order : forall rt st cfg seg sections rest ws body ws',
  part_groups rt st cfg seg sections rest ws = Ok (body, ws') ->
  exists chunks, body = List.concat chunks /\
                 Forall2 (is_group_of rt st cfg seg sections) rest chunks.
Proof. exact groups_in_order. Qed.

Example C02_segments_example :
  exists w, gen_normal ex_doc ex_rt = Ok w /\
    flat_map (fun s => match s with SSections body => outsec_names body | _ => [] end) (wo_script w) =
    [".boot"; ".boot.noload"; ".ovl_a"; ".ovl_a.noload"].
Proof. eexists. split; [vm_compute; reflexivity|]. vm_compute. reflexivity. Qed.

Local Open Scope Z_scope.

(* ---------- after linking ---------- *)

(* the addresses of the input sections placed while executing any statement list inside one output
   section never decrease along the list *)
Theorem C02_addresses_monotone : forall env senv ext final vma sub outsec body ss,
  nonneg_sizes (l_remaining (s_st ss)) ->
  exists new,
    l_placed (s_st (fold_left (exec_sec_stmt env senv ext final vma sub outsec) body ss)) =
    (l_placed (s_st ss) ++ new)%list /\
    nondecreasing (map pl_addr new) /\
    s_off ss <= s_off (fold_left (exec_sec_stmt env senv ext final vma sub outsec) body ss).
Proof. exact addresses_monotone. Qed.

(* in particular across groups: what a later part of the body places lies above what came before *)
Theorem C02_addresses_monotone_split : forall env senv ext final vma sub outsec pre post ss,
  nonneg_sizes (l_remaining (s_st ss)) ->
  exists new1 new2,
    l_placed (s_st (fold_left (exec_sec_stmt env senv ext final vma sub outsec) (pre ++ post)%list ss)) =
    (l_placed (s_st ss) ++ new1 ++ new2)%list /\
    l_placed (s_st (fold_left (exec_sec_stmt env senv ext final vma sub outsec) pre ss)) =
    (l_placed (s_st ss) ++ new1)%list /\
    forall p q, In p new1 -> In q new2 -> pl_addr p <= pl_addr q.
Proof. exact addresses_monotone_split. Qed.

(* ROM positions never decrease: the two statements that move __romPos *)
Theorem C02_rom_add_monotone : forall env senv ext final st sec o v,
  sym_lookup "__romPos" st env ext = Some v ->
  find_sec sec (l_secs st) = Some o -> 0 <= os_size o ->
  lookup "__romPos" (l_syms (exec_top_stmt env senv ext final st (SRomAdd sec))) = Some (v + os_size o) /\
  v <= v + os_size o.
Proof. exact rom_add_monotone. Qed.

Theorem C02_rom_align_monotone : forall env senv ext final st a v,
  sym_lookup "__romPos" st env ext = Some v ->
  lookup "__romPos" (l_syms (exec_top_stmt env senv ext final st (SAlign "__romPos" a))) =
  Some (align_up v (Z.of_N a)) /\ v <= align_up v (Z.of_N a).
Proof. exact rom_align_monotone. Qed.

Example C02_addresses_example :
  map pl_addr (l_placed (s_st (fold_left (exec_sec_stmt [] [] [] true 1000 None ".boot")
                                         [SInput false "a.o" None ".text" true; SDotAdd 16;
                                          SInput false "b.o" None ".text" true; SInput false "a.o" None ".data" true]
                                         (SState 0 false c09_state)))) = [1000; 1026; 1032].
Proof. vm_compute. reflexivity. Qed.

Print Assumptions C02_order.
Print Assumptions C02_order_files.
Print Assumptions C02_files_in_order.
Print Assumptions C02_order_leaf.
Print Assumptions C02_order_group.
Print Assumptions C02_subgroups_follow_lead.
Print Assumptions C02_subgroup_members_in_order.
Print Assumptions C02_pad_own_section.
Print Assumptions C02_offset_own_section.
Print Assumptions C02_segments_in_order.
Print Assumptions C02_groups_in_order.
Print Assumptions C02_addresses_monotone.
Print Assumptions C02_addresses_monotone_split.
Print Assumptions C02_rom_add_monotone.
Print Assumptions C02_rom_align_monotone.
