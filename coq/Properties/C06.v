(* C06 - Conditional inclusion follows the documented predicate for every entry kind.
   Only statements, each closed by [exact]; see Proofs/C06.v. *)
From Slinky Require Import Model.Types Model.Runtime Model.Script Model.Writer Model.Exports Spec.C06 Proofs.C06.

(* the predicate: for all four lists (any length, repeated keys) and every option sequence *)
Theorem C06_predicate : forall rt c, should_emit rt c = true <-> Included rt c.
Proof. exact should_emit_iff. Qed.

(* no trace, top-level entries: deleting an excluded entry changes nothing but blank lines *)
Theorem C06_no_trace_assignment : forall rt l1 a l2,
  should_emit rt (sa_conds a) = false ->
  strip_blank_lines (render (assignment_stmts rt (l1 ++ a :: l2))) =
  strip_blank_lines (render (assignment_stmts rt (l1 ++ l2))).
Proof. exact assignment_no_trace. Qed.

Theorem C06_no_trace_required : forall rt l1 a l2,
  should_emit rt (rq_conds a) = false ->
  strip_blank_lines (render (required_stmts rt (l1 ++ a :: l2))) =
  strip_blank_lines (render (required_stmts rt (l1 ++ l2))).
Proof. exact required_no_trace. Qed.

Theorem C06_no_trace_assert : forall rt l1 a l2,
  should_emit rt (ae_conds a) = false ->
  strip_blank_lines (render (assert_stmts rt (l1 ++ a :: l2))) =
  strip_blank_lines (render (assert_stmts rt (l1 ++ l2))).
Proof. exact assert_no_trace. Qed.

(* no trace, segments: statements, recorded paths and class state are those of the list without it *)
Theorem C06_no_trace_segment : forall rt st cfg classes l1 seg l2 ws,
  should_emit rt (sg_conds seg) = false ->
  fold_out (add_segment rt st cfg classes) (l1 ++ seg :: l2) ws =
  fold_out (add_segment rt st cfg classes) (l1 ++ l2) ws.
Proof. exact segments_no_trace. Qed.

Theorem C06_no_trace_segment_partial : forall d rt folder l1 seg l2 acc,
  should_emit rt (sg_conds seg) = false ->
  partial_segments d rt folder (l1 ++ seg :: l2) acc = partial_segments d rt folder (l1 ++ l2) acc.
Proof. exact partial_segments_no_trace. Qed.

Theorem C06_no_trace_gp : forall rt seg g section,
  sg_gp_info seg = Some g -> should_emit rt (gp_conds g) = false -> gp_stmt rt seg section = [].
Proof. exact gp_excluded. Qed.

Print Assumptions C06_predicate.
Print Assumptions C06_no_trace_assignment.
Print Assumptions C06_no_trace_required.
Print Assumptions C06_no_trace_assert.
Print Assumptions C06_no_trace_segment.
Print Assumptions C06_no_trace_segment_partial.
Print Assumptions C06_no_trace_gp.
