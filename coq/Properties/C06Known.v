(* C06, known finding KF-C06-single-segment as a refutation lemma: in single-segment mode the include/exclude
   conditions of the segment are never consulted.  The witness is replayed on the real code by the check
   (findings/KF-C06-single-segment.json). *)
From Slinky Require Import Model.Types Model.Runtime Model.Style Model.Script Model.Writer.
From Slinky Require Import Spec.C18 Spec.C06 Spec.C01.
Local Open Scope string_scope.

(* one segment, excluded under the options of ex_rt (exclude_if_any: [[version, us]]) *)
Definition kf6_doc : document :=
  Document ex_settings_single [] [ex_segment "boot" [ex_obj "boot.o"] None None ex_excluded] None [] [] [].

(* "an entry is emitted iff [should_emit]" fails for the segment of a single-segment document: the predicate
   says no, and the script still carries its four input statements *)
Theorem C06_refuted_single_segment :
  exists d rt w seg,
    single_segment_mode (doc_settings d) = true /\ doc_segments d = [seg] /\
    should_emit rt (sg_conds seg) = false /\
    gen_normal d rt = Ok w /\
    flat_map deep_inputs (wo_script w) <> [].
Proof.
  exists kf6_doc, ex_rt.
  destruct (gen_normal kf6_doc ex_rt) as [w|e] eqn:G; [|vm_compute in G; discriminate].
  exists w, (ex_segment "boot" [ex_obj "boot.o"] None None ex_excluded).
  repeat split; try reflexivity.
  vm_compute in G. injection G as <-. vm_compute. discriminate.
Qed.

(* the multi-segment writer does consult them: the same segment in a multi-segment document leaves nothing *)
Example C06_known_multi_is_fine :
  match gen_normal (Document ex_settings [] [ex_segment "boot" [ex_obj "boot.o"] None None ex_excluded] None [] [] []) ex_rt with
  | Ok w => flat_map deep_inputs (wo_script w) = []
  | Err _ => False
  end.
Proof. vm_compute. reflexivity. Qed.

Print Assumptions C06_refuted_single_segment.
