(* DocWitness - the hypotheses of the document-level theorems are met by a document that the PARSER
   produces.

   The Examples next to the document-level theorems (Properties/DocLevel.v, C04DocWf.v, C03Fixpoint.v,
   C09Doc.v, C01Doc.v, C02Doc.v, C11DocPartial.v, C03DocSingle.v, C03DocSingleWf.v, C17Doc.v, C18Doc.v,
   C01Listed.v, C13Doc.v) use the hand-written documents ex_doc (Spec/C18.v) and dl_doc (Spec/DocLevel.v),
   which set both settings.hardcoded_gp_value and a segment's gp_info.  No input of [parse] yields such a
   document (section 0 below: DocWitness_parse_gp_exclusive, DocWitness_samples_unreachable).

   Here everything starts from a SERIAL document, [wit_sd] (Spec/DocWitness.v: what serde hands to
   Model/Parse.v), and every statement is about [wit_doc], the document [parse wit_sd] returns:
     1. it parses (and so does the single-segment variant wit_sd_single);
     2. with the run-time settings wit_rt (which exclude one segment, one file entry and one symbol
        assignment) and the object universe wit_u, each hypothesis family of the document-level theorems
        holds of wit_doc - one Example per family, closed by computation;
     3. some of the main theorems applied to it: the Example states the theorem's conclusion for wit_doc
        and is proved by applying the theorem to the Examples of part 2 (not by computing the conclusion). *)
From Slinky Require Import Model.Types Model.Parse Model.Runtime Model.Style Model.Script Model.Writer Model.LdSem
                           Model.Exports.
From Slinky Require Import Spec.C18 Spec.C17 Spec.C04 Spec.C03 Spec.C05 Spec.C09 Spec.C10 Spec.C01 Spec.C12
                           Spec.DocLevel Spec.DocWf Spec.Fixpoint Spec.C09Doc Spec.C01Doc Spec.DocPartial
                           Spec.DocSingle Spec.C17Doc Spec.C01Listed Spec.C13Doc Spec.DocSingleWf
                           Spec.DocWitness.
From Slinky Require Proofs.DocLevel Proofs.C06More.
From Slinky Require Properties.DocLevel Properties.C04DocWf Properties.C03Fixpoint Properties.C09Doc
                    Properties.C01Doc Properties.C02Doc Properties.C11DocPartial Properties.C03DocSingle
                    Properties.C03DocSingleWf Properties.C17Doc Properties.C18Doc Properties.C01Listed
                    Properties.C13Doc.
From Coq Require Import ZArith Lia.
Local Open Scope string_scope.
Local Open Scope Z_scope.

(* ====================================================================== *)
(* 0. why the older sample documents are unreachable                       *)
(* ====================================================================== *)

Lemma bind_ok {A B} (r : res A) (f : A -> res B) b :
  bind r f = Ok b -> exists a, r = Ok a /\ f a = Ok b.
Proof. destruct r as [a|e]; cbn [bind]; [eauto | discriminate]. Qed.

Lemma map_res_in {A B} (f : A -> res B) : forall l l' y,
  map_res f l = Ok l' -> In y l' -> exists x, In x l /\ f x = Ok y.
Proof.
  induction l as [|x r IH]; intros l' y H Hy; cbn [map_res] in H.
  - inversion H; subst. destruct Hy.
  - apply bind_ok in H. destruct H as [y0 [Hx H]]. apply bind_ok in H. destruct H as [ys [Hr H]].
    inversion H; subst. destruct Hy as [Hy|Hy].
    + subst y0. exists x. split; [left; reflexivity | exact Hx].
    + destruct (IH ys y Hr Hy) as [x' [Hin Hx']]. exists x'. split; [right; exact Hin | exact Hx'].
Qed.

(* parse_segment: a segment that comes out with a gp_info was parsed under settings without
   hardcoded_gp_value *)
Lemma parse_segment_gp st s seg :
  parse_segment st s = Ok seg -> sg_gp_info seg <> None -> hardcoded_gp_value st = None.
Proof.
  unfold parse_segment. intro H.
  repeat (apply bind_ok in H; destruct H as [? [? H]]).
  inversion H; subst seg; clear H. cbn [sg_gp_info]. intro Hgp.
  match goal with Hc : combo (is_some ?g) (is_some (hardcoded_gp_value st)) _ _ = Ok _ |- _ =>
    unfold combo in Hc; destruct g as [g0|]; [|contradiction Hgp; reflexivity];
    destruct (hardcoded_gp_value st); [discriminate Hc | reflexivity]
  end.
Qed.

Lemma pass_down_segment_gp k s : sg_gp_info (pass_down_segment k s) = sg_gp_info s.
Proof. unfold pass_down_segment. destruct k; [reflexivity| |]; destruct (sg_keep s); reflexivity. Qed.

Lemma class_pass_down_gp classes s : sg_gp_info (class_pass_down classes s) = sg_gp_info s.
Proof.
  unfold class_pass_down. destruct (sg_vram_class s) as [cn|]; [|reflexivity].
  destruct (find_class cn classes); [apply pass_down_segment_gp | reflexivity].
Qed.

(* In every document that [parse] returns, a segment with a gp_info excludes a hard-coded _gp
   (segment.rs: InvalidFieldCombo "segment.gp_info" / "settings.hardcoded_gp_value") *)
Theorem DocWitness_parse_gp_exclusive : forall sd d seg,
  parse sd = Ok d -> In seg (doc_segments d) -> sg_gp_info seg <> None ->
  hardcoded_gp_value (doc_settings d) = None.
Proof.
  intros sd d seg H Hin Hgp. unfold parse in H. destruct (serde_ok sd); [|discriminate H].
  unfold unserialize_document in H.
  repeat (apply bind_ok in H; destruct H as [? [? H]]).
  inversion H; subst d; clear H. cbn [doc_segments doc_settings] in *.
  apply in_map_iff in Hin. destruct Hin as [seg0 [E Hin0]]. subst seg. rewrite class_pass_down_gp in Hgp.
  match goal with Hm : map_res (parse_segment ?st) _ = Ok _ |- hardcoded_gp_value ?st = None =>
    destruct (map_res_in _ _ _ _ Hm Hin0) as [s [_ Hs]]; exact (parse_segment_gp _ _ _ Hs Hgp)
  end.
Qed.

(* hence the sample documents used so far are not values of the parser *)
Theorem DocWitness_samples_unreachable : forall sd,
  parse sd <> Ok ex_doc /\ parse sd <> Ok dl_doc /\ parse sd <> Ok ex_doc_single /\ parse sd <> Ok ds_doc.
Proof.
  intro sd. repeat split; intro H;
    (assert (E : Some 2147516416%N = None);
     [ refine (DocWitness_parse_gp_exclusive sd _ _ H _ _); [left; reflexivity | cbn; discriminate]
     | discriminate E ]).
Qed.

(* ====================================================================== *)
(* 1. the serial documents parse                                           *)
(* ====================================================================== *)

Example wit_parses : parse wit_sd = Ok wit_doc.
Proof. vm_compute. reflexivity. Qed.

Example wit_single_parses : parse wit_sd_single = Ok wit_doc_single.
Proof. vm_compute. reflexivity. Qed.

(* what came out: six segments, two classes; no hard-coded _gp, and boot carries the gp_info; the named
   parts of Spec/DocWitness.v are parts of wit_doc; the single variant holds that same segment *)
Example wit_shape :
  map sg_name (doc_segments wit_doc) = ["boot"; "main"; "ovl_a"; "ovl_b"; "buffers"; "debug"] /\
  map vc_name (doc_vram_classes wit_doc) = ["overlay"; "overlay2"] /\
  hardcoded_gp_value (doc_settings wit_doc) = None /\
  sg_gp_info wit_seg_boot = Some wit_gp /\
  In wit_seg_boot (doc_segments wit_doc) /\ In wit_seg_main (doc_segments wit_doc) /\
  In wit_group_lib (sg_files wit_seg_boot) /\
  map (fun s => (sg_name s, sg_fixed_vram s, sg_follows_segment s, sg_vram_class s)) (doc_segments wit_doc) =
  [("boot", Some 2147484672%N, None, None); ("main", None, None, None);
   ("ovl_a", None, None, Some "overlay"); ("ovl_b", None, None, Some "overlay2");
   ("buffers", None, Some "main", None); ("debug", None, None, None)] /\
  doc_segments wit_doc_single = [wit_seg_boot] /\
  single_segment_mode (doc_settings wit_doc_single) = true.
Proof.
  split; [reflexivity|]. split; [reflexivity|]. split; [reflexivity|]. split; [reflexivity|].
  split; [left; reflexivity|]. split; [right; left; reflexivity|].
  split; [right; right; left; reflexivity|]. split; [reflexivity|]. split; reflexivity.
Qed.

(* ====================================================================== *)
(* 2. the hypothesis families, all on wit_doc                              *)
(* ====================================================================== *)

(* ---------- the generator ---------- *)

Example wit_gen_normal : gen_normal wit_doc wit_rt = Ok wit_w.
Proof. vm_compute. reflexivity. Qed.

Example wit_multi_mode : single_segment_mode (doc_settings wit_doc) = false.
Proof. reflexivity. Qed.

(* the run-time settings exclude debug; the two overlay segments use one class each *)
Example wit_included_segments :
  included wit_rt (doc_segments wit_doc) = wit_included /\
  map sg_name wit_included = ["boot"; "main"; "ovl_a"; "ovl_b"; "buffers"] /\
  used_classes wit_rt (doc_segments wit_doc) = ["overlay"; "overlay2"] /\
  In wit_seg_boot wit_included /\ In wit_seg_main wit_included.
Proof.
  split; [vm_compute; reflexivity|]. split; [reflexivity|]. split; [vm_compute; reflexivity|].
  split; [left; reflexivity | right; left; reflexivity].
Qed.

Example wit_boot_included : In wit_seg_boot (included wit_rt (doc_segments wit_doc)).
Proof. rewrite (proj1 wit_included_segments). left. reflexivity. Qed.

Example wit_main_included : In wit_seg_main (included wit_rt (doc_segments wit_doc)).
Proof. rewrite (proj1 wit_included_segments). right. left. reflexivity. Qed.

(* ---------- DocLevel / C04DocWf / C01Doc: the well-formedness conditions ---------- *)

Example wit_link_wf : doc_link_wf wit_doc wit_rt = true.
Proof. vm_compute. reflexivity. Qed.

Example wit_names_distinct : doc_names_distinct wit_doc wit_rt = true.
Proof. vm_compute. reflexivity. Qed.

Example wit_outsecs_fresh : doc_outsecs_fresh wit_doc wit_rt = true.
Proof. vm_compute. reflexivity. Qed.

Example wit_discard_wildcard : discard_wildcard_section (doc_settings wit_doc) = true.
Proof. reflexivity. Qed.

(* C13Doc: the header list has no repetition *)
Example wit_header_nodup : nodup_str (doc_header_symbols wit_doc wit_rt) = true.
Proof. vm_compute. reflexivity. Qed.

(* ---------- the object universe ---------- *)

Example wit_sizes : Forall (fun x => 0 <= u_size x) wit_u.
Proof. repeat constructor; vm_compute; discriminate. Qed.

Example wit_markers_nodup : NoDup (map u_marker wit_u).
Proof. apply (Proofs.DocLevel.nodup_str_NoDup (map u_marker wit_u)). vm_compute. reflexivity. Qed.

Ltac solve_pow2 :=
  first [ exists 0%nat; reflexivity | exists 1%nat; reflexivity | exists 2%nat; reflexivity
        | exists 3%nat; reflexivity | exists 4%nat; reflexivity | exists 5%nat; reflexivity
        | exists 6%nat; reflexivity | exists 7%nat; reflexivity | exists 8%nat; reflexivity
        | exists 9%nat; reflexivity | exists 10%nat; reflexivity | exists 11%nat; reflexivity
        | exists 12%nat; reflexivity ].

Ltac pw := cbn; first [ exact I | solve_pow2 ].

Ltac pw_list := cbn; repeat (apply Forall_cons; [pw|]); apply Forall_nil.

Example wit_aligns_pow2 : Forall (fun x => pow2 (u_align x)) wit_u.
Proof. unfold wit_u. pw_list. Qed.

(* ---------- C03Fixpoint: the script is stable, no outside name is needed ---------- *)

Example wit_script_stable : script_stable [] (wo_script wit_w) = true.
Proof. vm_compute. reflexivity. Qed.

Example wit_outside_ok : outside_ok [] (wo_script wit_w) wit_ext0 = true.
Proof. vm_compute. reflexivity. Qed.

(* ---------- C09Doc: alignments ---------- *)

Example wit_group_aligns_pow2 : Forall group_aligns_pow2 (included wit_rt (doc_segments wit_doc)).
Proof.
  rewrite (proj1 wit_included_segments). unfold wit_included.
  repeat (apply Forall_cons; [split; [pw | split; [pw | split; pw_list]]|]). apply Forall_nil.
Qed.

Example wit_start_align_compatible :
  Forall (fun s => start_align_compatible s wit_u) (included wit_rt (doc_segments wit_doc)).
Proof.
  rewrite (proj1 wit_included_segments). unfold wit_included.
  repeat (apply Forall_cons;
          [apply Properties.C09Doc.C09_start_align_compatible_pow2; [pw | pw | exact wit_aligns_pow2]|]).
  apply Forall_nil.
Qed.

(* main has no address field *)
Example wit_main_default_placed : default_placed wit_seg_main.
Proof. repeat split. Qed.

Example wit_outsecs_not_allowlisted :
  Forall (outsecs_not_allowlisted (doc_settings wit_doc)) (included wit_rt (doc_segments wit_doc)).
Proof.
  rewrite (proj1 wit_included_segments). unfold wit_included.
  repeat (apply Forall_cons; [split; vm_compute; intuition discriminate|]). apply Forall_nil.
Qed.

(* ---------- the link: no error at all, hence the error hypothesis of the link theorems ---------- *)

Example wit_no_errors : l_errors (layout (wo_script wit_w) wit_u wit_ext0) = [].
Proof. vm_compute. reflexivity. Qed.

Example wit_no_forward_refs : forall seg,
  In seg (included wit_rt (doc_segments wit_doc)) ->
  ~ In (LForwardRef (alloc_name seg)) (l_errors (layout (wo_script wit_w) wit_u wit_ext0)).
Proof. intros seg _ H. rewrite wit_no_errors in H. exact H. Qed.

(* what the link gives (for the reader; the theorems of part 3 do not use it) *)
Example wit_link_values :
  let st := layout (wo_script wit_w) wit_u wit_ext0 in
  map (fun o => (os_name o, os_vma o, os_size o, os_lma o)) (firstn 10 (l_secs st)) =
  [(".boot", 2147484672, 92, Some 0); (".boot.noload", 2147484768, 128, None);
   (".main", 2147484896, 88, Some 96); (".main.noload", 2147484984, 0, None);
   (".ovl_a", 2148532224, 24, Some 192); (".ovl_a.noload", 2148532248, 0, None);
   (".ovl_b", 2148532256, 48, Some 224); (".ovl_b.noload", 2148532304, 0, None);
   (".buffers", 2147484992, 0, Some 272); (".buffers.noload", 2147484992, 64, None)] /\
  map (fun p => (pl_marker p, pl_addr p, pl_outsec p)) (l_placed st) =
  [("boot_text", 2147484672, ".boot"); ("mem_text", 2147484712, ".boot"); ("boot_data", 2147484736, ".boot");
   ("boot_bss", 2147484768, ".boot.noload"); ("main_text", 2147484896, ".main");
   ("main_rodata", 2147484944, ".main"); ("main_rdata", 2147484968, ".main");
   ("a_text", 2148532224, ".ovl_a"); ("b_text", 2148532256, ".ovl_b"); ("b_data", 2148532288, ".ovl_b");
   ("heap_bss", 2147484992, ".buffers.noload")] /\
  l_discarded st = ["main_reginfo"] /\ l_remaining st = []%list.
Proof. vm_compute. repeat split; reflexivity. Qed.

(* ---------- C11DocPartial: the partial build ---------- *)

Example wit_gen_partial : gen_partial wit_doc wit_rt = Ok wit_p.
Proof. vm_compute. reflexivity. Qed.

Example wit_link_wf_partial : doc_link_wf_partial wit_doc wit_rt = true.
Proof. vm_compute. reflexivity. Qed.

Example wit_partial_subs : map fst (po_subs wit_p) = ["boot"; "main"; "ovl_a"; "ovl_b"; "buffers"].
Proof. reflexivity. Qed.

(* ---------- C01Listed: the archive member libc.a:mem.o inside the group "lib" of boot ---------- *)

(* the leaf, under build/us/src/boot/lib, reaches .text from the configured section .text of the
   allocatable half, through the group above it *)
Example wit_leaf_reaches :
  leaf_reaches wit_rt wit_doc wit_seg_boot false wit_lf_mem "build/us/src/boot/lib" "libc.a" ".text".
Proof.
  apply (Properties.C01Listed.C01_leaf_reaches_intro wit_rt wit_doc wit_seg_boot false "build/us/src/boot"
           wit_group_lib wit_lf_mem "build/us/src/boot/lib" [wit_group_lib; wit_lf_mem] ".text"
           (alloc_sections wit_seg_boot) ".text" "libc.a").
  - exists "build/us". split; [vm_compute; reflexivity|]. cbn [reference_partial cfg_normal].
    exists "src/boot". split; vm_compute; reflexivity.
  - right. right. left. reflexivity.
  - vm_compute. left. reflexivity.
  - left. reflexivity.
  - exists ".text". split; [apply Reach_here; left; reflexivity|].
    exists ".text". split; [apply Reach_here; left; reflexivity | reflexivity].
  - vm_compute. reflexivity.
Qed.

Example wit_x_in_universe : In wit_x_mem wit_u.
Proof. right. right. right. left. reflexivity. Qed.

(* the input statement for build/us/src/boot/lib/libc.a, member mem.o, section .text with the wildcard
   flag selects it *)
Example wit_input_matches :
  input_matches (display (push "build/us/src/boot/lib" "libc.a")) (member_of wit_lf_mem) ".text"
                (wildcard_sections wit_seg_boot) wit_x_mem.
Proof. apply Properties.C01Listed.C01_input_matches_sel. vm_compute. reflexivity. Qed.

Ltac split_or H :=
  match type of H with
  | _ \/ _ => destruct H as [H|H]; [|split_or H]
  | False => contradiction
  | _ => idtac
  end.

(* no other included segment lists a file spelled build/us/src/boot/lib/libc.a *)
Example wit_path_only_in : path_only_in wit_rt wit_doc wit_x_mem wit_seg_boot.
Proof.
  intros s nl lf bc p k Hs [b [c0 [chain [section [[b0 [dd [E1 [E2 E3]]]] [Hc0 [Hleaf [_ [_ Hesc]]]]]]]]] Hp.
  vm_compute in Hs. split_or Hs; subst s; try reflexivity; exfalso;
    vm_compute in E1, E2; inversion E1; inversion E2; subst b0 dd b;
    vm_compute in Hc0; split_or Hc0; subst c0; vm_compute in Hleaf; split_or Hleaf; inversion Hleaf; subst;
    vm_compute in Hesc; inversion Hesc; subst; vm_compute in Hp; discriminate Hp.
Qed.

(* hence the first statement of the script that matches it is in .boot or .boot.noload: obtained from
   the document-side condition by C01_first_goes_of_leaves and C01_matching_of_path_only *)
Example wit_first_goes : first_goes (wo_script wit_w) wit_x_mem (seg_outsec wit_seg_boot).
Proof.
  apply (Properties.C01Listed.C01_first_goes_of_leaves wit_doc wit_rt wit_w wit_x_mem _ wit_gen_normal
           wit_multi_mode (Properties.C01Listed.C01_matching_of_path_only _ _ _ _ wit_path_only_in)).
  exists wit_seg_boot, false, wit_lf_mem, "build/us/src/boot/lib", "libc.a", ".text".
  split; [exact wit_boot_included|]. split; [exact wit_leaf_reaches | exact wit_input_matches].
Qed.

(* ... and it is that very statement *)
Example wit_first_claim :
  first_claim (script_claims (wo_script wit_w)) wit_x_mem =
  Some (CInput ".boot" "build/us/src/boot/lib/libc.a" (Some "mem.o") ".text" true).
Proof. vm_compute. reflexivity. Qed.

(* ---------- C17Doc: _gp, the checks ---------- *)

Example wit_gp_here : GpHere wit_rt wit_seg_boot ".sdata" wit_gp.
Proof. repeat split. Qed.

Example wit_gp_section_listed : In ".sdata" (seg_sections wit_seg_boot).
Proof. right. right. right. left. reflexivity. Qed.

Example wit_segments_gp : segments_gp wit_rt (doc_segments wit_doc) = 1%nat.
Proof. vm_compute. reflexivity. Qed.

Example wit_user_gp : user_gp wit_rt wit_doc = 0%nat.
Proof. vm_compute. reflexivity. Qed.

(* the gp_info asks for PROVIDE: the objects (and the markers of the placed sections) do not define _gp *)
Example wit_gp_not_in_objects :
  (gp_provide wit_gp && is_some (lookup "_gp" (last_ext (wo_script wit_w) wit_u wit_ext0)))%bool = false.
Proof. vm_compute. reflexivity. Qed.

Example wit_gp_count : count_assigns "_gp" (wo_script wit_w) = 1%nat.
Proof. vm_compute. reflexivity. Qed.

Example wit_checks :
  doc_checks wit_rt wit_doc =
  [("DEFINED(bootproc)", "Required symbol 'bootproc' was not linked"); ("boot_ROM_SIZE <= 0x1000", "boot too big")] /\
  map sa_name (included_assignments wit_rt wit_doc) = ["stack_top"].
Proof. vm_compute. split; reflexivity. Qed.

(* ---------- C03DocSingle / C03DocSingleWf: the single-segment variant ---------- *)

Example wit_single_gen_normal : gen_normal wit_doc_single wit_rt = Ok wit_w_single.
Proof. vm_compute. reflexivity. Qed.

Example wit_single_wf : doc_single_wf wit_doc_single wit_rt = true.
Proof. vm_compute. reflexivity. Qed.

Example wit_single_names_distinct : doc_single_names_distinct wit_doc_single wit_rt = true.
Proof. vm_compute. reflexivity. Qed.

Example wit_single_segments : doc_segments wit_doc_single = [wit_seg_boot].
Proof. reflexivity. Qed.

Example wit_single_sizes : Forall (fun x => 0 <= u_size x) wit_u_single.
Proof. repeat constructor; vm_compute; discriminate. Qed.

Example wit_single_no_errors : l_errors (layout (wo_script wit_w_single) wit_u_single wit_ext0) = [].
Proof. vm_compute. reflexivity. Qed.

(* ====================================================================== *)
(* 3. the theorems applied to wit_doc                                      *)
(* ====================================================================== *)

(* C04 (Properties/DocLevel.v): the ROM chain of the five included segments, and their noload sections *)
Example wit_C04_rom_chain :
  RomChain (linker_symbols_style (doc_settings wit_doc)) (layout (wo_script wit_w) wit_u wit_ext0) 0
           (included wit_rt (doc_segments wit_doc)) /\
  NoloadSections (layout (wo_script wit_w) wit_u wit_ext0) (included wit_rt (doc_segments wit_doc)).
Proof.
  pose proof (Properties.DocLevel.C04_document_rom_chain_layout wit_doc wit_rt wit_w wit_u wit_ext0
                wit_gen_normal wit_link_wf wit_sizes) as H.
  cbv zeta in H. apply H. exact wit_no_forward_refs.
Qed.

(* C02 (Properties/C02Doc.v): ROM positions never decrease *)
Example wit_C02_rom_monotone :
  RomMonotone (linker_symbols_style (doc_settings wit_doc)) (layout (wo_script wit_w) wit_u wit_ext0) 0
              (included wit_rt (doc_segments wit_doc)).
Proof.
  pose proof (Properties.C02Doc.C02_document_rom_monotone_layout wit_doc wit_rt wit_w wit_u wit_ext0
                wit_gen_normal wit_link_wf wit_sizes) as H.
  cbv zeta in H. apply H. exact wit_no_forward_refs.
Qed.

(* C03 (Properties/C03Fixpoint.v): for every included segment, in the final state of the link, VRAM is the
   start of its output section, VRAM_END the aligned end of its noload section, VRAM_SIZE the difference *)
Example wit_C03_vram_symbols : forall seg,
  In seg (included wit_rt (doc_segments wit_doc)) ->
  exists o1 o2,
    find_sec (alloc_name seg) (l_secs (layout (wo_script wit_w) wit_u wit_ext0)) = Some o1 /\
    find_sec (noload_name seg) (l_secs (layout (wo_script wit_w) wit_u wit_ext0)) = Some o2 /\
    os_vma o1 + os_size o1 <= os_vma o2 /\ 0 <= os_size o1 /\ 0 <= os_size o2 /\
    val (layout (wo_script wit_w) wit_u wit_ext0)
        (segment_vram_start (linker_symbols_style (doc_settings wit_doc)) (sg_name seg)) = Some (os_vma o1) /\
    val (layout (wo_script wit_w) wit_u wit_ext0)
        (segment_vram_end (linker_symbols_style (doc_settings wit_doc)) (sg_name seg)) =
      Some (align_up (os_vma o2 + os_size o2) (align_z (segment_end_align seg))) /\
    val (layout (wo_script wit_w) wit_u wit_ext0)
        (segment_vram_size (linker_symbols_style (doc_settings wit_doc)) (sg_name seg)) =
      Some (align_up (os_vma o2 + os_size o2) (align_z (segment_end_align seg)) - os_vma o1).
Proof.
  intros seg Hseg.
  pose proof (Properties.C03Fixpoint.C03_vram_symbols_layout [] wit_doc wit_rt wit_w wit_u wit_ext0 seg
                wit_gen_normal wit_link_wf wit_script_stable wit_outside_ok wit_sizes) as H.
  cbv zeta in H. exact (H Hseg).
Qed.

(* C09 (Properties/C09Doc.v): every group alignment being a power of two, all four alignment requests of
   every section group of every included segment hold *)
Example wit_C09_groups_pow2 : forall seg,
  In seg (included wit_rt (doc_segments wit_doc)) ->
  SegmentGroupsAlignedAll (linker_symbols_style (doc_settings wit_doc))
                          (layout (wo_script wit_w) wit_u wit_ext0) seg.
Proof.
  intros seg Hseg.
  pose proof (Properties.C09Doc.C09_document_groups_pow2_layout wit_doc wit_rt wit_w wit_u wit_ext0 seg
                wit_gen_normal wit_link_wf wit_sizes Hseg) as H.
  cbv zeta in H. apply H.
  - exact (proj1 (Forall_forall _ _) wit_group_aligns_pow2 seg Hseg).
  - exact (wit_no_forward_refs seg Hseg).
Qed.

(* C09: main, placed by default, starts at a multiple of its segment_start_align *)
Example wit_C09_default_vram : DefaultVramAligned (layout (wo_script wit_w) wit_u wit_ext0) wit_seg_main.
Proof.
  pose proof (Properties.C09Doc.C09_document_default_vram_layout wit_doc wit_rt wit_w wit_u wit_ext0 wit_seg_main
                wit_gen_normal wit_link_wf wit_sizes wit_main_included wit_main_default_placed) as H.
  cbv zeta in H. apply H.
  - exact (proj1 (Forall_forall _ _) wit_start_align_compatible wit_seg_main wit_main_included).
  - exact (wit_no_forward_refs wit_seg_main wit_main_included).
Qed.

(* C10 (Properties/DocLevel.v): the class overlay2 *)
Example wit_C10_class :
  ClassSummary (linker_symbols_style (doc_settings wit_doc))
    (l_syms (exec_script (l_syms (exec_script [] [] wit_ext0 false (wo_script wit_w) (init_state wit_u)))
                         (l_secs (exec_script [] [] wit_ext0 false (wo_script wit_w) (init_state wit_u)))
                         (wit_ext0 ++ markers_of (exec_script [] [] wit_ext0 false (wo_script wit_w) (init_state wit_u)))%list
                         false (wo_script wit_w) (init_state wit_u)))
    (wit_ext0 ++ markers_of
       (exec_script (l_syms (exec_script [] [] wit_ext0 false (wo_script wit_w) (init_state wit_u)))
                    (l_secs (exec_script [] [] wit_ext0 false (wo_script wit_w) (init_state wit_u)))
                    (wit_ext0 ++ markers_of (exec_script [] [] wit_ext0 false (wo_script wit_w) (init_state wit_u)))%list
                    false (wo_script wit_w) (init_state wit_u)))%list
    (layout (wo_script wit_w) wit_u wit_ext0) wit_rt (doc_segments wit_doc) "overlay2".
Proof.
  pose proof (Properties.DocLevel.C10_document_classes_layout wit_doc wit_rt wit_w wit_u wit_ext0 "overlay2"
                wit_gen_normal wit_link_wf) as H.
  cbv zeta in H. apply H. rewrite (proj1 (proj2 (proj2 wit_included_segments))). right. left. reflexivity.
Qed.

(* C01 (Properties/C01Doc.v): the wildcard of the discard block is on, nothing is left as an orphan *)
Example wit_C01_no_orphan : l_remaining (layout (wo_script wit_w) wit_u wit_ext0) = [].
Proof.
  exact (Properties.C01Doc.C01_document_no_orphan_layout wit_doc wit_rt wit_w wit_u wit_ext0
           wit_gen_normal wit_discard_wildcard).
Qed.

(* C01 (Properties/C01Listed.v): .text of libc.a:mem.o, listed by boot inside the group "lib", ends up
   inside boot's address range, is not waiting and is not discarded *)
Example wit_C01_listed_in_segment :
  InsideSegment (linker_symbols_style (doc_settings wit_doc)) (layout (wo_script wit_w) wit_u wit_ext0)
                wit_seg_boot wit_x_mem /\
  ~ In wit_x_mem (l_remaining (layout (wo_script wit_w) wit_u wit_ext0)) /\
  ~ In (u_marker wit_x_mem) (map u_marker (l_remaining (layout (wo_script wit_w) wit_u wit_ext0))) /\
  ~ In (u_marker wit_x_mem) (l_discarded (layout (wo_script wit_w) wit_u wit_ext0)).
Proof.
  pose proof (Properties.C01Listed.C01_document_listed_in_segment_layout wit_doc wit_rt wit_w wit_u wit_ext0
                wit_seg_boot false wit_lf_mem "build/us/src/boot/lib" "libc.a" ".text" wit_x_mem
                wit_gen_normal wit_link_wf wit_outsecs_fresh wit_sizes wit_markers_nodup wit_boot_included
                wit_leaf_reaches wit_x_in_universe wit_input_matches wit_first_goes) as H.
  cbv zeta in H. apply H. exact wit_no_forward_refs.
Qed.

(* C17 (Properties/C17Doc.v): _gp is boot_SDATA_START + 0x7FF0, from the gp_info alone *)
Example wit_C17_gp :
  exists S,
    val (layout (wo_script wit_w) wit_u wit_ext0)
        (segment_section_start (linker_symbols_style (doc_settings wit_doc)) (sg_name wit_seg_boot) ".sdata") = Some S /\
    val (layout (wo_script wit_w) wit_u wit_ext0) "_gp" = Some (S + gp_offset wit_gp mod 4294967296) /\
    (S + gp_offset wit_gp mod 4294967296) mod 4294967296 = (S + gp_offset wit_gp) mod 4294967296.
Proof.
  pose proof (Properties.C17Doc.C17_document_gp_layout wit_doc wit_rt wit_w wit_u wit_ext0 wit_seg_boot ".sdata"
                wit_gp wit_gen_normal wit_link_wf wit_boot_included wit_gp_section_listed wit_gp_here
                wit_gp_not_in_objects wit_segments_gp wit_user_gp) as H.
  cbv zeta in H. apply H. intros _. exact (wit_no_forward_refs wit_seg_boot wit_boot_included).
Qed.

(* C18 (Properties/C18Doc.v): the script splits at the tail of SECTIONS, and the tail does what the allow
   list, the deny list and the wildcard say with the input sections the segments left unplaced *)
Example wit_C18_split : SplitAtTail wit_doc wit_rt wit_w (multi_pre wit_doc wit_rt) (multi_ws wit_doc wit_rt).
Proof. exact (Properties.C18Doc.C18_document_split_multi wit_doc wit_rt wit_w wit_gen_normal wit_multi_mode). Qed.

Example wit_C18_tail_outcome :
  TailOutcome (doc_settings wit_doc)
              (last_pass (wo_script wit_w) wit_u wit_ext0 (multi_pre wit_doc wit_rt))
              (layout (wo_script wit_w) wit_u wit_ext0) /\
  l_discarded (last_pass (wo_script wit_w) wit_u wit_ext0 (multi_pre wit_doc wit_rt)) = [].
Proof.
  exact (Properties.C18Doc.C18_document_tail_outcome_layout wit_doc wit_rt wit_w (multi_pre wit_doc wit_rt)
           (multi_ws wit_doc wit_rt) wit_u wit_ext0 wit_C18_split).
Qed.

(* C11 (Properties/C11DocPartial.v): the condition of the partial theorems follows from the ordinary one *)
Example wit_C11_partial_wf : doc_link_wf_partial wit_doc wit_rt = true.
Proof.
  exact (Properties.C11DocPartial.C11_partial_wf_of_ordinary wit_doc wit_rt wit_p wit_gen_partial wit_link_wf).
Qed.

(* C04DocWf: doc_link_wf from the document-side condition *)
Example wit_DocWf_sufficient : doc_link_wf wit_doc wit_rt = true.
Proof.
  exact (Properties.C04DocWf.DocWf_sufficient wit_doc wit_rt wit_w wit_gen_normal wit_names_distinct).
Qed.

(* C13 (Properties/C13Doc.v): the symbols header declares exactly the document's list *)
Example wit_C13_header : linker_symbols wit_w = doc_header_symbols wit_doc wit_rt.
Proof.
  exact (Properties.C13Doc.C13_document_header_nodup wit_doc wit_rt wit_w wit_gen_normal wit_multi_mode
           wit_header_nodup).
Qed.

(* single-segment mode, C05 (Properties/C03DocSingle.v): every section of boot, linked alone *)
Example wit_C05_single_symbols : forall sec,
  In sec (seg_sections wit_seg_boot) ->
  SectionSymbols (linker_symbols_style (doc_settings wit_doc_single)) wit_seg_boot wit_u_single
                 (layout (wo_script wit_w_single) wit_u_single wit_ext0) sec.
Proof.
  intros sec Hsec.
  pose proof (Properties.C03DocSingle.C05_single_document_symbols_layout wit_doc_single wit_rt wit_w_single
                wit_u_single wit_ext0 wit_seg_boot sec wit_single_gen_normal wit_single_wf wit_single_segments
                wit_single_sizes Hsec) as H.
  cbv zeta in H. exact H.
Qed.

(* single-segment mode, C03DocSingleWf: doc_single_wf from the document-side condition *)
Example wit_DocSingleWf_sufficient : doc_single_wf wit_doc_single wit_rt = true.
Proof.
  exact (Properties.C03DocSingleWf.DocSingleWf_sufficient wit_doc_single wit_rt wit_w_single
           wit_single_gen_normal wit_single_names_distinct).
Qed.

Print Assumptions DocWitness_parse_gp_exclusive.
Print Assumptions DocWitness_samples_unreachable.
Print Assumptions wit_parses.
Print Assumptions wit_single_parses.
Print Assumptions wit_shape.
Print Assumptions wit_gen_normal.
Print Assumptions wit_multi_mode.
Print Assumptions wit_included_segments.
Print Assumptions wit_boot_included.
Print Assumptions wit_main_included.
Print Assumptions wit_link_wf.
Print Assumptions wit_names_distinct.
Print Assumptions wit_outsecs_fresh.
Print Assumptions wit_discard_wildcard.
Print Assumptions wit_header_nodup.
Print Assumptions wit_sizes.
Print Assumptions wit_markers_nodup.
Print Assumptions wit_aligns_pow2.
Print Assumptions wit_script_stable.
Print Assumptions wit_outside_ok.
Print Assumptions wit_group_aligns_pow2.
Print Assumptions wit_start_align_compatible.
Print Assumptions wit_main_default_placed.
Print Assumptions wit_outsecs_not_allowlisted.
Print Assumptions wit_no_errors.
Print Assumptions wit_no_forward_refs.
Print Assumptions wit_link_values.
Print Assumptions wit_gen_partial.
Print Assumptions wit_link_wf_partial.
Print Assumptions wit_partial_subs.
Print Assumptions wit_leaf_reaches.
Print Assumptions wit_x_in_universe.
Print Assumptions wit_input_matches.
Print Assumptions wit_path_only_in.
Print Assumptions wit_first_goes.
Print Assumptions wit_first_claim.
Print Assumptions wit_gp_here.
Print Assumptions wit_gp_section_listed.
Print Assumptions wit_segments_gp.
Print Assumptions wit_user_gp.
Print Assumptions wit_gp_not_in_objects.
Print Assumptions wit_gp_count.
Print Assumptions wit_checks.
Print Assumptions wit_single_gen_normal.
Print Assumptions wit_single_wf.
Print Assumptions wit_single_names_distinct.
Print Assumptions wit_single_segments.
Print Assumptions wit_single_sizes.
Print Assumptions wit_single_no_errors.
Print Assumptions wit_C04_rom_chain.
Print Assumptions wit_C02_rom_monotone.
Print Assumptions wit_C03_vram_symbols.
Print Assumptions wit_C09_groups_pow2.
Print Assumptions wit_C09_default_vram.
Print Assumptions wit_C10_class.
Print Assumptions wit_C01_no_orphan.
Print Assumptions wit_C01_listed_in_segment.
Print Assumptions wit_C17_gp.
Print Assumptions wit_C18_split.
Print Assumptions wit_C18_tail_outcome.
Print Assumptions wit_C11_partial_wf.
Print Assumptions wit_DocWf_sufficient.
Print Assumptions wit_C13_header.
Print Assumptions wit_C05_single_symbols.
Print Assumptions wit_DocSingleWf_sufficient.
