(* C13 - Symbols header declares exactly the generated linker symbols.
   Only statements, each closed by [exact]; see Proofs/C13.v. *)
From Slinky Require Import Model.Types Model.Runtime Model.Style Model.Script Model.Writer Model.Exports.
From Slinky Require Import Spec.C13 Proofs.C12 Proofs.C13.

(* the text: optional comment, include guard, one extern line per linker symbol, #endif *)
Theorem C13_text : forall rt st w, header_text rt st w = header_spec rt st (linker_symbols w).
Proof. exact header_text_spec. Qed.

(* the declared names are the names assigned through write_linker_symbol anywhere in the script, in
   script order, each kept at its first occurrence *)
Theorem C13_recorded : forall w,
  linker_symbols w = keep_first String.eqb (recorded_syms (wo_script w)).
Proof. exact linker_symbols_recorded. Qed.

Theorem C13_once : forall w, NoDup (linker_symbols w).
Proof. exact linker_symbols_nodup. Qed.

Theorem C13_declared_iff : forall w sym,
  In sym (linker_symbols w) <-> In sym (recorded_syms (wo_script w)).
Proof. exact linker_symbols_in. Qed.

(* user assignments, required symbols, asserts, ENTRY, _gp (from gp_info or hard-coded) and the
   __romPos / "." bookkeeping are not recorded *)
Theorem C13_not_user : forall rt d st seg section,
  recorded_syms (tail_stmts rt d) = [] /\ recorded_syms (version_stmts rt) = [] /\
  recorded_syms (gp_stmt rt seg section) = [] /\ recorded_syms (hardcoded_gp_stmts st) = [] /\
  recorded_syms (begin_sections_body st) = [] /\
  (forall v, recorded_syms [SAssign false false false "." (EHex8 v); SBlank] = []) /\
  (forall sec a, recorded_syms [SRomAdd sec; SAlign "__romPos" a; SAlign "." a] = []).
Proof. exact not_recorded_all. Qed.

(* so the header only depends on the SECTIONS block *)
Theorem C13_sections_only : forall d rt w,
  gen_normal d rt = Ok w ->
  exists body, wo_script w = version_stmts rt ++ [SSections body] ++ tail_stmts rt d /\
               recorded_syms (wo_script w) = recorded_syms body.
Proof. exact recorded_normal. Qed.

(* every declared name is a style function applied to an emitted segment's name (or its _alloc /
   _noload half, or one of its section groups), to the linker_offset_name of an included linker-offset
   file of an emitted segment, or to a declared class name *)
Theorem C13_forms : forall d rt w,
  gen_normal d rt = Ok w ->
  Forall (generated_form rt (linker_symbols_style (doc_settings d))
            (if single_segment_mode (doc_settings d) then doc_segments d else included_segments rt d)
            (doc_vram_classes d)) (linker_symbols w).
Proof. exact forms_normal. Qed.

Theorem C13_forms_partial_main : forall d rt p,
  gen_partial d rt = Ok p ->
  Forall (generated_form rt (linker_symbols_style (doc_settings d)) (included_segments rt d)
                         (doc_vram_classes d)) (linker_symbols (po_main p)).
Proof. exact forms_partial_main. Qed.

Example C13_ex :
  match gen_normal ex_doc ex_rt with
  | Ok w => List.length (linker_symbols w) = 52 /\
            mem_str "boot_mid_OFFSET" (linker_symbols w) = true /\
            mem_str "overlay_VRAM_CLASS_SIZE" (linker_symbols w) = true /\
            mem_str "_gp" (linker_symbols w) = false /\ mem_str "stack_top" (linker_symbols w) = false /\
            mem_str "__romPos" (linker_symbols w) = false /\ mem_str "debug_VRAM" (linker_symbols w) = false
  | Err _ => False
  end /\
  match gen_partial ex_doc ex_rt with
  | Ok p => List.length (linker_symbols (po_main p)) = 51
  | Err _ => False
  end.
Proof. vm_compute. repeat split; reflexivity. Qed.

(* the header file is written iff symbols_header_path is set *)
Theorem C13_written_iff : forall rt st w writes,
  save_other_files_normal rt st w = Ok writes ->
  exists dw hw, writes = dw ++ hw /\
    match d_path st with
    | Some dp =>
        exists dp', escape_path rt dp = Ok dp' /\
          match target_path st with
          | Some tp => exists tp', escape_path rt tp = Ok tp' /\ dw = [(dp', deps_text rt w tp')]
          | None => dw = []
          end
    | None => dw = []
    end /\
    match symbols_header_path st with
    | Some hp => exists hp', escape_path rt hp = Ok hp' /\ hw = [(hp', header_text rt st w)]
    | None => hw = []
    end.
Proof. exact save_normal_inv. Qed.

Print Assumptions C13_text.
Print Assumptions C13_recorded.
Print Assumptions C13_once.
Print Assumptions C13_declared_iff.
Print Assumptions C13_not_user.
Print Assumptions C13_sections_only.
Print Assumptions C13_forms.
Print Assumptions C13_forms_partial_main.
Print Assumptions C13_written_iff.
