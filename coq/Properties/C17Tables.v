(* C17 - translator obligations: the wrappers of symbol assignments, ENTRY, EXTERN, ASSERT and the required-symbol
   texts of the model's rendering are the format! templates that tools/rs2v.py reads from script_buffer.rs and
   linker_writer.rs on every run. *)
From Slinky Require Import Model.Types Model.Generated Model.Style Model.Script Proofs.Tables.
Local Open Scope string_scope.

Theorem C17_tables_script_buffer :
  fmt_sb = [[""; " "; " : { *("; "); }"];
            ["PROVIDE_HIDDEN("; " = "; ");"]; ["PROVIDE("; " = "; ");"]; ["HIDDEN("; " = "; ");"]; [""; " = "; ";"];
            [""; " = ALIGN("; ", 0x"; ");"];
            [""; " = MAX("; ", "; ");"];
            ["ASSERT(("; "), ""Error: "; """);"];
            ["EXTERN("; ");"]; ["DEFINED("; ")"]; ["Required symbol '"; "' was not linked"]].
Proof. exact fmt_sb_expected. Qed.

Theorem C17_tables_assign : forall p h sym v,
  render_assign p h sym v =
  fmt (tpl fmt_sb (match p, h with true, true => 1 | true, false => 2 | false, true => 3 | false, false => 4 end))
      [sym; v].
Proof. exact sb_assign. Qed.

Theorem C17_tables_assert : forall ind c m,
  render_stmt ind (SAssert c m) = [indent_str ind ++ fmt (tpl fmt_sb 7) [c; m]].
Proof. exact sb_assert. Qed.

Theorem C17_tables_extern : forall ind n,
  render_stmt ind (SExtern n) = [indent_str ind ++ fmt (tpl fmt_sb 8) [n]].
Proof. exact sb_extern. Qed.

Theorem C17_tables_required_msg : forall n,
  fmt (tpl fmt_sb 10) [n] = "Required symbol '" ++ n ++ "' was not linked".
Proof. exact sb_required_msg. Qed.

Theorem C17_tables_entry : forall ind e, render_stmt ind (SEntry e) = [indent_str ind ++ fmt (tpl fmt_lw 1) [e]].
Proof. exact lw_entry. Qed.

Theorem C17_tables_hardcoded_gp : forall ind v,
  render_stmt ind (SAssign false false false "_gp" (EHex8 v)) = [indent_str ind ++ fmt (tpl fmt_lw 2) [hex8_of_N v]].
Proof. exact lw_hardcoded_gp. Qed.

Theorem C17_tables_gp_offset : forall off, render_expr (EDotPlus off) = fmt (tpl fmt_lw 13) [hex_of_i32 off].
Proof. exact lw_gp_offset. Qed.

Print Assumptions C17_tables_script_buffer.
Print Assumptions C17_tables_assign.
Print Assumptions C17_tables_assert.
Print Assumptions C17_tables_extern.
Print Assumptions C17_tables_required_msg.
Print Assumptions C17_tables_entry.
Print Assumptions C17_tables_hardcoded_gp.
Print Assumptions C17_tables_gp_offset.
