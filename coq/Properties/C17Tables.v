(* C17 - translator obligations: the wrappers of symbol assignments, ENTRY, EXTERN, ASSERT and the required-symbol
   texts of the model's rendering are the format! templates that tools/rs2v.py reads from script_buffer.rs and
   linker_writer.rs on every run. *)
From Slinky Require Import Model.Types Model.Generated Model.Style Model.Script Proofs.TablesC17.
Local Open Scope string_scope.

Theorem C17_tables_script_buffer :
  t_sb_write_symbol_assignment_0_spec = [""; ""] /\
  t_sb_write_symbol_assignment_1_spec = [""; ""] /\
  t_sb_write_symbol_assignment_2_spec = [""; ""] /\
  t_sb_write_symbol_assignment_3_spec = [""; ""] /\
  t_sb_write_assert_0_spec = [""; ""] /\
  t_sb_write_required_symbol_0_spec = [""] /\
  t_sb_write_required_symbol_1_spec = [""] /\
  t_sb_write_required_symbol_2_spec = [""] /\
  t_lw_add_entry_0_spec = [""] /\
  t_lw_begin_sections_0_spec = [":08X"] /\
  t_lw_add_single_segment_0_spec = [":08X"] /\
  t_lw_write_section_symbol_start_0_spec = [":X"].
Proof. exact specs_C17. Qed.

Theorem C17_tables_assign : forall p h sym v,
  render_assign p h sym v =
  fmt (match p, h with true, true => t_sb_write_symbol_assignment_0 | true, false => t_sb_write_symbol_assignment_1
                   | false, true => t_sb_write_symbol_assignment_2 | false, false => t_sb_write_symbol_assignment_3 end)
      [sym; v].
Proof. exact sb_assign. Qed.

Theorem C17_tables_assert : forall ind c m,
  render_stmt ind (SAssert c m) = [indent_str ind ++ fmt t_sb_write_assert_0 [c; m]].
Proof. exact sb_assert. Qed.

Theorem C17_tables_extern : forall ind n,
  render_stmt ind (SExtern n) = [indent_str ind ++ fmt t_sb_write_required_symbol_0 [n]].
Proof. exact sb_extern. Qed.

Theorem C17_tables_required_msg : forall n,
  fmt t_sb_write_required_symbol_2 [n] = "Required symbol '" ++ n ++ "' was not linked".
Proof. exact sb_required_msg. Qed.

Theorem C17_tables_entry : forall ind e, render_stmt ind (SEntry e) = [indent_str ind ++ fmt t_lw_add_entry_0 [e]].
Proof. exact lw_entry. Qed.

Theorem C17_tables_hardcoded_gp : forall ind v,
  render_stmt ind (SAssign false false false "_gp" (EHex8 v)) = [indent_str ind ++ fmt t_lw_begin_sections_0 [hex8_of_N v]].
Proof. exact lw_hardcoded_gp. Qed.

Theorem C17_tables_gp_offset : forall off, render_expr (EDotPlus off) = fmt t_lw_write_section_symbol_start_0 [hex_of_i32 off].
Proof. exact lw_gp_offset. Qed.

Print Assumptions C17_tables_script_buffer.
Print Assumptions C17_tables_assign.
Print Assumptions C17_tables_assert.
Print Assumptions C17_tables_extern.
Print Assumptions C17_tables_required_msg.
Print Assumptions C17_tables_entry.
Print Assumptions C17_tables_hardcoded_gp.
Print Assumptions C17_tables_gp_offset.
