(* C13Modes - the symbols header characterised from the DOCUMENT in the two modes that Properties/C13Doc.v
   left with the recorded list and the declared names only: single-segment mode
   ([doc_header_symbols_single]) and the main script of partial linking ([doc_header_symbols_main]).
   The corollaries below mirror C13_document_header_text / _declared_iff / _excludes of the multi-segment
   mode.  Only statements, each closed by [exact]; proofs in Proofs/Strengthen.v (part B). *)
From Slinky Require Import Model.Types Model.Runtime Model.Style Model.Script Model.Writer Model.Exports.
From Slinky Require Import Spec.C18 Spec.C04 Spec.C13 Spec.DocLevel Spec.DocPartial Spec.DocSingle Spec.DocWf
  Spec.C13Doc.
From Slinky Require Import Proofs.C17 Proofs.Strengthen.
Local Open Scope string_scope.

(* ---------- single-segment mode ---------- *)

(* the text of the header: the first occurrence of every name of the document's list, in that order *)
Theorem C13_document_single_header_text : forall d rt w,
  gen_normal d rt = Ok w -> single_segment_mode (doc_settings d) = true ->
  header_text rt (doc_settings d) w =
  header_spec rt (doc_settings d) (keep_first String.eqb (doc_header_symbols_single d rt)).
Proof. exact single_header_text. Qed.

(* without repetition in the list the header declares exactly the list *)
Theorem C13_document_single_header_nodup : forall d rt w,
  gen_normal d rt = Ok w -> single_segment_mode (doc_settings d) = true ->
  nodup_str (doc_header_symbols_single d rt) = true ->
  linker_symbols w = doc_header_symbols_single d rt.
Proof. exact single_header_nodup. Qed.

Theorem C13_document_single_header_text_nodup : forall d rt w,
  gen_normal d rt = Ok w -> single_segment_mode (doc_settings d) = true ->
  nodup_str (doc_header_symbols_single d rt) = true ->
  header_text rt (doc_settings d) w = header_spec rt (doc_settings d) (doc_header_symbols_single d rt).
Proof. exact single_header_text_nodup. Qed.

(* a name is declared iff it is in the document's list *)
Theorem C13_document_single_declared_iff : forall d rt w x,
  gen_normal d rt = Ok w -> single_segment_mode (doc_settings d) = true ->
  (In x (linker_symbols w) <-> In x (doc_header_symbols_single d rt)).
Proof. exact single_declared_iff. Qed.

Theorem C13_document_single_list_not_special : forall d rt,
  ~ In "_gp" (doc_header_symbols_single d rt) /\ ~ In "__romPos" (doc_header_symbols_single d rt) /\
  ~ In "." (doc_header_symbols_single d rt).
Proof. exact doc_header_single_not_special. Qed.

(* _gp, __romPos and "." are not declared; the name of a user's symbol assignment is declared only if it
   is also a name of the list; every declared name is a style function applied to some arguments *)
Theorem C13_document_single_excludes : forall d rt w,
  gen_normal d rt = Ok w -> single_segment_mode (doc_settings d) = true ->
  ~ In "_gp" (linker_symbols w) /\ ~ In "__romPos" (linker_symbols w) /\ ~ In "." (linker_symbols w) /\
  (forall a, In a (doc_symbol_assignments d) -> In (sa_name a) (linker_symbols w) ->
             In (sa_name a) (doc_header_symbols_single d rt)) /\
  (forall x, In x (linker_symbols w) -> style_name (linker_symbols_style (doc_settings d)) x).
Proof. exact single_excludes. Qed.

(* ---------- the main script of partial linking ---------- *)

Theorem C13_document_main_header_text : forall d rt p,
  gen_partial d rt = Ok p ->
  header_text rt (doc_settings d) (po_main p) =
  header_spec rt (doc_settings d) (keep_first String.eqb (doc_header_symbols_main d rt)).
Proof. exact main_header_text. Qed.

Theorem C13_document_main_header_text_nodup : forall d rt p,
  gen_partial d rt = Ok p -> nodup_str (doc_header_symbols_main d rt) = true ->
  header_text rt (doc_settings d) (po_main p) = header_spec rt (doc_settings d) (doc_header_symbols_main d rt).
Proof. exact main_header_text_nodup. Qed.

Theorem C13_document_main_declared_iff : forall d rt p x,
  gen_partial d rt = Ok p ->
  (In x (linker_symbols (po_main p)) <-> In x (doc_header_symbols_main d rt)).
Proof. exact main_declared_iff. Qed.

Theorem C13_document_main_list_not_special : forall d rt,
  ~ In "_gp" (doc_header_symbols_main d rt) /\ ~ In "__romPos" (doc_header_symbols_main d rt) /\
  ~ In "." (doc_header_symbols_main d rt).
Proof. exact doc_header_main_not_special. Qed.

Theorem C13_document_main_excludes : forall d rt p,
  gen_partial d rt = Ok p ->
  ~ In "_gp" (linker_symbols (po_main p)) /\ ~ In "__romPos" (linker_symbols (po_main p)) /\
  ~ In "." (linker_symbols (po_main p)) /\
  (forall a, In a (doc_symbol_assignments d) -> In (sa_name a) (linker_symbols (po_main p)) ->
             In (sa_name a) (doc_header_symbols_main d rt)) /\
  (forall x, In x (linker_symbols (po_main p)) -> style_name (linker_symbols_style (doc_settings d)) x).
Proof. exact main_excludes. Qed.

(* ---------- examples ---------- *)

(* ds_doc (Spec/DocSingle.v), single-segment mode, with a hard-coded _gp and a user assignment: the
   hypotheses hold, the list has no repetition, and header, text and exclusions are as stated *)
Example ex_single_hypotheses :
  is_ok (gen_normal ds_doc ex_rt) = true /\ single_segment_mode (doc_settings ds_doc) = true /\
  nodup_str (doc_header_symbols_single ds_doc ex_rt) = true.
Proof. vm_compute. repeat split; reflexivity. Qed.

Example ex_single_header :
  match gen_normal ds_doc ex_rt with
  | Ok w => linker_symbols w = doc_header_symbols_single ds_doc ex_rt /\
            header_text ex_rt (doc_settings ds_doc) w =
            header_spec ex_rt (doc_settings ds_doc) (doc_header_symbols_single ds_doc ex_rt) /\
            mem_str "_gp" (linker_symbols w) = false /\ mem_str "__romPos" (linker_symbols w) = false /\
            mem_str "main_TEXT_START" (linker_symbols w) = true /\
            forallb (fun a => negb (mem_str (sa_name a) (linker_symbols w))) (doc_symbol_assignments ds_doc) = true
  | Err _ => False
  end.
Proof. vm_compute. repeat split; reflexivity. Qed.

(* the main script of the partial build of dl_doc (Spec/DocLevel.v) *)
Example ex_main_hypotheses :
  is_ok (gen_partial dl_doc ex_rt) = true /\ nodup_str (doc_header_symbols_main dl_doc ex_rt) = true.
Proof. vm_compute. split; reflexivity. Qed.

Example ex_main_header :
  match gen_partial dl_doc ex_rt with
  | Ok p => linker_symbols (po_main p) = doc_header_symbols_main dl_doc ex_rt /\
            header_text ex_rt (doc_settings dl_doc) (po_main p) =
            header_spec ex_rt (doc_settings dl_doc) (doc_header_symbols_main dl_doc ex_rt) /\
            mem_str "_gp" (linker_symbols (po_main p)) = false /\
            mem_str "boot_ROM_START" (linker_symbols (po_main p)) = true /\
            mem_str "boot_mid_OFFSET" (linker_symbols (po_main p)) = false /\
            mem_str "stack_top" (linker_symbols (po_main p)) = false
  | Err _ => False
  end.
Proof. vm_compute. repeat split; reflexivity. Qed.

Print Assumptions C13_document_single_header_text.
Print Assumptions C13_document_single_header_nodup.
Print Assumptions C13_document_single_header_text_nodup.
Print Assumptions C13_document_single_declared_iff.
Print Assumptions C13_document_single_list_not_special.
Print Assumptions C13_document_single_excludes.
Print Assumptions C13_document_main_header_text.
Print Assumptions C13_document_main_header_text_nodup.
Print Assumptions C13_document_main_declared_iff.
Print Assumptions C13_document_main_list_not_special.
Print Assumptions C13_document_main_excludes.
