(* C03DocSingleWf (DocSingleWf) - which DOCUMENTS meet [doc_single_wf], the hypothesis of the document-level
   link theorems of SINGLE-SEGMENT mode (Properties/C03DocSingle.v).  The single-mode analogue of
   Properties/C04DocWf.v.  Only statements, each closed by [exact]; see Proofs/DocSingleWf.v.

   [doc_single_wf d rt] is computed from the generated statements.  [doc_single_names_distinct d rt]
   (Spec/DocSingleWf.v) is computed from the document alone: single-segment mode; exactly one segment;
   the list [doc_named_symbols_single d rt] - for the allocatable and for the noload half of the
   segment the kind symbols, for every section of the half START, the linker offsets of the files
   (counted as emit_section_for_file visits them: section_order, sub-groups, groups, conditions), END,
   SIZE, then the user's own symbol assignments whose conditions hold - has no repetition and does not
   contain "."; when slinky defines _gp (hard-coded value or gp_info) nothing else is called _gp; the
   segment lists no section twice; no section is called like an entry of sections_allowlist /
   sections_allowlist_extra. *)
From Slinky Require Import Model.Types Model.Runtime Model.Style Model.Script Model.Writer Model.LdSem.
From Slinky Require Import Spec.C18 Spec.C04 Spec.C09 Spec.C05 Spec.C13 Spec.DocLevel Spec.C01Doc Spec.DocWf
                           Spec.DocSingle Spec.C13Doc Spec.DocSingleWf.
From Slinky Require Import Proofs.DocSingleWf.
From Coq Require Import ZArith.
Local Open Scope string_scope.

(* ====================================================================== *)
(* 1. the symbols of the script, from the document                         *)
(* ====================================================================== *)

(* what [doc_symbols_single] is: in the script of gen_normal (single-segment mode), at any depth, the
   number of "x = value" statements (SAssign) that define [x] is the number of occurrences of [x] in
   [doc_symbols_single d rt] - slinky's own _gp (hard-coded value, gp_info), "." when the segment has
   a fixed_vram (". = fixed_vram"), the kind symbols, START / linker offsets / END / SIZE of every
   section, the user's emitted assignments; the other statements that change a symbol
   (x = ALIGN(x, n); there is no x = MAX(x, y) and no __romPos += SIZEOF(s) in this mode) only concern
   "." *)
Theorem DocSingleWf_symbols_count : forall d rt w,
  gen_normal d rt = Ok w -> single_segment_mode (doc_settings d) = true ->
  (forall x, defs x (wo_script w) = count_occ string_dec (doc_symbols_single d rt) x) /\
  incl (upds (wo_script w)) ["."].
Proof. exact script_symbols_single. Qed.

(* the named part of the list is what the script records for the symbols header (C13Doc), followed by
   the user's emitted assignments *)
Theorem DocSingleWf_named_recorded : forall d rt w,
  gen_normal d rt = Ok w -> single_segment_mode (doc_settings d) = true ->
  doc_named_symbols_single d rt =
  (recorded_syms (wo_script w) ++ user_symbols rt (doc_symbol_assignments d))%list.
Proof. exact named_single_recorded. Qed.

(* ====================================================================== *)
(* 2. the document-side condition implies the statement-side one           *)
(* ====================================================================== *)

Theorem DocSingleWf_sufficient : forall d rt w,
  gen_normal d rt = Ok w -> doc_single_names_distinct d rt = true -> doc_single_wf d rt = true.
Proof. exact docsinglewf_sufficient. Qed.

(* the condition contains the mode and the segment count *)
Theorem DocSingleWf_mode : forall d rt,
  doc_single_names_distinct d rt = true ->
  single_segment_mode (doc_settings d) = true /\ exists seg, doc_segments d = [seg].
Proof. exact docsinglewf_mode. Qed.

(* ====================================================================== *)
(* 3. the link theorems of Properties/C03DocSingle.v under this condition  *)
(* ====================================================================== *)

Local Open Scope Z_scope.

(* C05_single_document_symbols_layout *)
Theorem C05_single_document_symbols_layout_distinct : forall d rt w u ext0 seg sec,
  gen_normal d rt = Ok w -> doc_single_names_distinct d rt = true -> doc_segments d = [seg] ->
  Forall (fun x => 0 <= u_size x) u -> In sec (seg_sections seg) ->
  let sty := linker_symbols_style (doc_settings d) in
  SectionSymbols sty seg u (layout (wo_script w) u ext0) sec.
Proof. exact single_symbols_layout_distinct. Qed.

(* C09_single_document_alignment_layout *)
Theorem C09_single_document_alignment_layout_distinct : forall d rt w u ext0 seg sec,
  gen_normal d rt = Ok w -> doc_single_names_distinct d rt = true -> doc_segments d = [seg] ->
  Forall (fun x => 0 <= u_size x) u -> In sec (seg_sections seg) ->
  let sty := linker_symbols_style (doc_settings d) in
  let st' := layout (wo_script w) u ext0 in
  exists S E,
    val st' (segment_section_start sty (sg_name seg) sec) = Some S /\
    val st' (segment_section_end sty (sg_name seg) sec) = Some E /\
    aligned_to (section_start_align seg) (lookup sec (sections_start_alignment seg)) S /\
    aligned_to (section_end_align seg) (lookup sec (sections_end_alignment seg)) E.
Proof. exact single_alignment_layout_distinct. Qed.

(* C03_single_document_sections_layout (which only needs the mode and the segment, both part of the
   condition) *)
Theorem C03_single_document_sections_layout_distinct : forall d rt w u ext0 seg,
  gen_normal d rt = Ok w -> doc_single_names_distinct d rt = true -> doc_segments d = [seg] ->
  Forall (fun x => 0 <= u_size x) u ->
  let st' := layout (wo_script w) u ext0 in
  exists osecs rest, l_secs st' = (osecs ++ rest)%list /\ SingleSections cfg_normal seg osecs.
Proof. exact single_sections_layout_distinct. Qed.

(* C05_single_document_chain_layout: the exact chain with the symbols *)
Theorem C05_single_document_chain_layout_distinct : forall d rt w u ext0 seg,
  gen_normal d rt = Ok w -> doc_single_names_distinct d rt = true -> doc_segments d = [seg] ->
  Forall (fun x => 0 <= u_size x) u ->
  let sty := linker_symbols_style (doc_settings d) in
  let st' := layout (wo_script w) u ext0 in
  exists osecs rest hi,
    l_secs st' = (osecs ++ rest)%list /\
    SingleChain true sty cfg_normal seg (l_syms st') (single_dot0 seg) (single_secs seg) osecs hi.
Proof. exact single_chain_layout_distinct. Qed.

(* ====================================================================== *)
(* examples                                                                *)
(* ====================================================================== *)

(* the sample document of Spec/DocSingle.v (fixed_vram, alignments, a hard-coded _gp and a gp_info, a
   linker offset inside a group, a user assignment) meets the hypotheses of DocSingleWf_sufficient *)
Example ex_ds_doc_generates : is_ok (gen_normal ds_doc ex_rt) = true.
Proof. vm_compute. reflexivity. Qed.

Example ex_ds_doc_names_distinct : doc_single_names_distinct ds_doc ex_rt = true.
Proof. vm_compute. reflexivity. Qed.

(* its symbols: _gp twice (slinky's own), ".", the two halves, the user's stack_top *)
Example ex_ds_doc_symbols :
  doc_symbols_single ds_doc ex_rt =
  ["_gp"; "_gp"; "."; "main_alloc_VRAM"; "main_TEXT_START"; "boot_mid_OFFSET"; "main_TEXT_END"; "main_TEXT_SIZE";
   "main_DATA_START"; "main_DATA_END"; "main_DATA_SIZE"; "main_SDATA_START"; "main_SDATA_END"; "main_SDATA_SIZE";
   "main_alloc_VRAM_END"; "main_alloc_VRAM_SIZE"; "main_noload_VRAM"; "main_BSS_START"; "main_BSS_END";
   "main_BSS_SIZE"; "main_noload_VRAM_END"; "main_noload_VRAM_SIZE"; "stack_top"] /\
  defs "_gp" ds_script = 2%nat /\ defs "." ds_script = 1%nat /\ defs "main_TEXT_START" ds_script = 1%nat /\
  defs "stack_top" ds_script = 1%nat /\ defs "main_ROM_START" ds_script = 0%nat /\
  upds ds_script = ["."; "."; "."; "."; "."; "."; "."; "."; "."; "."].
Proof. vm_compute. repeat split; reflexivity. Qed.

(* Splat style: the sections ".text" and "_text" both define main_TEXT_START, main_TEXT_END,
   main_TEXT_SIZE *)
Example ex_clash_splat_not_distinct :
  is_ok (gen_normal dsw_clash_splat_doc ex_rt) = true /\
  count_occ string_dec (doc_symbols_single dsw_clash_splat_doc ex_rt) "main_TEXT_START" = 2%nat /\
  doc_single_names_distinct dsw_clash_splat_doc ex_rt = false /\ doc_single_wf dsw_clash_splat_doc ex_rt = false.
Proof. vm_compute. repeat split; reflexivity. Qed.

(* Makerom style: the sections ".text" and "text" both define _mainSegmentTextStart, _mainSegmentTextEnd,
   _mainSegmentTextSize; ".text" and ".data" are fine *)
Example ex_clash_makerom_not_distinct :
  is_ok (gen_normal dsw_clash_makerom_doc ex_rt) = true /\
  count_occ string_dec (doc_symbols_single dsw_clash_makerom_doc ex_rt) "_mainSegmentTextStart" = 2%nat /\
  doc_single_names_distinct dsw_clash_makerom_doc ex_rt = false /\
  doc_single_wf dsw_clash_makerom_doc ex_rt = false /\
  doc_single_names_distinct dsw_makerom_doc ex_rt = true /\ doc_single_wf dsw_makerom_doc ex_rt = true.
Proof. vm_compute. repeat split; reflexivity. Qed.

(* a user assignment named like a section START symbol (main_DATA_START), or like an END symbol
   (ds_bad_doc of Spec/DocSingle.v: main_TEXT_END) *)
Example ex_user_start_not_distinct :
  is_ok (gen_normal dsw_user_start_doc ex_rt) = true /\
  doc_single_names_distinct dsw_user_start_doc ex_rt = false /\ doc_single_wf dsw_user_start_doc ex_rt = false /\
  doc_single_names_distinct ds_bad_doc ex_rt = false /\ doc_single_wf ds_bad_doc ex_rt = false.
Proof. vm_compute. repeat split; reflexivity. Qed.

(* a section called like an allow-list entry *)
Example ex_allow_not_distinct :
  is_ok (gen_normal dsw_allow_doc ex_rt) = true /\
  doc_single_names_distinct dsw_allow_doc ex_rt = false /\ doc_single_wf dsw_allow_doc ex_rt = false.
Proof. vm_compute. repeat split; reflexivity. Qed.

(* the condition is sufficient, not necessary: doc_single_wf only looks at the START / END / SIZE symbols.
   A linker offset that a sub-group makes slinky define twice (mid_OFFSET, in the groups of .text and of
   .rodata), or a user assignment called _gp beside slinky's own _gp, is rejected by the condition and
   accepted by doc_single_wf *)
Example ex_single_not_necessary :
  count_occ string_dec (doc_symbols_single dsw_subgroup_doc ex_rt) "mid_OFFSET" = 2%nat /\
  doc_single_names_distinct dsw_subgroup_doc ex_rt = false /\ doc_single_wf dsw_subgroup_doc ex_rt = true /\
  count_occ string_dec (doc_symbols_single dsw_user_gp_doc ex_rt) "_gp" = 3%nat /\
  doc_single_names_distinct dsw_user_gp_doc ex_rt = false /\ doc_single_wf dsw_user_gp_doc ex_rt = true.
Proof. vm_compute. repeat split; reflexivity. Qed.

Print Assumptions DocSingleWf_symbols_count.
Print Assumptions DocSingleWf_named_recorded.
Print Assumptions DocSingleWf_sufficient.
Print Assumptions DocSingleWf_mode.
Print Assumptions C05_single_document_symbols_layout_distinct.
Print Assumptions C09_single_document_alignment_layout_distinct.
Print Assumptions C03_single_document_sections_layout_distinct.
Print Assumptions C05_single_document_chain_layout_distinct.
