(* C17 - Top-level statements and _gp are emitted exactly as specified (script-level part).
   Only statements, each closed by [exact]; see Proofs/C17.v. *)
From Slinky Require Import Model.Types Model.Runtime Model.Style Model.Script Model.Writer Model.Exports.
From Slinky Require Import Spec.C17 Proofs.C17.

(* ---------- the statements after the SECTIONS block ---------- *)

(* ignoring blank lines: ENTRY iff an entry is given, one assignment per included symbol
   assignment, EXTERN + ASSERT(DEFINED) per included required symbol, one ASSERT per included assert,
   each list in document order and the four groups in this order *)
Theorem C17_tail : forall rt d, strip_blank (tail_stmts rt d) = tail_spec rt d.
Proof. exact tail_stmts_strip. Qed.

(* with the blank lines: one before ENTRY and one before each group whose document list is not empty *)
Theorem C17_tail_layout : forall rt d,
  tail_stmts rt d =
  (match doc_entry d with Some e => [SBlank; SEntry e] | None => [] end) ++
  (if nonempty (doc_symbol_assignments d)
   then SBlank :: map assign_stmt (filter (fun a => should_emit rt (sa_conds a)) (doc_symbol_assignments d))
   else []) ++
  (if nonempty (doc_required_symbols d)
   then SBlank :: flat_map required_pair
                    (filter (fun r => should_emit rt (rq_conds r)) (doc_required_symbols d))
   else []) ++
  (if nonempty (doc_asserts d)
   then SBlank :: map assert_stmt (filter (fun a => should_emit rt (ae_conds a)) (doc_asserts d))
   else []).
Proof. exact tail_stmts_layout. Qed.

(* the line of an assignment statement: PROVIDE_HIDDEN / PROVIDE / HIDDEN / plain by the two flags *)
Theorem C17_wrapping : forall ind p h r sym e,
  render_stmt ind (SAssign p h r sym e) = [(indent_str ind ++ wrap_assign p h sym (render_expr e))%string].
Proof. exact render_assign_wrap. Qed.

Theorem C17_user_assignment_line : forall a,
  render_stmt 0 (assign_stmt a) = [wrap_assign (sa_provide a) (sa_hidden a) (sa_name a) (sa_value a)].
Proof. exact render_user_assign. Qed.

Theorem C17_top_level_lines : forall e n c m,
  render_stmt 0 (SEntry e) = [("ENTRY(" ++ e ++ ");")%string] /\
  render_stmt 0 (SExtern n) = [("EXTERN(" ++ n ++ ");")%string] /\
  render_stmt 0 (SAssert c m) = [("ASSERT((" ++ c ++ "), ""Error: " ++ m ++ """);")%string].
Proof. exact render_top_forms. Qed.

Example C17_tail_ex :
  render (tail_stmts ex_rt ex_doc) =
  [""; "ENTRY(entrypoint);"; ""; "PROVIDE_HIDDEN(stack_top = 0x80400000);"; "";
   "EXTERN(main);"; "ASSERT((DEFINED(main)), ""Error: Required symbol 'main' was not linked"");"; "";
   "ASSERT((boot_ROM_SIZE <= 0x1000), ""Error: boot too big"");"]%string.
Proof. vm_compute. reflexivity. Qed.

(* they follow the SECTIONS block; partial sub-scripts have none *)
Theorem C17_order_normal : forall d rt w,
  gen_normal d rt = Ok w ->
  exists body, wo_script w = version_stmts rt ++ [SSections body] ++ tail_stmts rt d.
Proof. exact order_normal. Qed.

Theorem C17_order_partial : forall d rt p,
  gen_partial d rt = Ok p ->
  (exists body, wo_script (po_main p) = version_stmts rt ++ [SSections body] ++ tail_stmts rt d) /\
  Forall (fun sub => exists body, wo_script (snd sub) = version_stmts rt ++ [SSections body]) (po_subs p).
Proof. exact order_partial. Qed.

Example C17_order_ex : is_ok (gen_normal ex_doc ex_rt) = true /\ is_ok (gen_partial ex_doc ex_rt) = true.
Proof. vm_compute. split; reflexivity. Qed.

(* ---------- _gp from gp_info ---------- *)

Theorem C17_gp_here : forall rt seg section g,
  GpHere rt seg section g -> gp_stmt rt seg section = [gp_assign g].
Proof. exact gp_stmt_here. Qed.

Theorem C17_gp_not_here : forall rt seg section,
  (forall g, ~ GpHere rt seg section g) -> gp_stmt rt seg section = [].
Proof. exact gp_stmt_not_here. Qed.

Example C17_gp_here_ex :
  GpHere ex_rt (ex_segment "boot" ex_files_boot None (Some ex_gp) no_conds) ".sdata" ex_gp.
Proof. repeat split. Qed.

Example C17_gp_not_here_ex :
  forall g, ~ GpHere ex_rt (ex_segment "boot" ex_files_boot None (Some ex_gp) no_conds) ".text" g.
Proof. intros g [H1 [_ H3]]. inversion H1; subst. discriminate. Qed.

(* where: after the two start alignments of the section group and right before its start symbol *)
Theorem C17_gp_position : forall rt sty cfg seg section,
  section_symbol_start rt sty cfg seg section =
  if section_syms cfg
  then opt_align (section_start_align seg) ++
       opt_align (lookup section (sections_start_alignment seg)) ++
       gp_stmt rt seg section ++
       [linker_symbol (segment_section_start sty (sg_name seg) section) EDot]
  else [].
Proof. exact section_symbol_start_shape. Qed.

(* ---------- the hard-coded _gp ---------- *)

Theorem C17_hardcoded : forall st,
  hardcoded_gp_stmts st =
  match hardcoded_gp_value st with Some v => [SAssign false false false "_gp" (EHex8 v)] | None => [] end.
Proof. exact hardcoded_gp_shape. Qed.

(* multi-segment scripts and the main partial script *)
Theorem C17_hardcoded_begin : forall st,
  begin_sections_body st =
  [SAssign false false false "__romPos" (ERaw "0x0")] ++ hardcoded_gp_stmts st ++ [SBlank].
Proof. exact begin_sections_shape. Qed.

Theorem C17_hardcoded_begin_multi : forall rt st cfg classes segs ws s ws',
  single_segment_mode st = false ->
  add_all_segments rt st cfg classes segs ws = Ok (s, ws') ->
  exists rest, s = [SSections (begin_sections_body st ++ rest)].
Proof. exact begins_multi. Qed.

Theorem C17_hardcoded_begin_partial : forall d rt p,
  gen_partial d rt = Ok p ->
  exists rest, wo_script (po_main p) =
               version_stmts rt ++ [SSections (begin_sections_body (doc_settings d) ++ rest)] ++ tail_stmts rt d.
Proof. exact begins_partial. Qed.

(* single-segment scripts: only when section symbols are emitted, hence not in partial sub-scripts *)
Theorem C17_hardcoded_single : forall rt st cfg classes seg ws s ws',
  add_single_segment rt st cfg classes seg ws = Ok (s, ws') ->
  exists s1 ws1 s2,
    write_single_segment rt st cfg seg (alloc_sections seg) false ws = Ok (s1, ws1) /\
    write_single_segment rt st cfg seg (noload_sections seg) true ws1 = Ok (s2, ws') /\
    s = [SSections
           ((if section_syms cfg then match hardcoded_gp_value st with
                                      | Some v => [SAssign false false false "_gp" (EHex8 v); SBlank]
                                      | None => [] end
             else []) ++
            match sg_fixed_vram seg with
            | Some v => [SAssign false false false "." (EHex8 v); SBlank] | None => [] end ++
            s1 ++ [SBlank] ++ s2 ++ [SBlank] ++ end_sections_body st classes ws')].
Proof. exact single_script_shape. Qed.

(* ---------- how many times _gp is assigned ---------- *)

(* one segment of a multi-segment script (also the main partial script, whose clone of the segment
   has the same gp_info and section lists) *)
Theorem C17_gp_count_segment : forall rt st cfg classes seg ws s ws',
  add_segment rt st cfg classes seg ws = Ok (s, ws') ->
  count_gp s = if andb (should_emit rt (sg_conds seg)) (section_syms cfg) then gp_occurrences rt seg else 0.
Proof. exact count_add_segment. Qed.

Theorem C17_gp_once_segment : forall rt st cfg classes seg ws s ws' g,
  add_segment rt st cfg classes seg ws = Ok (s, ws') ->
  should_emit rt (sg_conds seg) = true -> section_syms cfg = true ->
  sg_gp_info seg = Some g -> should_emit rt (gp_conds g) = true ->
  count_occ string_dec (alloc_sections seg ++ noload_sections seg) (gp_section g) = 1 ->
  count_gp s = 1.
Proof. exact gp_once_segment. Qed.

Example C17_gp_once_ex :
  let seg := ex_segment "boot" ex_files_boot None (Some ex_gp) no_conds in
  is_ok (add_segment ex_rt ex_settings cfg_normal [] seg ws0) = true /\
  should_emit ex_rt (sg_conds seg) = true /\ should_emit ex_rt (gp_conds ex_gp) = true /\
  count_occ string_dec (alloc_sections seg ++ noload_sections seg) (gp_section ex_gp) = 1.
Proof. vm_compute. repeat split. Qed.

Theorem C17_gp_none_segment : forall rt st cfg classes seg ws s ws',
  add_segment rt st cfg classes seg ws = Ok (s, ws') ->
  (sg_gp_info seg = None \/ exists g, sg_gp_info seg = Some g /\ should_emit rt (gp_conds g) = false) ->
  count_gp s = 0.
Proof. exact gp_none_segment. Qed.

Example C17_gp_none_ex :
  let seg := ex_segment "ovl_a" [ex_obj "a.o"] None None no_conds in
  is_ok (add_segment ex_rt ex_settings cfg_normal [] seg ws0) = true /\ sg_gp_info seg = None.
Proof. vm_compute. split; reflexivity. Qed.

(* a single-segment script; a partial sub-script never defines _gp *)
Theorem C17_gp_count_single : forall rt st cfg classes seg ws s ws',
  add_single_segment rt st cfg classes seg ws = Ok (s, ws') ->
  count_gp s = if section_syms cfg then hardcoded_count st + gp_occurrences rt seg else 0.
Proof. exact count_add_single_segment. Qed.

Theorem C17_gp_none_sub_partial : forall rt st classes seg ws s ws',
  add_single_segment rt st cfg_sub_partial classes seg ws = Ok (s, ws') -> count_gp s = 0.
Proof. exact count_sub_partial. Qed.

(* whole scripts: the hard-coded value, the included gp_info of the emitted segments, and whatever
   the user's own symbol assignments name "_gp" *)
Theorem C17_gp_count_normal : forall d rt w,
  gen_normal d rt = Ok w ->
  count_gp (wo_script w) =
  hardcoded_count (doc_settings d) +
  (if single_segment_mode (doc_settings d) then list_sum (map (gp_occurrences rt) (doc_segments d))
   else segments_gp rt (doc_segments d)) +
  user_gp rt d.
Proof. exact count_gen_normal. Qed.

Theorem C17_gp_count_partial : forall d rt p,
  gen_partial d rt = Ok p ->
  count_gp (wo_script (po_main p)) =
    hardcoded_count (doc_settings d) + segments_gp rt (doc_segments d) + user_gp rt d /\
  Forall (fun sub => count_gp (wo_script (snd sub)) = 0) (po_subs p).
Proof. exact count_gen_partial. Qed.

Example C17_gp_count_ex :
  match gen_normal ex_doc ex_rt with Ok w => count_gp (wo_script w) = 2 | Err _ => False end.
Proof. vm_compute. reflexivity. Qed.

Print Assumptions C17_tail.
Print Assumptions C17_tail_layout.
Print Assumptions C17_wrapping.
Print Assumptions C17_user_assignment_line.
Print Assumptions C17_top_level_lines.
Print Assumptions C17_order_normal.
Print Assumptions C17_order_partial.
Print Assumptions C17_gp_here.
Print Assumptions C17_gp_not_here.
Print Assumptions C17_gp_position.
Print Assumptions C17_hardcoded.
Print Assumptions C17_hardcoded_begin.
Print Assumptions C17_hardcoded_begin_multi.
Print Assumptions C17_hardcoded_begin_partial.
Print Assumptions C17_hardcoded_single.
Print Assumptions C17_gp_count_segment.
Print Assumptions C17_gp_once_segment.
Print Assumptions C17_gp_none_segment.
Print Assumptions C17_gp_count_single.
Print Assumptions C17_gp_none_sub_partial.
Print Assumptions C17_gp_count_normal.
Print Assumptions C17_gp_count_partial.
