(* C19, second sentence - "whenever generation succeeds for a document whose names are valid linker
   identifiers, the produced script is syntactically accepted by GNU ld and LLVM lld".

   Acceptance by the two linkers is executed on samples.  Here, at model level, every generated script is
   shown to belong to an explicit grammar of the linker-script subset that slinky emits (Spec/C19Grammar.v):

     wf_script  (AST level)    every field of every statement is of the right lexical class and every
                               statement stands at a nesting level where the grammar allows it;
     wf_lines   (TEXT level)   a reader of the rendered lines, which knows nothing of the AST, cuts each
                               line into tokens, finds one of the shapes of the grammar in every line,
                               and finds the blocks properly nested.

   C19G_text            wf_script l -> wf_lines (render l)             for ALL scripts l
   C19_generated_wf     gen_normal succeeds on a document with valid names -> wf_script of its script
   C19_generated_lines  ... -> wf_lines of the rendered script
   and the same two for the main script and every sub-script of gen_partial.

   Route.  The alternative "re-read the rendered text with a parser and get the AST back" is not available:
   [render] is not injective (the AST records where a text comes from: slinky's own symbol or user text, an
   ALIGN statement or an assignment whose value happens to be ALIGN(..), a 32-bit offset or the same offset
   plus 2^32 ...), see C19G_render_not_injective.  The text-level reader is the converse direction: it
   accepts only texts of the grammar, and all rendered well-formed scripts are accepted.

   What the grammar does NOT say: that user-supplied expression text is an expression of the linker (it is a
   balanced "soup" without ; { } and strings); that names differ from the keywords of the language.
   Only statements, each closed by [exact]; see Proofs/C19Grammar.v. *)
From Slinky Require Import Model.Types Model.Runtime Model.Script Model.Writer.
From Slinky Require Import Spec.C18 Spec.C14 Proofs.C14 Spec.DocLevel Spec.DocWitness.
From Slinky Require Import Spec.C19Grammar Proofs.C19Grammar.
Local Open Scope string_scope.

(* ---------- AST level to TEXT level, all scripts ---------- *)

(* the reader consumes the lines of a well-formed statement and is back where it was: same nesting level, no
   header pending (all statements, all levels, all indentations) *)
Theorem C19G_stmt : forall s lv ind,
  wf_stmt lv s = true -> run (lv, false) (render_stmt ind s) = Some (lv, false).
Proof. exact render_stmt_consumed. Qed.

Theorem C19G_text : forall l, wf_script l = true -> wf_lines (render l) = true.
Proof. exact wf_script_lines. Qed.

(* every expression slinky builds itself is, once rendered, a text of the class asked of user text *)
Theorem C19G_expr_safe : forall e, wf_expr e = true -> safe_text (render_expr e) = true.
Proof. exact wf_expr_safe. Qed.

(* ---------- generated scripts ---------- *)

(* gen_normal, both modes (multi-segment and single_segment_mode), all documents and run-time settings *)
Theorem C19_generated_wf : forall d rt w,
  gen_normal d rt = Ok w -> doc_names_valid d rt = true -> wf_script (wo_script w) = true.
Proof. exact gen_normal_wf. Qed.

Theorem C19_generated_lines : forall d rt w,
  gen_normal d rt = Ok w -> doc_names_valid d rt = true -> wf_lines (render (wo_script w)) = true.
Proof. exact gen_normal_lines. Qed.

(* gen_partial: the main script and the script of every segment *)
Theorem C19_generated_wf_partial : forall d rt p,
  gen_partial d rt = Ok p -> doc_names_valid_partial d rt = true ->
  wf_script (wo_script (po_main p)) = true /\
  Forall (fun x => wf_script (wo_script (snd x)) = true) (po_subs p).
Proof. exact gen_partial_wf. Qed.

Theorem C19_generated_lines_partial : forall d rt p,
  gen_partial d rt = Ok p -> doc_names_valid_partial d rt = true ->
  wf_lines (render (wo_script (po_main p))) = true /\
  Forall (fun x => wf_lines (render (wo_script (snd x))) = true) (po_subs p).
Proof. exact gen_partial_lines. Qed.

(* ---------- the hypothesis on paths, for paths written without {option} ---------- *)

(* [doc_names_valid] looks at the paths AFTER the substitution of the custom options.  A path that is
   already a path of the grammar (so without brace) is kept as it is *)
Theorem C19G_plain_file : forall rt p, is_path p = true -> escaped_file_ok rt p = true.
Proof. exact plain_file_ok. Qed.

Theorem C19G_plain_dir : forall rt p, str_all path_char p = true -> escaped_dir_ok rt p = true.
Proof. exact plain_dir_ok. Qed.

(* ---------- examples ---------- *)

(* the sample document of Spec/DocLevel.v: hypothesis, generation, conclusions *)
Example C19G_dl_valid : doc_names_valid dl_doc ex_rt = true.
Proof. vm_compute. reflexivity. Qed.
Example C19G_dl_generates : is_ok (gen_normal dl_doc ex_rt) = true.
Proof. vm_compute. reflexivity. Qed.
Example C19G_dl_wf : wf_script dl_script = true /\ wf_lines (render dl_script) = true.
Proof. vm_compute. split; reflexivity. Qed.

(* the parsed witness document of Spec/DocWitness.v (a custom option in base_path, a group with a dir, an
   archive member, sub-groups, section_order, two classes): normal, single-segment and partial generation *)
Example C19G_wit_valid :
  doc_names_valid wit_doc wit_rt = true /\ doc_names_valid wit_doc_single wit_rt = true /\
  doc_names_valid_partial wit_doc wit_rt = true.
Proof. vm_compute. repeat split; reflexivity. Qed.
Example C19G_wit_generates :
  gen_normal wit_doc wit_rt = Ok wit_w /\ gen_normal wit_doc_single wit_rt = Ok wit_w_single /\
  gen_partial wit_doc wit_rt = Ok wit_p.
Proof. vm_compute. repeat split; reflexivity. Qed.
Example C19G_wit_wf :
  wf_script (wo_script wit_w) = true /\ wf_lines (render (wo_script wit_w)) = true /\
  wf_script (wo_script wit_w_single) = true /\ wf_lines (render (wo_script wit_w_single)) = true.
Proof. vm_compute. repeat split; reflexivity. Qed.
Example C19G_wit_partial_wf :
  wf_lines (render (wo_script (po_main wit_p))) = true /\
  forallb (fun x => wf_script (wo_script (snd x)) && wf_lines (render (wo_script (snd x)))) (po_subs wit_p) = true /\
  List.length (po_subs wit_p) = 5.
Proof. vm_compute. repeat split; reflexivity. Qed.

(* the rendering quoted by the audit (balanced braces, nothing else right) is refused, and so is each of its
   three wrong lines: a header without a name, an assignment without target and with parentheses that do
   not match, ENTRY without a symbol *)
Example C19G_junk_refused : wf_lines junk_lines = false.
Proof. vm_compute. reflexivity. Qed.
Example C19G_junk_lines :
  classify LTop " :" = None /\ classify LSec " :" = None /\
  classify LSec "     = )))(((;" = None /\ classify LTop "ENTRY();" = None.
Proof. vm_compute. repeat split; reflexivity. Qed.

(* single lines: accepted shapes and near misses *)
Example C19G_lines_accepted :
  classify LTop "ENTRY(main);" = Some KStmt /\
  classify LSec "    .boot 0x80000400 : AT(boot_ROM_START) SUBALIGN(8)" = Some KHeader /\
  classify LSec "    .boot.noload (NOLOAD) :" = Some KHeader /\
  classify LOut "        KEEP(build/lib/libc.a:mem.o(.text*));" = Some KStmt /\
  classify LSec "    boot_SIZE = ABSOLUTE(boot_END - boot_START);" = Some KStmt /\
  classify LTop "ASSERT((a <= (b + 1)), ""Error: too big"");" = Some KStmt /\
  classify LSec "    .mdebug 0 : { *(.mdebug); }" = Some KStmt /\
  classify LTop "/* Generated by slinky 0.3.1 */" = Some KBlank.
Proof. vm_compute. repeat split; reflexivity. Qed.
Example C19G_lines_refused :
  classify LOut "        build/a b.o(.text*);" = None /\          (* a space in a path *)
  classify LOut "        build/a.o(.te;xt);" = None /\            (* a ';' in a section name *)
  classify LSec "    a b_ROM_START = __romPos;" = None /\         (* a space in a symbol *)
  classify LSec "    x = (1;" = None /\                           (* a parenthesis left open *)
  classify LSec "    x = 1 /* ;" = None /\                        (* a comment left open *)
  classify LSec "    x = ""a"";" = None /\                        (* a string in an expression *)
  classify LTop "    . = 1;" = None /\                            (* the location counter outside SECTIONS *)
  classify LTop "    build/a.o(.text);" = None /\                 (* an input section outside an output section *)
  classify LSec "    9lives = 1;" = None /\                       (* a symbol that starts with a digit *)
  classify LTop "ASSERT((1), ""unclosed);" = None /\              (* a string left open *)
  classify LTop "ENTRY(main)" = None.                             (* no ';' *)
Proof. vm_compute. repeat split; reflexivity. Qed.
(* nesting *)
Example C19G_nesting_refused :
  wf_lines ["SECTIONS"; "{"] = false /\ wf_lines ["SECTIONS"; "x = 1;"; "{"; "}"] = false /\
  wf_lines ["{"; "}"] = false /\ wf_lines ["SECTIONS"; "{"; "SECTIONS"; "{"; "}"; "}"] = false /\
  wf_lines ["SECTIONS"; "{"; ".a :"; "{"; "}"; "}"; "}"] = false /\
  wf_lines ["SECTIONS"; "{"; ".a :"; "{"; "b.o(.text);"; "}"; "}"] = true.
Proof. vm_compute. repeat split; reflexivity. Qed.

(* a segment called "a b", a section called "x;y": the document is not valid, generation succeeds, and the
   script is well-formed neither at AST level nor at text level; the same document with sound names is *)
Example C19G_bad_space :
  doc_names_valid bad_doc_space rt_plain = false /\ is_ok (gen_normal bad_doc_space rt_plain) = true /\
  wf_script (script_of bad_doc_space rt_plain) = false /\
  wf_lines (render (script_of bad_doc_space rt_plain)) = false.
Proof. vm_compute. repeat split; reflexivity. Qed.
Example C19G_bad_semi :
  doc_names_valid bad_doc_semi rt_plain = false /\ is_ok (gen_normal bad_doc_semi rt_plain) = true /\
  wf_script (script_of bad_doc_semi rt_plain) = false /\
  wf_lines (render (script_of bad_doc_semi rt_plain)) = false.
Proof. vm_compute. repeat split; reflexivity. Qed.
Example C19G_good_small :
  doc_names_valid good_doc_small rt_plain = true /\
  wf_script (script_of good_doc_small rt_plain) = true /\
  wf_lines (render (script_of good_doc_small rt_plain)) = true.
Proof. vm_compute. repeat split; reflexivity. Qed.

(* why not a round trip: different ASTs, the same text *)
Example C19G_render_not_injective :
  Forall (fun p => render (fst p) = render (snd p) /\ fst p <> snd p) same_text_pairs.
Proof. repeat constructor; try (vm_compute; reflexivity); discriminate. Qed.

Print Assumptions C19G_stmt.
Print Assumptions C19G_text.
Print Assumptions C19G_expr_safe.
Print Assumptions C19_generated_wf.
Print Assumptions C19_generated_lines.
Print Assumptions C19_generated_wf_partial.
Print Assumptions C19_generated_lines_partial.
Print Assumptions C19G_plain_file.
Print Assumptions C19G_plain_dir.
Print Assumptions C19G_dl_wf.
Print Assumptions C19G_wit_wf.
Print Assumptions C19G_junk_refused.
Print Assumptions C19G_render_not_injective.
