(* C13, link level - the names the symbols header declares are defined in the layout.
   Only statements, each closed by [exact]; see Proofs/C13Link.v. *)
From Slinky Require Import Model.Types Model.Runtime Model.Style Model.Script Model.Writer Model.Exports Model.LdSem.
From Slinky Require Import Spec.C13 Spec.C04 Proofs.C13Link.
From Coq Require Import ZArith.
Local Open Scope string_scope.
Local Open Scope Z_scope.

(* C13_defined: for ANY script, in a final pass (whatever the previous pass and the objects) that ends
   without error, every non-PROVIDE recorded assignment that LdSem executes - at top level, directly
   inside SECTIONS or inside an output section - has defined its symbol *)
Theorem C13_defined : forall env senv ext script st sym,
  let st' := exec_script env senv ext true script st in
  l_errors st' = [] -> In sym (exec_recorded script) -> exists v, lookup sym (l_syms st') = Some v.
Proof. exact recorded_defined. Qed.

(* for a flat script the executed recorded assignments are all the recorded assignments ... *)
Theorem C13_recorded_flat : forall script,
  script_flat script = true -> recorded_syms script = exec_recorded script.
Proof. exact exec_recorded_flat. Qed.

(* ... and the scripts slinky writes are flat (both modes) *)
Theorem C13_script_flat : forall d rt w, gen_normal d rt = Ok w -> script_flat (wo_script w) = true.
Proof. exact flat_gen_normal. Qed.

(* hence every name the header declares is defined by a final pass that ends without error *)
Theorem C13_header_defined : forall env senv ext d rt w st sym,
  gen_normal d rt = Ok w ->
  let st' := exec_script env senv ext true (wo_script w) st in
  l_errors st' = [] -> In sym (linker_symbols w) -> exists v, lookup sym (l_syms st') = Some v.
Proof. exact header_symbols_defined. Qed.

Theorem C13_header_defined_layout : forall d rt w u ext0 sym,
  gen_normal d rt = Ok w ->
  let st' := layout (wo_script w) u ext0 in
  l_errors st' = [] -> In sym (linker_symbols w) -> exists v, lookup sym (l_syms st') = Some v.
Proof. exact header_symbols_defined_layout. Qed.

(* the sample document: the link ends without error and its 52 header names are all defined *)
Example ex_header_defined :
  match gen_normal ex_doc ex_rt with
  | Ok w =>
      let st := layout (wo_script w) ex_universe [("main", 5)] in
      l_errors st = [] /\ List.length (linker_symbols w) = 52%nat /\
      forallb (fun x => is_some (lookup x (l_syms st))) (linker_symbols w) = true
  | Err _ => False
  end.
Proof. vm_compute. repeat split; reflexivity. Qed.

(* without the required symbol "main" among the objects the link fails, and the theorem says nothing *)
Example ex_link_fails :
  match gen_normal ex_doc ex_rt with
  | Ok w => l_errors (layout (wo_script w) ex_universe []) <> []
  | Err _ => False
  end.
Proof. vm_compute. discriminate. Qed.

Print Assumptions C13_defined.
Print Assumptions C13_recorded_flat.
Print Assumptions C13_script_flat.
Print Assumptions C13_header_defined.
Print Assumptions C13_header_defined_layout.
