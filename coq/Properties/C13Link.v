(* C13, link level - the names the symbols header declares are defined in the layout.
   Only statements, each closed by [exact]; see Proofs/C13Link.v. *)
From Slinky Require Import Model.Types Model.Runtime Model.Style Model.Script Model.Writer Model.Exports Model.LdSem.
From Slinky Require Import Spec.C13 Spec.C04 Proofs.C13Link.
From Coq Require Import ZArith.
Local Open Scope string_scope.
Local Open Scope Z_scope.

(* C13_defined: for ANY script, in a final pass (whatever the previous pass and the objects) that ends
   without error, every non-PROVIDE recorded assignment that LdSem executes - at top level, directly
   inside SECTIONS or inside an output section - has defined its symbol *)
Theorem C13_defined : forall env senv ext script st sym,
  let st' := exec_script env senv ext true script st in
  l_errors st' = [] -> In sym (exec_recorded script) -> exists v, lookup sym (l_syms st') = Some v.
Proof. exact recorded_defined. Qed.

(* for a flat script the executed recorded assignments are all the recorded assignments ... *)
Theorem C13_recorded_flat : forall script,
  script_flat script = true -> recorded_syms script = exec_recorded script.
Proof. exact exec_recorded_flat. Qed.

(* ... and the scripts slinky writes are flat (both modes) *)
Theorem C13_script_flat : forall d rt w, gen_normal d rt = Ok w -> script_flat (wo_script w) = true.
Proof. exact flat_gen_normal. Qed.

(* hence every name the header declares is defined by a final pass that ends without error *)
Theorem C13_header_defined : forall env senv ext d rt w st sym,
  gen_normal d rt = Ok w ->
  let st' := exec_script env senv ext true (wo_script w) st in
  l_errors st' = [] -> In sym (linker_symbols w) -> exists v, lookup sym (l_syms st') = Some v.
Proof. exact header_symbols_defined. Qed.

Theorem C13_header_defined_layout : forall d rt w u ext0 sym,
  gen_normal d rt = Ok w ->
  let st' := layout (wo_script w) u ext0 in
  l_errors st' = [] -> In sym (linker_symbols w) -> exists v, lookup sym (l_syms st') = Some v.
Proof. exact header_symbols_defined_layout. Qed.

(* the sample document: the link ends without error and its 52 header names are all defined *)
Example ex_header_defined :
  match gen_normal ex_doc ex_rt with
  | Ok w =>
      let st := layout (wo_script w) ex_universe [("main", 5)] in
      l_errors st = [] /\ List.length (linker_symbols w) = 52%nat /\
      forallb (fun x => is_some (lookup x (l_syms st))) (linker_symbols w) = true
  | Err _ => False
  end.
Proof. vm_compute. repeat split; reflexivity. Qed.

(* without the required symbol "main" among the objects the link fails, and the theorem says nothing *)
Example ex_link_fails :
  match gen_normal ex_doc ex_rt with
  | Ok w => l_errors (layout (wo_script w) ex_universe []) <> []
  | Err _ => False
  end.
Proof. vm_compute. discriminate. Qed.

(* ---------- partial linking ---------- *)

(* the main script of a partial build is flat, and so is each per-segment script *)
Theorem C13_script_flat_partial : forall d rt p,
  gen_partial d rt = Ok p ->
  script_flat (wo_script (po_main p)) = true /\
  Forall (fun sub => script_flat (wo_script (snd sub)) = true) (po_subs p).
Proof. exact flat_gen_partial. Qed.

(* the header of a partial build is [header_text rt st (po_main p)] (save_other_files_partial hands the
   main writer to save_other_files_normal), it declares [linker_symbols (po_main p)]: every such name is
   defined by a final pass over the main script that ends without error *)
Theorem C13_header_defined_partial : forall env senv ext d rt p st sym,
  gen_partial d rt = Ok p ->
  let st' := exec_script env senv ext true (wo_script (po_main p)) st in
  l_errors st' = [] -> In sym (linker_symbols (po_main p)) -> exists v, lookup sym (l_syms st') = Some v.
Proof. exact header_symbols_defined_partial. Qed.

Theorem C13_header_defined_partial_layout : forall d rt p u ext0 sym,
  gen_partial d rt = Ok p ->
  let st' := layout (wo_script (po_main p)) u ext0 in
  l_errors st' = [] -> In sym (linker_symbols (po_main p)) -> exists v, lookup sym (l_syms st') = Some v.
Proof. exact header_symbols_defined_partial_layout. Qed.

(* the per-segment scripts: whatever such a script records is defined by a final pass over it *)
Theorem C13_sub_defined_partial : forall env senv ext d rt p name w st sym,
  gen_partial d rt = Ok p -> In (name, w) (po_subs p) ->
  let st' := exec_script env senv ext true (wo_script w) st in
  l_errors st' = [] -> In sym (linker_symbols w) -> exists v, lookup sym (l_syms st') = Some v.
Proof. exact sub_symbols_defined_partial. Qed.

(* the header the partial command writes is the header of the main writer *)
Example ex_partial_header_is_main :
  match gen_partial ex_doc ex_rt with
  | Ok p =>
      match save_other_files_partial ex_rt (doc_settings ex_doc) p with
      | Ok ws => lookup "include/syms.h" ws = Some (header_text ex_rt (doc_settings ex_doc) (po_main p))
      | Err _ => False
      end
  | Err _ => False
  end.
Proof. vm_compute. reflexivity. Qed.

(* the partial objects of the sample document (what `ld -r` makes of the two sub-scripts) *)
Definition ex_universe_partial : list usec :=
  [USec "build/segments/boot.o" None ".text" 64 16 false "boot_text";
   USec "build/segments/boot.o" None ".data" 12 8 false "boot_data";
   USec "build/segments/boot.o" None ".bss" 108 8 true "boot_bss";
   USec "build/segments/ovl_a.o" None ".text" 24 4 false "a_text";
   USec "build/segments/ovl_a.o" None ".bss" 8 4 true "a_bss"].

(* the sample document in partial mode: both scripts of the two segments and the main script are flat, the
   link of the main script ends without error, and the header names are all defined *)
Example ex_header_defined_partial :
  match gen_partial ex_doc ex_rt with
  | Ok p =>
      let st := layout (wo_script (po_main p)) ex_universe_partial [("main", 5)] in
      script_flat (wo_script (po_main p)) = true /\
      map (fun sub => script_flat (wo_script (snd sub))) (po_subs p) = [true; true] /\
      l_errors st = [] /\ List.length (linker_symbols (po_main p)) = 51%nat /\
      forallb (fun x => is_some (lookup x (l_syms st))) (linker_symbols (po_main p)) = true
  | Err _ => False
  end.
Proof. vm_compute. repeat split; reflexivity. Qed.

(* observation: a linker_offset entry is written (and recorded) in the per-segment script only, so the header
   of a partial build - taken from the main writer - has one name less than the ordinary header *)
Example ex_partial_header_without_offsets :
  match gen_normal ex_doc ex_rt, gen_partial ex_doc ex_rt with
  | Ok w, Ok p =>
      filter (fun x => negb (mem_str x (linker_symbols (po_main p)))) (linker_symbols w) = ["boot_mid_OFFSET"] /\
      flat_map (fun sub => linker_symbols (snd sub)) (po_subs p) = ["boot_mid_OFFSET"]
  | _, _ => False
  end.
Proof. vm_compute. split; reflexivity. Qed.

(* without the required symbol "main" the link of the main script fails, and the theorem says nothing *)
Example ex_link_fails_partial :
  match gen_partial ex_doc ex_rt with
  | Ok p => l_errors (layout (wo_script (po_main p)) ex_universe_partial []) <> []
  | Err _ => False
  end.
Proof. vm_compute. discriminate. Qed.

Print Assumptions C13_defined.
Print Assumptions C13_recorded_flat.
Print Assumptions C13_script_flat.
Print Assumptions C13_header_defined.
Print Assumptions C13_header_defined_layout.
Print Assumptions C13_script_flat_partial.
Print Assumptions C13_header_defined_partial.
Print Assumptions C13_header_defined_partial_layout.
Print Assumptions C13_sub_defined_partial.
