(* C02OrderSingle - "After linking, the addresses of the placed input sections never decrease along exactly
   that order" for SINGLE-SEGMENT scripts: gen_normal in single-segment mode, and the per-segment scripts of
   a partial build.  Properties/C02Order.v (C02_document_order) covers multi-segment ordinary scripts.
   Only statements, each closed by [exact]; see Proofs/C02OrderSingle.v; definitions: Spec/ModesListed.v
   ([SingleClaimAt], [single_first_matched_at]) and Spec/C02Order.v ([KidsAt], [lex_lt], [placed_in_order]).

   In this mode every configured section is an output section of its own, so "within each segment" splits in
   two: INSIDE the output section of a configured section the addresses follow the order of the file list
   (here); BETWEEN output sections the order is that of alloc_sections ++ noload_sections
   (C03_single_document_sections: each output section starts at or after the end of the previous one, and
   every placement lies inside its output section, C05_single_document_symbols / C01_..._listed_in_section).
   A position is h :: i :: path: the half, the index of the configured section in the half's list, then the
   position in the file list asked for that section (entry, section of its expansion, entry of the group ...).
   The output sections have no address expression: no error condition. *)
From Slinky Require Import Model.Types Model.Runtime Model.Style Model.Script Model.Writer Model.LdSem.
From Slinky Require Import Spec.C18 Spec.C04 Spec.C09 Spec.C01 Spec.C11 Spec.DocLevel Spec.C01Doc Spec.C01Listed
                           Spec.DocSingle Spec.DocPartial Spec.C02Order Spec.ModesListed.
From Slinky Require Import Proofs.C02OrderSingle.
From Coq Require Import ZArith.
Local Open Scope string_scope.
Local Open Scope Z_scope.

(* ====================================================================== *)
(* 1. any script: two statements of an output section without address      *)
(* ====================================================================== *)

(* C02_same_outsec_addresses without the error condition: an output section written without address
   expression cannot fail *)
Theorem C02_same_outsec_addresses_noaddr : forall env senv ext final script u A name at_ noload sub
        b1 k1 p1 m1 s1 w1 b2 k2 p2 m2 s2 w2 b3 B x y,
  let body := (b1 ++ SInput k1 p1 m1 s1 w1 :: b2 ++ SInput k2 p2 m2 s2 w2 :: b3)%list in
  let pre := (flat_map top_claims A ++ body_claims name b1)%list in
  let st' := exec_script env senv ext final script (init_state u) in
  flat_stmts script = (A ++ SOutSec name None at_ noload sub body :: B)%list ->
  Forall (fun z => 0 <= u_size z) u -> In x u -> In y u ->
  (forall c, In c pre -> claim_matches c x = false) -> sel false p1 m1 s1 w1 x = true ->
  (forall c, In c (pre ++ CInput name p1 m1 s1 w1 :: body_claims name b2) -> claim_matches c y = false) ->
  sel false p2 m2 s2 w2 y = true ->
  placed_in_order (l_placed st') name x y (dot_adds b2).
Proof. exact same_outsec_addresses_noaddr. Qed.

(* ====================================================================== *)
(* 2. the claims of the script, enumerated by their positions              *)
(* ====================================================================== *)

(* single-segment mode: the claims before the tail are exactly the (position, claim) pairs of
   [SingleClaimAt], in lexicographic order of the positions *)
Theorem C02_single_document_claims_enumerated : forall rt d w seg,
  gen_normal d rt = Ok w -> single_segment_mode (doc_settings d) = true -> doc_segments d = [seg] ->
  exists A, script_claims (wo_script w) = (A ++ tail_claims (doc_settings d))%list /\
            Enumerated no_filler A (SingleClaimAt rt cfg_normal d seg).
Proof. exact single_document_claims_enumerated. Qed.

(* any add_single_segment (any configuration: also the per-segment scripts) *)
Theorem C02_single_segment_claims_enumerated : forall rt d cfg seg ws s ws',
  add_single_segment rt (doc_settings d) cfg (doc_vram_classes d) seg ws = Ok (s, ws') ->
  exists A, flat_map top_claims (flat_stmts s) = (A ++ tail_claims (doc_settings d))%list /\
            Enumerated no_filler A (SingleClaimAt rt cfg d seg).
Proof. exact add_single_claims_enumerated. Qed.

(* a way to establish [single_first_matched_at]: the statement [c] is not written again later in the script
   and no statement before it matches [x] (both read off the script) *)
Theorem C02_single_first_matched_once : forall rt d w seg pos c x pre post,
  gen_normal d rt = Ok w -> single_segment_mode (doc_settings d) = true -> doc_segments d = [seg] ->
  SingleClaimAt rt cfg_normal d seg pos c -> claim_matches c x = true ->
  script_claims (wo_script w) = (pre ++ c :: post)%list -> unclaimed pre x = true -> ~ In c post ->
  single_first_matched_at rt cfg_normal d seg pos c x.
Proof. exact single_first_matched_once. Qed.

Theorem C02_single_claim_at_shape : forall rt cfg d seg pos c,
  SingleClaimAt rt cfg d seg pos c -> exists h i j m r, pos = h :: i :: j :: m :: r.
Proof. exact single_claim_at_shape. Qed.

(* the statement of a plain leaf (no section_order, no sub-group for the section) at the top level of the
   file list, and one level down in a plain group *)
Theorem C02_single_claim_at_top : forall rt cfg d seg nl b i section j f kp path member wild,
  mode_base rt cfg d seg b ->
  nth_error (part_sections seg nl) i = Some section -> nth_error (sg_files seg) j = Some f ->
  fi_section_order f = [] -> entry_members cfg seg f section = [] ->
  should_emit rt (fi_conds f) = true -> fi_kind f <> KGroup ->
  In (SInput kp path member section wild)
     (own_stmts rt (linker_symbols_style (doc_settings d)) seg f section b) ->
  SingleClaimAt rt cfg d seg [half_index nl; i; j; 0%nat] (CInput section path member section wild).
Proof. exact single_claim_at_top. Qed.

Theorem C02_single_claim_at_in_group : forall rt cfg d seg nl b i section j grp dd j2 f kp path member wild,
  mode_base rt cfg d seg b ->
  nth_error (part_sections seg nl) i = Some section -> nth_error (sg_files seg) j = Some grp ->
  fi_section_order grp = [] -> should_emit rt (fi_conds grp) = true -> fi_kind grp = KGroup ->
  escape_path rt (fi_dir grp) = Ok dd -> nth_error (fi_files grp) j2 = Some f ->
  fi_section_order f = [] -> entry_members cfg seg f section = [] ->
  should_emit rt (fi_conds f) = true -> fi_kind f <> KGroup ->
  In (SInput kp path member section wild)
     (own_stmts rt (linker_symbols_style (doc_settings d)) seg f section (push b dd)) ->
  SingleClaimAt rt cfg d seg [half_index nl; i; j; 0%nat; j2; 0%nat] (CInput section path member section wild).
Proof. exact single_claim_at_in_group. Qed.

(* ====================================================================== *)
(* 3. the order of the file list implies the order of the addresses        *)
(* ====================================================================== *)

(* single-segment mode; [section] the i-th section of half [nl] of the one segment; q1 before q2 in the file
   list asked for [section] (entries depth-first in file-list order, then the sections of an entry's
   expansion); [x] first matched - among ALL statements of the script - by the statement at h :: i :: q1,
   [y] by the one at h :: i :: q2; sizes >= 0.  Then l_placed = l1 ++ px :: l2 ++ py :: l3, px the placement
   of [x], py that of [y], both in the output section [section], and addr(x) + size(x) <= addr(y) *)
Theorem C02_single_document_order : forall env senv ext final d rt w u seg nl i section q1 q2 c1 c2 x y,
  gen_normal d rt = Ok w -> single_segment_mode (doc_settings d) = true -> doc_segments d = [seg] ->
  Forall (fun z => 0 <= u_size z) u -> In x u -> In y u ->
  nth_error (part_sections seg nl) i = Some section ->
  lex_lt q1 q2 ->
  single_first_matched_at rt cfg_normal d seg (half_index nl :: i :: q1) c1 x ->
  single_first_matched_at rt cfg_normal d seg (half_index nl :: i :: q2) c2 y ->
  let st' := exec_script env senv ext final (wo_script w) (init_state u) in
  placed_in_order (l_placed st') section x y 0.
Proof. exact single_document_order. Qed.

Theorem C02_single_document_order_layout : forall d rt w u ext0 seg nl i section q1 q2 c1 c2 x y,
  gen_normal d rt = Ok w -> single_segment_mode (doc_settings d) = true -> doc_segments d = [seg] ->
  Forall (fun z => 0 <= u_size z) u -> In x u -> In y u ->
  nth_error (part_sections seg nl) i = Some section ->
  lex_lt q1 q2 ->
  single_first_matched_at rt cfg_normal d seg (half_index nl :: i :: q1) c1 x ->
  single_first_matched_at rt cfg_normal d seg (half_index nl :: i :: q2) c2 y ->
  let st' := layout (wo_script w) u ext0 in
  placed_in_order (l_placed st') section x y 0.
Proof. exact single_document_order_layout. Qed.

(* a pad (". += n") of the file list between the two statements: the gap is at least n *)
Theorem C02_single_document_order_pad : forall env senv ext final d rt w u seg nl i section b q1 qp q2 c1 c2 x y n,
  gen_normal d rt = Ok w -> single_segment_mode (doc_settings d) = true -> doc_segments d = [seg] ->
  Forall (fun z => 0 <= u_size z) u -> In x u -> In y u ->
  nth_error (part_sections seg nl) i = Some section ->
  lex_lt q1 qp -> lex_lt qp q2 ->
  mode_base rt cfg_normal d seg b ->
  KidsAt rt (linker_symbols_style (doc_settings d)) cfg_normal seg (part_sections seg nl) (sg_files seg) section b qp
         (SDotAdd n) ->
  single_first_matched_at rt cfg_normal d seg (half_index nl :: i :: q1) c1 x ->
  single_first_matched_at rt cfg_normal d seg (half_index nl :: i :: q2) c2 y ->
  let st' := exec_script env senv ext final (wo_script w) (init_state u) in
  placed_in_order (l_placed st') section x y (Z.of_N n).
Proof. exact single_document_order_pad. Qed.

(* the per-segment scripts of a partial build: every (name, w) of po_subs is the script of an included
   segment called name for which the same holds under cfg_sub_partial *)
Theorem C02_partial_sub_order : forall env senv ext final d rt p name w u,
  gen_partial d rt = Ok p -> In (name, w) (po_subs p) ->
  exists seg, In seg (doc_segments d) /\ should_emit rt (sg_conds seg) = true /\ name = sg_name seg /\
    forall nl i section q1 q2 c1 c2 x y,
      Forall (fun z => 0 <= u_size z) u -> In x u -> In y u ->
      nth_error (part_sections seg nl) i = Some section ->
      lex_lt q1 q2 ->
      single_first_matched_at rt cfg_sub_partial d seg (half_index nl :: i :: q1) c1 x ->
      single_first_matched_at rt cfg_sub_partial d seg (half_index nl :: i :: q2) c2 y ->
      placed_in_order (l_placed (exec_script env senv ext final (wo_script w) (init_state u))) section x y 0.
Proof. exact partial_sub_order. Qed.

(* ====================================================================== *)
(* examples                                                                *)
(* ====================================================================== *)

(* positions in ds_doc (file list: boot.o, the group lib [libc.a:mem.o, util.o], a pad, a linker offset,
   boot.o AGAIN): boot.o is at entries 0 and 4; util.o is entry 1 of entry 1 *)
Example C02_single_positions_example :
  SingleClaimAt ex_rt cfg_normal ds_doc ds_segment [0; 0; 0; 0]%nat (CInput ".text" "build/src/boot.o" None ".text" true) /\
  SingleClaimAt ex_rt cfg_normal ds_doc ds_segment [0; 0; 4; 0]%nat (CInput ".text" "build/src/boot.o" None ".text" true) /\
  SingleClaimAt ex_rt cfg_normal ds_doc ds_segment [0; 0; 1; 0; 1; 0]%nat (CInput ".text" "build/src/lib/util.o" None ".text" true) /\
  SingleClaimAt ex_rt cfg_normal ds_doc ds_segment [1; 0; 1; 0; 1; 0]%nat (CInput ".bss" "build/src/lib/util.o" None ".bss" true).
Proof. exact ds_positions. Qed.

Example C02_single_first_matched_example :
  single_first_matched_at ex_rt cfg_normal ds_doc ds_segment [0; 0; 0; 0]%nat
                          (CInput ".text" "build/src/boot.o" None ".text" true) ds_boot_text /\
  single_first_matched_at ex_rt cfg_normal ds_doc ds_segment [0; 0; 1; 0; 1; 0]%nat
                          (CInput ".text" "build/src/lib/util.o" None ".text" true) ds_util_text.
Proof. split; [exact ds_first_boot_text | exact ds_first_util_text]. Qed.

(* the hypotheses of C02_single_document_order_layout hold for boot_text and util_text of ds_universe: in the
   output section .text, boot_text (40 bytes at 2147484672) comes before util_text (at 2147484712) *)
Example C02_single_document_order_example :
  exists w, gen_normal ds_doc ex_rt = Ok w /\
    placed_in_order (l_placed (layout (wo_script w) ds_universe [("main", 5)])) ".text" ds_boot_text ds_util_text 0.
Proof. exact ds_order. Qed.

Print Assumptions C02_same_outsec_addresses_noaddr.
Print Assumptions C02_single_document_claims_enumerated.
Print Assumptions C02_single_segment_claims_enumerated.
Print Assumptions C02_single_first_matched_once.
Print Assumptions C02_single_claim_at_shape.
Print Assumptions C02_single_claim_at_top.
Print Assumptions C02_single_claim_at_in_group.
Print Assumptions C02_single_document_order.
Print Assumptions C02_single_document_order_layout.
Print Assumptions C02_single_document_order_pad.
Print Assumptions C02_partial_sub_order.
Print Assumptions C02_single_positions_example.
Print Assumptions C02_single_first_matched_example.
Print Assumptions C02_single_document_order_example.
