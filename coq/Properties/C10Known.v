(* C10, known finding KF-C10-follows-unemitted as a refutation lemma: the start of a class is
   MAX over <followed>_VRAM_CLASS_END, which the script defines only when a member of the followed class is
   emitted.  The witness is replayed on the real code and on GNU ld by the check
   (findings/KF-C10-follows-unemitted.json). *)
From Slinky Require Import Model.Types Model.Runtime Model.Style Model.Script Model.Writer Model.LdSem.
From Slinky Require Import Spec.C18 Spec.C04 Spec.C10 Spec.DocLevel.
From Coq Require Import ZArith.
Local Open Scope string_scope.

(* class "ovl" follows class "base"; the only segment of "base" is excluded under the options of ex_rt *)
Definition kf10_doc : document :=
  Document ex_settings
    [VramClass "base" (Some 2148532224%N) None [] KAbsent; VramClass "ovl" None None ["base"] KAbsent]
    [ex_segment "only" [ex_obj "a.o"] (Some "ovl") None no_conds;
     ex_segment "dbg" [ex_obj "d.o"] (Some "base") None ex_excluded]
    None [] [] [].

Definition kf10_universe : list usec := [USec "build/src/a.o" None ".text" 16 4 false "a_text"].

(* the document is accepted and generates, the class "ovl" is used by an emitted segment, and the link stops:
   the start of "ovl" reads base_VRAM_CLASS_END, which nothing defines *)
Theorem C10_refuted_follows_unemitted :
  exists d rt w u c,
    gen_normal d rt = Ok w /\
    (* the class "ovl" is declared to follow "base", is used by an emitted segment, and "base" is used by none *)
    In c (doc_vram_classes d) /\ vc_name c = "ovl" /\ vc_follows_classes c = ["base"] /\
    In "ovl" (used_classes rt (doc_segments d)) /\
    ~ In "base" (used_classes rt (doc_segments d)) /\
    (* the end symbol of the followed class, which the start of "ovl" reads, is defined nowhere: the link stops *)
    vram_class_end (linker_symbols_style (doc_settings d)) "base" = "base_VRAM_CLASS_END" /\
    In (LUndefined "base_VRAM_CLASS_END") (l_errors (layout (wo_script w) u [])).
Proof.
  exists kf10_doc, ex_rt.
  destruct (gen_normal kf10_doc ex_rt) as [w|e] eqn:G; [|vm_compute in G; discriminate].
  exists w, kf10_universe, (VramClass "ovl" None None ["base"] KAbsent).
  split; [reflexivity|].
  split; [right; left; reflexivity|].
  split; [reflexivity|]. split; [reflexivity|].
  split; [vm_compute; left; reflexivity|].
  split; [vm_compute; intros [H|[]]; discriminate H|].
  split; [reflexivity|].
  vm_compute in G. injection G as <-. vm_compute. left. reflexivity.
Qed.

Print Assumptions C10_refuted_follows_unemitted.
